#!/usr/bin/env python3
"""Source of selftest/mutants.json: the seeded changes each rule must catch (DESIGN Appendix D).
Each edit is (file, find, replace); `expect` is a substring of the violation key that must appear."""
import json, os, sys
M = []


def mut(id, prop, expect, *edits, base=None):
    m = {"id": id, "property": prop, "expect": expect, "edits": [{"file": f, "find": a, "replace": b} for (f, a, b) in edits]}
    if base:
        m["base"] = base  # a refactoring of selftest/refactors applied first
    M.append(m)


S = "src/search.rs"
B = "src/board.rs"
U = "src/uci.rs"
UC = "src/uci/uci_command.rs"
Z = "src/board/zkey.rs"
SE = "src/board/serialize.rs"
MO = "src/search/move_orderer.rs"
EV = "src/evaluate/simple_evaluator.rs"

GUARD = """            // The child may have been cut short and returned a dummy score: don't use or cache it
            if !self.is_running() || self.limits_exceeded(start) {
                return 0;
            }
"""
# ---- C13
mut("C13-drop-child-guard", "C13", "guard:search::Search::alpha_beta:write=insert[Lower]", (S, GUARD, ""))
mut("C13-root-guards-removed", "C13", "guard:search::Search::alpha_beta_start", (S, "        if self.is_running() && !self.limits_exceeded(start) {\n            TRANSPOSITION_TABLE", "        if true {\n            TRANSPOSITION_TABLE"),
    (S, "            if !self.is_running() || self.limits_exceeded(start) {\n                // Don't throw out a partial search", "            if !self.is_running() {\n                // Don't throw out a partial search"))
mut("C13-budget-not-sticky", "C13", "sticky", (S, "            if self.info.nodes >= nodes {\n                self.running.store(false, Ordering::Relaxed);\n                return true;", "            if self.info.nodes % 1024 == 0 && self.info.nodes >= nodes {\n                return true;"))
mut("C13-quiescence-caches", "C13", "writers", (S, "        // We don't check for fifty move rule", "        TRANSPOSITION_TABLE.write().expect(\"poisoned\").insert(self.board.zkey, TTEntry { score: alpha, depth: 0, bound: Bounds::Exact, best_ply: Ply::default() });\n        // We don't check for fifty move rule"))
mut("C13-abort-after-make", "C13", "dummy", (S, "        if !self.is_running() || self.limits_exceeded(start) {\n            return 0;\n        }\n\n        let mut alpha = alpha_start;\n        let mut beta = beta_start;", "        let mut alpha = alpha_start;\n        let mut beta = beta_start;"))
# ---- C10
mut("C10-start-on-thread", "C10", "flag-writers", (S, "        // Uses a heuristic to determine the maximum time", "        self.running.store(true, Ordering::Relaxed);\n        // Uses a heuristic to determine the maximum time"))
mut("C10-stop-arm-noop", "C10", "stop-arm", (U, "                    is_running.store(false, std::sync::atomic::Ordering::Relaxed);\n                }\n            }\n            UCICommand::Quit", "                    let _ = is_running;\n                }\n            }\n            UCICommand::Quit"))
mut("C10-publish-after-spawn-on-one-branch", "C10", "publish", (U, "        self.search_running = Some(search.running.clone());\n        self.join_handle = Some(thread::spawn(move || {\n            search.search(&SimpleEvaluator, max_depth);\n        }));", "        let flag = search.running.clone();\n        self.join_handle = Some(thread::spawn(move || {\n            search.search(&SimpleEvaluator, max_depth);\n        }));\n        if max_depth.is_none() {\n            self.search_running = Some(flag);\n        }"))
# (the earlier form of this mutant stored the flag right after the spawn, unconditionally: go() still returned with the flag
#  published and no command can be processed in between, so it did not break C10; the rule now says "before go returns")
mut("C10-go-refused-by-handle", "C10", "go-reaches-spawn", (U, "if !jh.is_finished() && is_running.load(std::sync::atomic::Ordering::Relaxed) {", "if !jh.is_finished() {"))
mut("C10-bestmove-before-flag", "C10", "flag-cleared-before-bestmove", (S, "        self.stop();\n        self.log(format!(\"bestmove {best_move}\").as_str());", "        self.log(format!(\"bestmove {best_move}\").as_str());\n        self.stop();"))
mut("C10-loop-drops-while-searching", "C10", "no-swallow", (U, "            self.execute_command(command).unwrap_or_else(|err| {", "            if self.join_handle.as_ref().is_some_and(|j| !j.is_finished()) && matches!(command, UCICommand::Position { .. }) {\n                continue;\n            }\n            self.execute_command(command).unwrap_or_else(|err| {"))
mut("C10-flag-created-false", "C10", "flag-created", (S, "running: Arc::new(AtomicBool::new(true)),", "running: Arc::new(AtomicBool::new(false)),"))
# ---- C15
mut("C15-index-after-increment", "C15", "index:", (UC, "                        args.get(idx)\n                            .ok_or(\"Missing depth value\")?\n", "                        args[idx]\n"))
mut("C15-unwrap-in-new-arm", "C15", "may-panic", (UC, "            \"stop\" => Ok(Self::Stop),", "            \"stop\" => Ok(Self::Stop),\n            \"debug\" => { let _on: bool = args.get(1).unwrap().parse().unwrap_or(false); Ok(Self::IsReady) }"))
mut("C15-ignore-eof", "C15", "exit-on-end-of-input", (U, "                Ok(0) | Err(_) => break,\n                Ok(_) => {}", "                Err(_) => break,\n                Ok(_) => {}"))
mut("C15-assert-on-name", "C15", "panic", (UC, "        if name.is_empty() {\n            return Err(\"No name provided to setoption!\".to_string());\n        }", "        assert!(!name.is_empty(), \"Name should not be empty!\");"))
mut("C15-join-on-quit", "C15", "blocking", (U, "            if matches!(command, UCICommand::Quit) {\n                break;", "            if matches!(command, UCICommand::Quit) {\n                if let Some(jh) = self.join_handle.take() { let _ = jh.join(); }\n                break;"))
mut("C15-position-moves-off-by-one", "C15", "index:", (UC, "PositionKind::Fen { .. } if args.len() > 8 && args[7] == \"moves\"", "PositionKind::Fen { .. } if args.len() > 7 && args[8] == \"moves\""))
# ---- C09
mut("C09-second-bestmove-in-loop", "C09", "bestmove-at-most-once", (S, "            let pv = self.get_pv(depth);", "            if depth == 3 { self.log(format!(\"bestmove {}\", \"0000\").as_str()); }\n            let pv = self.get_pv(depth);"))
mut("C09-go-joins", "C09", "no-blocking-call", (U, "        self.join_handle = Some(thread::spawn(move || {\n            search.search(&SimpleEvaluator, max_depth);\n        }));", "        let jh = thread::spawn(move || {\n            search.search(&SimpleEvaluator, max_depth);\n        });\n        let _ = jh.join();\n        self.join_handle = None;"))
mut("C09-unwrap-reintroduced", "C09", "spine-panics", (S, "            .map_or_else(|| \"0000\".to_string(), |best_move| best_move.to_string());", "            .map(|best_move| best_move.to_string())\n            .unwrap();"))
mut("C09-depth-vs-ply-again", ["C09", "C14"], "compares-ply-counter-with-depth-limit", (S, "        if let Some(movetime) = self.limits.movetime {", "        if let Some(depth) = self.limits.depth {\n            if self.info.depth >= depth {\n                return true;\n            }\n        }\n        if let Some(movetime) = self.limits.movetime {"))
# ---- C14
mut("C14-info-before-abort-test", "C14", "info-only-after", (S, "            if !self.is_running() || self.limits_exceeded(start) {\n                break;\n            }\n\n            let pv = self.get_pv(depth);\n            self.log_uci_info(depth, Some(start.elapsed().as_millis()), &pv);", "            let pv = self.get_pv(depth);\n            self.log_uci_info(depth, Some(start.elapsed().as_millis()), &pv);\n            if !self.is_running() || self.limits_exceeded(start) {\n                break;\n            }"))
mut("C14-info-depth-plus-one", "C14", "info-depth-is-loop-variable", (S, "self.log_uci_info(depth, Some(start.elapsed().as_millis()), &pv);", "self.log_uci_info(depth + 1, Some(start.elapsed().as_millis()), &pv);"))
mut("C14-pv-without-legality", "C14", "push-dominated-by-legality", (S, "                if self.original_board.is_legal_move(best_ply).is_err() {\n                    break;\n                }\n", ""))
mut("C14-score-without-move", "C14", "score-and-move-written-together", (S, "            self.info.best_score = Some(alpha);\n            self.info.best_move = Some(best_ply);\n        }\n\n        best_ply", "            self.info.best_score = Some(alpha);\n        }\n        self.info.best_move = Some(best_ply);\n\n        best_ply"))
# ---- C02
mut("C02-no-counter-decrement", "C02", "writeset", (B, "        if self.current_turn == Color::White {\n            self.fullmove_counter -= 1;\n        }\n", ""))
mut("C02-unmake-guard-black", "C02", "counter", (B, "        if self.current_turn == Color::White {\n            self.fullmove_counter -= 1;", "        if self.current_turn == Color::Black {\n            self.fullmove_counter -= 1;"))
mut("C02-ep-from-old-move", "C02", "ep-restore", (B, "        if self.history.last().is_some_and(|f| f.is_double_pawn_push) {\n            let file = self.history.last().unwrap().dest.file;", "        if old_move.is_double_pawn_push {\n            let file = old_move.dest.file;"))
mut("C02-undo-ep-on-dest", "C02", "inverse-seq", (B, "                let en_passant_capture_square = Square {\n                    file: dest.file,\n                    rank: start.rank,\n                };\n                self.add_piece(en_passant_capture_square, captured_piece);", "                self.add_piece(dest, captured_piece);"))
mut("C02-undo-rook-colour", "C02", "castling-rook-colour", (B, "                Kind::Rook(self.current_turn.opposite()),", "                Kind::Rook(self.current_turn),"))
mut("C02-probe-err-before-unmake", "C02", "probe-pair", (B, "        if self.is_in_check(ply.piece.get_color()) {\n            self.unmake_move();\n", "        if self.is_in_check(ply.piece.get_color()) {\n"))
mut("C02-hashset-again", ["C02", "C03"], "multiset", (B, "    position_history: Vec<ZKey>,", "    position_history: std::collections::HashSet<ZKey>,"), (B, "            position_history: Vec::new(),\n\n            bitboards: PieceBitboards::default(),", "            position_history: std::collections::HashSet::new(),\n\n            bitboards: PieceBitboards::default(),"), (B, "self.position_history.push(self.zkey);", "self.position_history.insert(self.zkey);"), (B, "self.position_history.pop();", "self.position_history.remove(&self.zkey);"), ("src/board/boardbuilder.rs", "            position_history: Vec::new(),", "            position_history: std::collections::HashSet::new(),"))
# ---- C03
mut("C03-no-captured-rook-match", "C03", "row:captured", (B, "        match (new_move.captured_piece, new_move.dest) {", "        match (None::<Kind>, new_move.dest) {"))
mut("C03-king-loses-one-right", "C03", "row:mover:King:White", (B, "            (Kind::King(Color::White), _) => {\n                if new_move.castling_rights.white_kingside == CastlingStatus::Available {\n                    self.zkey\n                        .change_castling_rights(CastlingKind::WhiteKingside);\n                    new_move.castling_rights.white_kingside = CastlingStatus::Unavailable;\n                }\n                if new_move.castling_rights.white_queenside == CastlingStatus::Available {\n                    self.zkey\n                        .change_castling_rights(CastlingKind::WhiteQueenside);\n                    new_move.castling_rights.white_queenside = CastlingStatus::Unavailable;\n                }\n            }", "            (Kind::King(Color::White), _) => {\n                if new_move.castling_rights.white_kingside == CastlingStatus::Available {\n                    self.zkey\n                        .change_castling_rights(CastlingKind::WhiteKingside);\n                    new_move.castling_rights.white_kingside = CastlingStatus::Unavailable;\n                }\n            }"))
mut("C03-rights-reset", "C03", "rights-copied-forward", (B, "        new_move.castling_rights = previous_move.castling_rights;", "        new_move.castling_rights = ply::castling::CastlingRights::new();"))
mut("C03-clock-not-reset-on-capture", "C03", "clock", (B, "            (Kind::Pawn(_), _) | (_, Some(_)) => 0,", "            (Kind::Pawn(_), _) => 0,"))
mut("C03-counter-when-black", "C03", "fullmove", (B, "        self.switch_turn();\n        if self.current_turn == Color::White {\n            self.fullmove_counter += 1;", "        self.switch_turn();\n        if self.current_turn == Color::Black {\n            self.fullmove_counter += 1;"))
mut("C03-ep-on-every-pawn-move", "C03", "ep", (B, "        if new_move.is_double_pawn_push {\n            self.en_passant_file = Some(new_move.dest.file);", "        if matches!(new_move.piece, Kind::Pawn(_)) {\n            self.en_passant_file = Some(new_move.dest.file);"))
mut("C03-rook-table-h1-g1", ["C03"], "castling-rook", (B, "                Square { rank: 0, file: 6 } => (Square::from(\"h1\"), Square::from(\"f1\")),\n                Square { rank: 0, file: 2 } => (Square::from(\"a1\"), Square::from(\"d1\")),\n                Square { rank: 7, file: 6 } => (Square::from(\"h8\"), Square::from(\"f8\")),\n                Square { rank: 7, file: 2 } => (Square::from(\"a8\"), Square::from(\"d8\")),\n                _ => panic!(\"Invalid castling king destination {}\", new_move.dest),", "                Square { rank: 0, file: 6 } => (Square::from(\"h1\"), Square::from(\"f1\")),\n                Square { rank: 0, file: 2 } => (Square::from(\"a1\"), Square::from(\"c1\")),\n                Square { rank: 7, file: 6 } => (Square::from(\"h8\"), Square::from(\"f8\")),\n                Square { rank: 7, file: 2 } => (Square::from(\"a8\"), Square::from(\"d8\")),\n                _ => panic!(\"Invalid castling king destination {}\", new_move.dest),"))
# ---- C04
mut("C04-no-clear-old-ep", "C04", "clear-old-ep-word", (B, "        if self.en_passant_file.is_some() {\n            self.zkey.change_en_passant(self.en_passant_file.unwrap());\n        }\n", ""))
mut("C04-captured-rook-no-toggle", "C04", "castle-pair", (B, "            (Some(Kind::Rook(Color::White)), Square { rank: 0, file: 0 }) => {\n                if new_move.castling_rights.white_queenside == CastlingStatus::Available {\n                    self.zkey\n                        .change_castling_rights(CastlingKind::WhiteQueenside);\n", "            (Some(Kind::Rook(Color::White)), Square { rank: 0, file: 0 }) => {\n                if new_move.castling_rights.white_queenside == CastlingStatus::Available {\n"))
mut("C04-wrong-word-toggled", "C04", "castle-pair", (B, "            (Kind::Rook(Color::White), Square { rank: 0, file: 7 }) => {\n                if new_move.castling_rights.white_kingside == CastlingStatus::Available {\n                    self.zkey\n                        .change_castling_rights(CastlingKind::WhiteKingside);", "            (Kind::Rook(Color::White), Square { rank: 0, file: 7 }) => {\n                if new_move.castling_rights.white_kingside == CastlingStatus::Available {\n                    self.zkey\n                        .change_castling_rights(CastlingKind::WhiteQueenside);"))
mut("C04-search-flips-turn", "C04", "writers", (S, "        if depth == 0 {\n            return self.quiescence(evaluator, alpha, beta, start);\n        }", "        if depth == 0 {\n            return self.quiescence(evaluator, alpha, beta, start);\n        }\n        if depth > 200 {\n            self.board.current_turn = self.board.current_turn.opposite();\n        }"))
mut("C04-revert-compares-wrong-field", "C04", "castle-revert", (B, "        if old_move.castling_rights.white_kingside\n            != self.castle_status(CastlingKind::WhiteKingside)", "        if old_move.castling_rights.white_queenside\n            != self.castle_status(CastlingKind::WhiteKingside)"))
mut("C04-ctor-key-not-last", "C04", "key-computed-last", ("src/board/boardbuilder.rs", "        output.zkey = ZKey::from(&output);\n\n        output\n    }", "        output.zkey = ZKey::from(&output);\n        output.current_turn = self.current_turn;\n\n        output\n    }"))
# ---- C05
mut("C05-ep-word-constant", ["C05", "C04"], "index-depends-on-parameters", (Z, "        self.0 ^= TABLE.get_or_init(ZTable::init).en_passant[usize::from(file)];", "        let _ = file;\n        self.0 ^= TABLE.get_or_init(ZTable::init).en_passant[0];"))
mut("C05-knight-shares-bishop-index", "C05", "injective", ("src/board/piece.rs", "            Kind::Knight(_) => 5,", "            Kind::Knight(_) => 4,"))
mut("C05-castling-loop-short", "C05", "castling-coverage", (Z, "        for i in 0..4usize {\n            table.castling[i] = rng.next_u64();", "        for i in 0..3usize {\n            table.castling[i] = rng.next_u64();"))
mut("C05-one-draw-both-colours", "C05", "fresh-word", (Z, "                table.pieces[Color::White as usize][piece][square] = rng.next_u64();\n                table.pieces[Color::Black as usize][piece][square] = rng.next_u64();", "                let word = rng.next_u64();\n                table.pieces[Color::White as usize][piece][square] = word;\n                table.pieces[Color::Black as usize][piece][square] = word;"))
mut("C05-white-turn-zero", "C05", "white_turn", (Z, "        table.white_turn = rng.next_u64();\n", ""))
mut("C05-from-skips-h8", "C05", "all-64-squares", (Z, "        for square in 0..64u8 {\n            if let Some(piece) = board.get_piece(Square::from(square)) {", "        for square in 0..63u8 {\n            if let Some(piece) = board.get_piece(Square::from(square)) {"))
# ---- C06
mut("C06-bishop-table-256", "C06", "magic:bishop", ("src/board/piece/bishop.rs", "const ATTACKS_TABLE_SIZE: usize = 1024;", "const ATTACKS_TABLE_SIZE: usize = 256;"))
mut("C06-rook-bits-lowered", "C06", "magic:rook:a1", ("src/board/piece/rook.rs", "    const INDEX_BITS: [u8; 64] = [\n        12, 11,", "    const INDEX_BITS: [u8; 64] = [\n        11, 11,"))
mut("C06-rook-magic-collides", "C06", "magic:rook", ("src/board/piece/rook.rs", "        0x6c00049b0002001,", "        0x1,"))
mut("C06-knight-file-mask", "C06", "leapers:knight", ("src/board/piece/knight.rs", "& !(File::A as u64 | File::B as u64 ))", "& !(File::A as u64))"))
mut("C06-pawn-masks-swapped", "C06", "leapers:pawn", ("src/board/piece/pawn.rs", "((origin >> 9) & !(File::H as u64)) | ((origin >> 7) & !(File::A as u64));", "((origin >> 9) & !(File::A as u64)) | ((origin >> 7) & !(File::H as u64));"))
mut("C06-rook-mask-keeps-rank8", "C06", "mask-edges:rook", ("src/board/piece/rook.rs", "                & !(Rank::Eighth as u64)\n", "                & !(Rank::Seventh as u64)\n"))
mut("C06-southeast-scans-forward", "C06", "ray-walk:bishop", ("src/board/piece/bishop.rs", "            let blocked_idx = (southeast_ray & blockers).bitscan_reverse();", "            let blocked_idx = (southeast_ray & blockers).bitscan_forward();"))
mut("C06-reader-other-magics", "C06", "scheme:bishop", ("src/board/piece/bishop.rs", "        let key: u64 = ((masked_blockers * Self::MAGICS[square.u8() as usize])", "        let key: u64 = ((masked_blockers * super::rook::Rook::MAGICS_PUB[square.u8() as usize])"), ("src/board/piece/rook.rs", "impl Rook {\n    #[allow(clippy::unreadable_literal)]\n    const MAGICS: [u64; 64] = [", "impl Rook {\n    pub const MAGICS_PUB: [u64; 64] = Self::MAGICS;\n    #[allow(clippy::unreadable_literal)]\n    const MAGICS: [u64; 64] = ["))
mut("C06-queen-rook-only", "C06", "queen", ("src/board/piece/queen.rs", "        Rook::get_attacks_wrapper(square, blockers) | Bishop::get_attacks_wrapper(square, blockers)", "        Rook::get_attacks_wrapper(square, blockers) | Rook::get_attacks_wrapper(square, blockers)"))
# ---- C07
mut("C07-n-is-bishop", "C07", "letter:n", (SE, "            'n' => FENInstruction::Bitboard(&mut black_knights),", "            'n' => FENInstruction::Bitboard(&mut black_bishops),"))
mut("C07-Q-grants-kingside", "C07", "castle:letter:Q", (SE, "            'Q' => builder.castling(CastlingKind::WhiteQueenside, CastlingStatus::Available),", "            'Q' => builder.castling(CastlingKind::WhiteKingside, CastlingStatus::Available),"))
mut("C07-clock-fields-swapped", "C07", "field:", (SE, "        builder = halfmove_clock(builder, fields.get(4).unwrap_or(&\"0\"));\n        builder = fullmove_counter(builder, fields.get(5).unwrap_or(&\"1\"));", "        builder = halfmove_clock(builder, fields.get(5).unwrap_or(&\"0\"));\n        builder = fullmove_counter(builder, fields.get(4).unwrap_or(&\"1\"));"))
mut("C07-ep-record-without-flag", "C07", "history:with-ep", (SE, "            .double_pawn_push(true)\n", ""))
mut("C07-build-drops-clock", "C07", "clock-into-history", ("src/board/boardbuilder.rs", "        self.history[0].halfmove_clock = self.halfmove_clock;\n", ""))
mut("C07-side-letters-swapped", "C07", "side:letters", (SE, "        'w' => builder.turn(Color::White),\n        'b' => builder.turn(Color::Black),", "        'b' => builder.turn(Color::White),\n        'w' => builder.turn(Color::Black),"))
mut("C07-count-knights-as-bishops", ["C07", "C17"], "get_piece_count:Black-Knight", ("src/board/piece_bitboards.rs", "            Kind::Knight(Color::Black) => self.black_knights.count_ones(),", "            Kind::Knight(Color::Black) => self.black_bishops.count_ones(),"))
# ---- C11
mut("C11-orderer-stops-early", "C11", "None-iff-exhausted", (MO, "        if self.index == self.scored_moves.len() {", "        if self.index + 1 >= self.scored_moves.len() {"))
mut("C11-scan-from-zero", "C11", "swap-within-pending-part", (MO, "        for i in (self.index + 1)..self.scored_moves.len() {", "        for i in 0..self.scored_moves.len() {"))
mut("C11-null-window-no-minus-one", "C11", "windows", (S, "                        alpha.saturating_neg() - 1,\n                        alpha.saturating_neg(),\n                        depth - 1,\n                        start,\n                    )\n                    .saturating_neg();\n                // Principal variation search failed, the score is different then our bounds\n                if alpha < score && score < beta {\n                    score = self\n                        .alpha_beta(\n                            evaluator,\n                            beta.saturating_neg(),\n                            alpha.saturating_neg(),\n                            depth - 1,\n                            start,\n                        )\n                        .saturating_neg();\n                }\n            } else {\n                score = self\n                    .alpha_beta(\n                        evaluator,\n                        beta.saturating_neg(),\n                        alpha.saturating_neg(),\n                        depth - 1,\n                        start,\n                    )\n                    .saturating_neg();\n            }\n            self.info.depth -= 1;\n\n            self.board.unmake_move();", "                        alpha.saturating_neg(),\n                        alpha.saturating_neg(),\n                        depth - 1,\n                        start,\n                    )\n                    .saturating_neg();\n                // Principal variation search failed, the score is different then our bounds\n                if alpha < score && score < beta {\n                    score = self\n                        .alpha_beta(\n                            evaluator,\n                            beta.saturating_neg(),\n                            alpha.saturating_neg(),\n                            depth - 1,\n                            start,\n                        )\n                        .saturating_neg();\n                }\n            } else {\n                score = self\n                    .alpha_beta(\n                        evaluator,\n                        beta.saturating_neg(),\n                        alpha.saturating_neg(),\n                        depth - 1,\n                        start,\n                    )\n                    .saturating_neg();\n            }\n            self.info.depth -= 1;\n\n            self.board.unmake_move();"))
mut("C11-stalemate-as-mate", ["C11", "C12"], "stalemate-score", (S, "            return 0; // Stalemate", "            return Score::MIN + i16::from(self.info.depth); // Stalemate"))
mut("C11-no-check-extension", "C11", "check-extension", (S, "            depth += 1;\n        }\n\n        if depth == 0 {", "            depth += 0;\n        }\n\n        if depth == 0 {"))
mut("C11-quiescence-all-moves", "C11", "captures-only", (S, "        let moves: Vec<Ply> = self.board.get_filtered_moves(Ply::is_capture);", "        let moves: Vec<Ply> = self.board.get_filtered_moves(|_| true);"))
mut("C11-cut-on-greater-alpha", "C11", "cut", (S, "            // Move is too good, opponent will not allow the game to reach this position\n            if score >= beta {\n                TRANSPOSITION_TABLE", "            // Move is too good, opponent will not allow the game to reach this position\n            if score <= beta {\n                TRANSPOSITION_TABLE"))
# ---- C12
mut("C12-probe-shallower", "C12", "entry-used-only-if-deep-enough", (S, "            if entry.depth >= depth {", "            if entry.depth <= depth {"))
mut("C12-lower-upper-swapped-probe", "C12", "probe:Lower", (S, "                    Bounds::Lower => alpha = alpha.max(entry.score),\n                    Bounds::Upper => beta = beta.min(entry.score),", "                    Bounds::Upper => alpha = alpha.max(entry.score),\n                    Bounds::Lower => beta = beta.min(entry.score),"))
mut("C12-always-exact", "C12", "store:final", (S, "                    bound: if alpha <= alpha_start {\n                        Bounds::Upper\n                    } else {\n                        Bounds::Exact\n                    },", "                    bound: Bounds::Exact,"))
mut("C12-cutoff-stored-upper", "C12", "store:cutoff", (S, "                            bound: Bounds::Lower,", "                            bound: Bounds::Upper,"))
# ---- C16
mut("C16-seed-from-clock", "C16", "seed", (Z, "        let mut rng = ChaCha8Rng::seed_from_u64(SEED);", "        let mut rng = ChaCha8Rng::seed_from_u64(SEED ^ std::time::SystemTime::now().duration_since(std::time::UNIX_EPOCH).map_or(0, |d| d.as_secs()));"))
mut("C16-bench-no-clear", "C16", "bench", ("src/bench.rs", "        TRANSPOSITION_TABLE\n            .write()\n            .expect(\"Transposition table is poisoned! Unable to write new entry.\")\n            .clear();\n", ""))
mut("C16-killers-in-static", "C16", "statics", (S, "pub type Depth = u8;", "pub static LAST_KILLER: std::sync::Mutex<Option<Ply>> = std::sync::Mutex::new(None);\npub type Depth = u8;"))
mut("C16-pv-iterates-cache", "C16", "hash-order", (S, "        let original_zkey = self.original_board.zkey;\n", "        let original_zkey = self.original_board.zkey;\n        let _first = tt.iter().next().map(|(k, _)| *k);\n"))
mut("C16-time-tiebreak", "C16", "clock-compared-with-limit", (S, "        let duration = start.elapsed();", "        if start.elapsed().as_micros() % 1000 == 999 {\n            return true;\n        }\n        let duration = start.elapsed();"))
# ---- C17
mut("C17-bishop-325-for-mover", "C17", "material-tables-equal", (EV, "            (Kind::Bishop(board.current_turn), Self::BISHOP_VALUE),", "            (Kind::Bishop(board.current_turn), Self::BISHOP_VALUE + 25),"))
mut("C17-second-table-same-side", "C17", "side:opponent", (EV, "            (Kind::Pawn(board.current_turn.opposite()), Self::PAWN_VALUE),", "            (Kind::Pawn(board.current_turn), Self::PAWN_VALUE),"))
mut("C17-add-in-both-loops", "C17", "material-tables-equal", (EV, "            score = score.saturating_sub(board.get_piece_count(kind) as i16 * value);", "            score = score.saturating_add(board.get_piece_count(kind) as i16 * value);"))
mut("C17-tempo-bonus", "C17", "only", (EV, "        score\n    }", "        if board.current_turn == crate::board::piece::Color::White { score += 10; }\n        score\n    }"))

# ---- C08
mut("C08-moves-on-session-board", "C08", "load_position", (U, "            if let Ok(m) = board.find_move(notation.as_str()) {\n                board.make_move(m);", "            if let Ok(m) = self.board.find_move(notation.as_str()) {\n                self.board.make_move(m);"))
mut("C08-break-on-bad-move", "C08", "unknown-move-refuses-command", (U, "            } else {\n                return Err(format!(\"Invalid move: {notation}\"));\n            }", "            } else {\n                self.elog(format!(\"Invalid move: {notation}\"));\n                break;\n            }"))
mut("C08-find-by-prefix", "C08", "exact-equality", (B, "            .find(|m| m.to_notation() == notation)", "            .find(|m| m.to_notation().starts_with(notation))"))
mut("C08-fen-moves-from-7", "C08", "fen-moves-from-8", (UC, "                Some(args[8..].iter().map(ToString::to_string).collect())", "                Some(args[7..].iter().map(ToString::to_string).collect())"))
mut("C08-ucinewgame-noop", "C08", "UCINewGame", (U, "            UCICommand::UCINewGame => self.board = BoardBuilder::construct_starting_board().build(),", "            UCICommand::UCINewGame => {}"))
mut("C08-knight-suffix-k", "C08", "promotion-suffix", ("src/board/ply.rs", "                Kind::Knight(_) => notation.push('n'),", "                Kind::Knight(_) => notation.push('k'),"))
mut("C08-commit-inside-loop", "C08", "commit", (U, "            if let Ok(m) = board.find_move(notation.as_str()) {\n                board.make_move(m);", "            if let Ok(m) = board.find_move(notation.as_str()) {\n                board.make_move(m);\n                self.board = board.clone();"))
mut("C08-fen-five-fields", "C08", "fen-is-args", (UC, "                    fen: args[1..7].join(\" \"),", "                    fen: args[1..6].join(\" \"),"))

# ---- C01
K = "src/board/piece/king.rs"
P = "src/board/piece/pawn.rs"
mut("C01-queenside-b1-must-be-safe", "C01", "no_checks_castling:WhiteQueenside", (B, "            CastlingKind::WhiteQueenside => (attacks & 0x1C).is_empty(),", "            CastlingKind::WhiteQueenside => (attacks & 0x1E).is_empty(),"))
mut("C01-black-queenside-b8-may-be-occupied", "C01", "no_pieces_between_castling:BlackQueenside", (B, "            CastlingKind::BlackQueenside => self.bitboards.all_pieces & 0x_0E00_0000_0000_0000,", "            CastlingKind::BlackQueenside => self.bitboards.all_pieces & 0x_0C00_0000_0000_0000,"))
mut("C01-probe-tests-side-to-move", "C01", "checks-movers-king", (B, "        if self.is_in_check(ply.piece.get_color()) {", "        if self.is_in_check(self.current_turn) {"))
mut("C01-promotion-always-white-knight", "C01", "four-promotions", (P, "                    .promoted_to(Kind::Knight(color))", "                    .promoted_to(Kind::Knight(Color::White))"))
mut("C01-promotion-no-bishop", "C01", "four-promotions", (P, "                Ply::builder(ply.start, ply.dest, ply.piece)\n                    .promoted_to(Kind::Bishop(color))\n                    .build(),\n", ""))
mut("C01-ep-victim-on-dest-rank", "C01", "captured-piece-source", (B, "                                mv.captured_piece = self.get_piece(Square {\n                                    rank: mv.start.rank,\n                                    file: mv.dest.file,\n                                });", "                                mv.captured_piece = self.get_piece(Square {\n                                    rank: mv.dest.rank,\n                                    file: mv.dest.file,\n                                });"))
mut("C01-attacked-squares-loop-63", "C01", "square-loop", (B, "        for square in 0..64u8 {\n            if attacking_pieces & (1 << square) == Bitboard::new(0) {", "        for square in 0..63u8 {\n            if attacking_pieces & (1 << square) == Bitboard::new(0) {"))
mut("C01-castle-ignores-checks", "C01", "three-conjuncts", (B, "                .no_pieces_between_castling(kind)\n                .and(self.no_checks_castling(kind))\n                .is_ok()", "                .no_pieces_between_castling(kind)\n                .is_ok()"))
mut("C01-black-castles-to-g1", "C01", "castle-move:BlackKingside", (K, "                    Ply::builder(square, Square::from(\"g8\"), Kind::King(color))", "                    Ply::builder(square, Square::from(\"g1\"), Kind::King(color))"))
mut("C01-castle-without-flag", "C01", "castle-move:WhiteQueenside", (K, "                    Ply::builder(square, Square::from(\"c1\"), Kind::King(color))\n                        .castles(true)", "                    Ply::builder(square, Square::from(\"c1\"), Kind::King(color))\n                        .castles(false)"))
mut("C01-ep-rank-white-5", "C01", "direction-and-ranks", (P, "            Color::White => (Direction::North, 1, 4, 7),", "            Color::White => (Direction::North, 1, 5, 7),"))
mut("C01-ep-captures-own-pawn", "C01", "en-passant", (P, "                    Ply::builder(square, dest_east, Kind::Pawn(color))\n                        .en_passant(true)\n                        .captured(Kind::Pawn(color.opposite()))", "                    Ply::builder(square, dest_east, Kind::Pawn(color))\n                        .en_passant(true)\n                        .captured(Kind::Pawn(color))"))
mut("C01-generate-for-both-sides", "C01", "own-pieces-only", (B, "                if self.current_turn != piece.get_color() {\n                    continue;\n                }\n", ""))
mut("C01-check-looks-at-other-king", "C01", "king-of-colour", (B, "            Color::White => self.bitboards.white_king,\n            Color::Black => self.bitboards.black_king,", "            Color::White => self.bitboards.black_king,\n            Color::Black => self.bitboards.white_king,"))
mut("C01-filter-keeps-illegal", "C01", "predicate", (B, "        moves.retain(|mv| self.is_legal_move(*mv).is_ok());", "        moves.retain(|mv| self.is_legal_move(*mv).is_ok() || mv.is_castles);"))
mut("C01-knight-dispatches-to-bishop", "C01", "Kind::get_moveset:Knight", ("src/board/piece.rs", "            Self::Knight(color) => Knight::get_moveset(square, board, color),", "            Self::Knight(color) => Bishop::get_moveset(square, board, color),"))

# ---- later additions
mut("C15-continue-skips-increment", "C15", "loop", (UC, "                \"searchmoves\" => {}", "                \"searchmoves\" => { continue; }"))
mut("C06-subset-bit-from-mask-index", "C06", "subset-enum", ("src/board/piece.rs", "            if idx & (1 << i) != 0 {", "            if idx & (1 << (bitidx % 16)) != 0 {"))
mut("C06-subset-loop-from-one", "C06", "subset-enum", ("src/board/piece.rs", "        for i in 0..bits {", "        for i in 1..bits {"))
mut("C10-is-running-always-true", ["C10", "C09"], "is_running", (S, "        self.running.load(Ordering::Relaxed)\n", "        let _ = self.running.load(Ordering::Relaxed);\n        true\n"))

mut("C09-budget-from-opponents-clock", "C09", "time-budget", (S, "            Color::White => {\n                self.limits.white_time.unwrap_or(0) / 20", "            Color::White => {\n                self.limits.black_time.unwrap_or(0) / 20"))


mut("C09-go-wtime-feeds-black-clock", "C09", "go-keyword", (UC, '"wtime" => {\n                    idx += 1;\n                    limits = limits.white_time(Some(', '"wtime" => {\n                    idx += 1;\n                    limits = limits.black_time(Some('))
mut("C14-depth-setter-clamps", "C14", "limits-setter:depth", ("src/search/limits.rs", "        self.depth = depth;", "        self.depth = match depth { Some(d) if d > 64 => Some(64), other => other };"))


mut("C11-futility-return-alpha", "C11", "exits", (S, "        let moves = self.board.get_all_moves();\n        let mut total_legal_moves = 0;\n\n        // A side that is completely blocked in", "        if depth == 1 && evaluator.evaluate(&mut self.board).saturating_add(300) <= alpha {\n            return alpha;\n        }\n\n        let moves = self.board.get_all_moves();\n        let mut total_legal_moves = 0;\n\n        // A side that is completely blocked in"))
mut("C11-late-move-pruning", "C11", "no-move-skipped", (S, "            total_legal_moves += 1;\n", "            total_legal_moves += 1;\n            if total_legal_moves > 12 && depth <= 2 && !mv.is_capture() {\n                continue;\n            }\n"))

# ---- seeded changes made to REFACTORED code: the rules must follow the extracted helpers and still see the breakage
R = "selftest/refactors/"
mut("R-C13-drop-child-guard-in-helper-form", "C13", "guard:search::Search::alpha_beta:write=insert[Lower]",
    (S, "            // The child may have been cut short and returned a dummy score: don't use or cache it\n            if self.should_abort(start) {\n                return 0;\n            }\n", ""), base=R + "R1-refactor2.diff")
mut("R-C13-should-abort-ignores-limits", "C13", "guard", (S, "        !self.is_running() || self.limits_exceeded(start)\n    }", "        !self.is_running()\n    }"), base=R + "R1-refactor2.diff")
mut("R-C03-revoke-wrong-kind-at-call-site", "C03", "revocation-table",
    (B, "            (Kind::Rook(Color::White), Square { rank: 0, file: 7 }) => {\n                self.revoke(new_move, CastlingKind::WhiteKingside);", "            (Kind::Rook(Color::White), Square { rank: 0, file: 7 }) => {\n                self.revoke(new_move, CastlingKind::WhiteQueenside);"), base=R + "R2-refactor2.diff")
mut("R-C04-revoke-helper-skips-key", "C04", "castle-pair", (B, "            self.zkey.change_castling_rights(kind);\n            *right = CastlingStatus::Unavailable;", "            *right = CastlingStatus::Unavailable;"), base=R + "R2-refactor2.diff")
mut("R-C06-magic-index-helper-off-by-one", "C06", "scheme", ("src/board/piece/rook.rs", "(product >> (64 - Self::INDEX_BITS[square])) as usize", "(product >> (63 - Self::INDEX_BITS[square])) as usize"), base=R + "R3-refactor2.diff")
mut("R-C02-finish-move-push-conditional", "C02", "stack", (B, "        self.history.push(new_move);\n    }", "        if !new_move.is_castles {\n            self.history.push(new_move);\n        }\n    }"), base=R + "R2-refactor4.diff")
mut("R-C09-announce-helper-skips-when-none", "C09", "one-site", (S, "        self.log(format!(\"bestmove {best_move}\").as_str());\n    }", "        if self.info.best_move.is_some() {\n            self.log(format!(\"bestmove {best_move}\").as_str());\n        }\n    }"), base=R + "R1-refactor4.diff")

# ... on the third wave of refactorings (data-driven castling bookkeeping, iterator pipelines, combinators)
mut("R-C03-lost-by-capture-slice-wrong-kind", "C03", "revocation-table",
    (B, "            (Some(Kind::Rook(Color::Black)), Square { rank: 7, file: 0 }) => {\n                &[CastlingKind::BlackQueenside]", "            (Some(Kind::Rook(Color::Black)), Square { rank: 7, file: 0 }) => {\n                &[CastlingKind::BlackKingside]"), base=R + "R7-refactor6.diff")
mut("R-C04-revocation-loop-toggles-before-test", "C04", "castle-pair",
    (B, "            if *status == CastlingStatus::Available {\n                self.zkey.change_castling_rights(kind);\n                *status = CastlingStatus::Unavailable;", "            self.zkey.change_castling_rights(kind);\n            if *status == CastlingStatus::Available {\n                *status = CastlingStatus::Unavailable;"), base=R + "R7-refactor6.diff")
mut("R-C02-ep-filter-map-reads-start-file", "C02", "ep-restore",
    (B, "            .map(|previous| previous.dest.file);", "            .map(|previous| previous.start.file);"), base=R + "R7-refactor6.diff")
mut("R-C03-rook-corner-lookup-a8-gives-kingside", "C03", "revocation-table",
    (B, "            (Kind::Rook(Color::Black), Square { rank: 7, file: 0 }) => {\n                Some(CastlingKind::BlackQueenside)", "            (Kind::Rook(Color::Black), Square { rank: 7, file: 0 }) => {\n                Some(CastlingKind::BlackKingside)"), base=R + "R7-refactor2.diff")
mut("R-C04-restore-keys-loop-skips-black-queenside", "C04", "castle-revert",
    (B, "            CastlingKind::BlackKingside,\n            CastlingKind::BlackQueenside,\n        ] {\n            if Self::castling_right(undone, kind)", "            CastlingKind::BlackKingside,\n        ] {\n            if Self::castling_right(undone, kind)"), base=R + "R7-refactor2.diff")
mut("R-C01-attacked-squares-fold-filters-own-pieces", "C01", "check-mirror",
    (B, "            .filter(|&square| attacking_pieces & (1 << square) != Bitboard::new(0))", "            .filter(|&square| attacking_pieces & (1 << square) == Bitboard::new(0))"), base=R + "R7-refactor3.diff")
mut("R-C05-castling-kind-discriminants-collide", "C05", "injective",
    ("src/board/ply/castling.rs", "        kind as Self\n", "        (kind as Self) & 2\n"), base=R + "R7-refactor5.diff")

mut("C11-ply-counter-not-restored-in-quiescence", "C11", "ply-counter",
    (S, "                .saturating_neg();\n            self.info.depth -= 1;\n\n            self.board.unmake_move();", "                .saturating_neg();\n\n            self.board.unmake_move();"))
mut("C11-ply-counter-raised-after-seldepth-only-under-pvs", "C11", "ply-counter",
    (S, "            let mut score;\n            self.info.depth += 1;\n            self.info.seldepth = self.info.seldepth.max(self.info.depth);\n            if pvs {", "            let mut score;\n            self.info.seldepth = self.info.seldepth.max(self.info.depth);\n            if pvs {\n                self.info.depth += 1;"))

# ... on the fourth wave (modernised spellings)
mut("R-C11-search-child-researches-on-either-bound", "C11", "windows",
    (S, "            let pvs_failed = alpha < score && score < beta;", "            let pvs_failed = alpha < score || score < beta;"), base=R + "R9-refactor2.diff")
mut("R-C11-search-child-returns-null-window-score-always", "C11", "windows",
    (S, "            if !pvs_failed {\n                return score;\n            }", "            return score;"), base=R + "R9-refactor2.diff")
mut("R-C04-from-scratch-via-mutators-wrong-kind", "C04", "same-words",
    ("src/board/zkey.rs", "        key.add_castling_right_if_available(board, CastlingKind::BlackQueenside);", "        key.add_castling_right_if_available(board, CastlingKind::BlackKingside);"), base=R + "R11-refactor2.diff")
mut("R-C05-filter-map-piece-loop-stops-at-63", "C05", "components",
    ("src/board/zkey.rs", "            (0..64u8).filter_map(|square| Some((square, board.get_piece(Square::from(square))?)));", "            (0..63u8).filter_map(|square| Some((square, board.get_piece(Square::from(square))?)));"), base=R + "R11-refactor3.diff")
mut("R-C15-line-iterator-flattens-errors", "C15", "io-exits",
    ("src/uci.rs", "        for line in input.lines().map_while(Result::ok) {", "        for line in input.lines().flatten() {"), base=R + "R10-refactor6.diff")

mut("R-C10-search-task-is-busy-ignores-flag", "C10", "go-reaches-spawn",
    ("src/uci.rs", "        !self.thread.is_finished() && self.running.load(std::sync::atomic::Ordering::Relaxed)", "        !self.thread.is_finished()"), base=R + "R10-refactor2.diff")
mut("R-C10-search-task-request-stop-stores-true", "C10", "stop-arm",
    ("src/uci.rs", "            .store(false, std::sync::atomic::Ordering::Relaxed);", "            .store(true, std::sync::atomic::Ordering::Relaxed);"), base=R + "R10-refactor2.diff")
mut("R-C15-handle-line-continues-on-quit", "C15", "io-exits",
    ("src/uci.rs", "            return ControlFlow::Break(());", "            return ControlFlow::Continue(());"), base=R + "R10-refactor2.diff")
# ---- "must exist" clauses found by the deletion sweep (tools/deletion_sweep.py): each deletion passes the suite
mut("C11-quiescence-alpha-never-raised", "C11", "alpha-is-raised", (S, "            if score > alpha {\n                alpha = score;\n            }\n        }\n\n        alpha\n", "        }\n\n        alpha\n"))
mut("C11-get-filtered-moves-keeps-everything", "C11", "retains-by-the-predicate", (B, "        moves.retain(predicate);\n", ""))
mut("C09-root-does-not-count-nodes", "C09", "counts-its-nodes", (S, "            self.info.nodes += 1;\n", ""))
mut("C12-upper-bound-flag-never-chosen", "C12", "store:final", (S, "                    bound: if alpha <= alpha_start {", "                    bound: if alpha < alpha_start {"))
mut("C01-on-board-filter-admits-rank-8", "C01", "on-board-filter", ("src/board/piece.rs", "                mv.start.rank < 8\n", "                mv.start.rank <= 8\n"))
mut("C01-on-board-filter-or-instead-of-and", "C01", "on-board-filter", ("src/board/piece.rs", "                    && mv.dest.rank < 8\n", "                    || mv.dest.rank < 8\n"))
mut("C11-legal-move-counter-starts-at-one", "C11", "legal-move-counter", (S, "        let moves = self.board.get_all_moves();\n        let mut total_legal_moves = 0;\n", "        let moves = self.board.get_all_moves();\n        let mut total_legal_moves = 1;\n"))
mut("C15-end-of-input-tested-against-one", "C15", "exit-only-on-count-zero", (U, "                Ok(0) | Err(_) => break,", "                Ok(1) | Err(_) => break,"))
# ---- the plain generators and the bit iteration underneath them
mut("C01-knight-cannot-capture", "C01", "generators:Knight", ("src/board/piece/knight.rs", "        let move_mask = Self::get_attacks(square) & !same_pieces;", "        let move_mask = Self::get_attacks(square) & !board.bitboards.all_pieces;"))
mut("C01-bishop-black-own-is-white", "C01", "generators:Bishop:Black", ("src/board/piece/bishop.rs", "            Color::Black => board.bitboards.black_pieces,", "            Color::Black => board.bitboards.white_pieces,"))
mut("C01-queen-moves-carry-rook-kind", "C01", "generators:Queen", ("src/board/piece/queen.rs", "            .map(|s| Ply::new(square, s, Kind::Queen(color)))", "            .map(|s| Ply::new(square, s, Kind::Rook(color)))"))
mut("C01-rook-ignores-blockers", "C01", "generators:Rook", ("src/board/piece/rook.rs", "        let move_mask = Self::get_attacks(square, board.bitboards.all_pieces) & !same_pieces;", "        let move_mask = Self::get_attacks(square, same_pieces) & !same_pieces;"))
mut("C01-king-skips-first-target", "C01", "generators:King", ("src/board/piece/king.rs", "            .into_iter()\n            .map(|s| Ply::new(square, s, Kind::King(color)))", "            .into_iter()\n            .skip(1)\n            .map(|s| Ply::new(square, s, Kind::King(color)))"))
mut("C06-bit-iteration-stops-at-last-bit", "C06", "bit-iteration", ("src/board/bitboard.rs", "        while mask != 0 {\n            let idx = mask.trailing_zeros() as u8;", "        while mask.count_ones() > 1 {\n            let idx = mask.trailing_zeros() as u8;"))
mut("C06-bit-iteration-clears-before-reading", "C06", "bit-iteration", ("src/board/bitboard.rs", "            let idx = mask.trailing_zeros() as u8;\n            squares.push(Square::from(idx));\n            mask &= mask - 1;", "            mask &= mask - 1;\n            let idx = mask.trailing_zeros() as u8;\n            squares.push(Square::from(idx));"))
mut("C06-bit-iteration-skips-h8", "C06", "bit-iteration", ("src/board/bitboard.rs", "            squares.push(Square::from(idx));\n            mask &= mask - 1;", "            if idx < 63 {\n                squares.push(Square::from(idx));\n            }\n            mask &= mask - 1;"))
mut("R-C01-bit-loop-start-dest-swapped", "C01", "generators", ("src/board/piece.rs", "        moveset.push(Ply::new(start, dest, piece));", "        moveset.push(Ply::new(dest, start, piece));"), base=R + "R12-refactor3.diff")
# ---- on the sixth wave: bit iterators, rights indexed by kind, merged keyword index, const direction table
BB = "src/board/bitboard.rs"
mut("R-C06-bit-iterator-clears-before-reading", "C06", "bit-iterator", (BB, "        let idx = self.remaining.trailing_zeros() as u8;\n        self.remaining &= self.remaining - 1;", "        self.remaining &= self.remaining - 1;\n        let idx = self.remaining.trailing_zeros() as u8;"), base=R + "R16-refactor4.diff")
mut("R-C01-attackers-loop-over-all-pieces", "C01", "get_attacked_squares", (B, "        for square in attacking_pieces {", "        for square in self.bitboards.all_pieces {"), base=R + "R15-refactor3.diff")
mut("R-C01-own-pieces-loop-black-reads-white", "C01", "square-loop", (B, "            Color::Black => self.bitboards.black_pieces,\n        };\n\n        for square in own_pieces {", "            Color::Black => self.bitboards.white_pieces,\n        };\n\n        for square in own_pieces {"), base=R + "R15-refactor3.diff")
mut("R-C03-index-mut-kingside-selects-queenside", "C03", "revocation-table", ("src/board/ply/castling.rs", "            CastlingKind::WhiteKingside => &mut self.white_kingside,", "            CastlingKind::WhiteKingside => &mut self.white_queenside,"), base=R + "R15-refactor2.diff")
mut("R-C03-rook-corner-h1-is-queenside", "C03", "revocation-table", (B, "            (Color::White, Square { rank: 0, file: 7 }) => Some(CastlingKind::WhiteKingside),", "            (Color::White, Square { rank: 0, file: 7 }) => Some(CastlingKind::WhiteQueenside),"), base=R + "R15-refactor2.diff")
mut("R-C08-merged-keyword-index-fen-moves-at-6", "C08", "fen-moves-from-8", (UC, "                (PositionKind::Fen { fen }, FEN_FIELDS + 1)", "                (PositionKind::Fen { fen }, FEN_FIELDS)"), base=R + "R15-refactor6.diff")
mut("R-C01-direction-table-southeast-is-southwest", "C01", "unit-steps", ("src/board/square.rs", "    Delta::new(-1, 1),  // SouthEast", "    Delta::new(-1, -1),  // SouthEast"), base=R + "R15-refactor5.diff")
mut("R-C03-by-value-rights-not-written-back", "C03", "revocation", (B, "        new_move.castling_rights = rights;\n", ""), base=R + "R16-refactor3.diff")
mut("R-C02-by-value-checks-return-touches-clock", "C02", "pushes-the-played-move", (B, "        new_move.castling_rights = rights;\n", "        new_move.castling_rights = rights;\n        new_move.halfmove_clock = 0;\n"), base=R + "R16-refactor3.diff")
mut("R-C15-merged-name-end-allows-equal", "C15", "index", (UC, "            Some(end_idx) if end_idx > name_idx => end_idx,", "            Some(end_idx) if end_idx >= name_idx => end_idx,"), base=R + "R14-refactor3.diff")
mut("R-C15-merged-keyword-index-guard-off-by-one", "C15", "index", (UC, "        let moves = if args.len() > keyword_idx + 1 && args[keyword_idx] == \"moves\" {", "        let moves = if args.len() >= keyword_idx && args[keyword_idx] == \"moves\" {"), base=R + "R14-refactor3.diff")
# ---- on the fifth wave: castling moves produced by a loop over the two wings (R12-3)
K12 = "src/board/piece/king.rs"
mut("R-C01-castle-loop-queenside-file-b", "C01", "castle-move", (K12, "const QUEENSIDE_DEST_FILE: u8 = 2; // c-file", "const QUEENSIDE_DEST_FILE: u8 = 1; // c-file"), base=R + "R12-refactor3.diff")
mut("R-C01-castle-loop-ignores-right", "C01", "castle-move", (K12, "                == CastlingStatus::Available\n            {\n                let dest = Square {", "                != CastlingStatus::Unavailable\n            {\n                let dest = Square {"), base=R + "R12-refactor3.diff")
mut("R-C01-castle-loop-black-home-e1", "C01", "castle-move", (K12, "const BLACK_KING_HOME: Square = Square { rank: 7, file: 4 }; // e8", "const BLACK_KING_HOME: Square = Square { rank: 0, file: 4 }; // e8"), base=R + "R12-refactor3.diff")
mut("R-C01-castle-loop-not-flagged", "C01", "castle-move", (K12, "                    Ply::builder(square, dest, Kind::King(color))\n                        .castles(true)", "                    Ply::builder(square, dest, Kind::King(color))\n                        .castles(false)"), base=R + "R12-refactor3.diff")


if __name__ == "__main__":
    missing = []
    for m in M:
        if m.get("base"):
            continue  # anchors live in the refactored tree
        for e in m["edits"]:
            s = open(os.path.join("/repo", e["file"])).read()
            if e["find"] not in s:
                missing.append((m["id"], e["file"], e["find"][:60]))
    json.dump(M, open(os.path.join(os.path.dirname(os.path.abspath(__file__)), "mutants.json"), "w"), indent=1)
    print(len(M), "mutants;", len(missing), "with missing anchors")
    for x in missing:
        print("  MISSING", x)
