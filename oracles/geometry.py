"""Independent chess geometry used only to validate constants extracted from the source.
Square index = rank*8 + file, a1 = 0, h8 = 63 (the engine's own convention, checked by C04.same-words)."""

FILE_A = 0x0101010101010101
RANK_1 = 0xFF
MASK64 = (1 << 64) - 1

DIRS = {"North": (1, 0), "NorthEast": (1, 1), "East": (0, 1), "SouthEast": (-1, 1), "South": (-1, 0), "SouthWest": (-1, -1), "West": (0, -1), "NorthWest": (1, -1)}
ROOK_DIRS = ("North", "East", "South", "West")
BISHOP_DIRS = ("NorthEast", "SouthEast", "SouthWest", "NorthWest")


def bit(r, f):
    return 1 << (r * 8 + f)


def ray(sq, d):
    """Squares strictly beyond sq in direction d, as a list from nearest to farthest."""
    dr, df = DIRS[d]
    r, f = divmod(sq, 8)
    out = []
    r += dr
    f += df
    while 0 <= r < 8 and 0 <= f < 8:
        out.append(r * 8 + f)
        r += dr
        f += df
    return out


def ray_mask(sq, d):
    m = 0
    for s in ray(sq, d):
        m |= 1 << s
    return m


def relevant_mask(sq, dirs):
    """Relevant-occupancy mask: every ray square except the last one of each ray (the board edge)."""
    m = 0
    for d in dirs:
        for s in ray(sq, d)[:-1]:
            m |= 1 << s
    return m


def slider_attacks(sq, occ, dirs):
    a = 0
    for d in dirs:
        for s in ray(sq, d):
            a |= 1 << s
            if occ >> s & 1:
                break
    return a


def subsets(mask):
    """All subsets of a bit mask (Carry-Rippler)."""
    s = 0
    while True:
        yield s
        s = (s - mask) & mask
        if s == 0:
            break


def popcount(x):
    return bin(x).count("1")


def leaper(sq, deltas):
    r, f = divmod(sq, 8)
    m = 0
    for dr, df in deltas:
        rr, ff = r + dr, f + df
        if 0 <= rr < 8 and 0 <= ff < 8:
            m |= bit(rr, ff)
    return m


KNIGHT_DELTAS = [(2, 1), (2, -1), (-2, 1), (-2, -1), (1, 2), (1, -2), (-1, 2), (-1, -2)]
KING_DELTAS = [(1, 0), (1, 1), (0, 1), (-1, 1), (-1, 0), (-1, -1), (0, -1), (1, -1)]
PAWN_DELTAS = {"White": [(1, 1), (1, -1)], "Black": [(-1, 1), (-1, -1)]}


def file_mask(name):
    return FILE_A << "ABCDEFGH".index(name)


def rank_mask(name):
    order = ["First", "Second", "Third", "Fourth", "Fifth", "Sixth", "Seventh", "Eighth"]
    return RANK_1 << (8 * order.index(name))


def square_name(s):
    return "abcdefgh"[s % 8] + str(s // 8 + 1)


def shifted(origin_sq, shift):
    """What `origin << shift` (shift > 0) or `origin >> -shift` gives for a one-bit board, or 0 if it leaves the board."""
    t = origin_sq + shift
    return (1 << t) if 0 <= t < 64 else 0


START = {
    "white_pawns": 0xFF00, "white_king": 0x10, "white_queens": 0x08, "white_rooks": 0x81, "white_bishops": 0x24, "white_knights": 0x42,
    "black_pawns": 0xFF << 48, "black_king": 0x10 << 56, "black_queens": 0x08 << 56, "black_rooks": 0x81 << 56, "black_bishops": 0x24 << 56, "black_knights": 0x42 << 56,
}

# FIDE castling: squares that must be empty / not attacked, as bit masks
CASTLE_BETWEEN = {"WhiteKingside": bit(0, 5) | bit(0, 6), "WhiteQueenside": bit(0, 1) | bit(0, 2) | bit(0, 3),
                  "BlackKingside": bit(7, 5) | bit(7, 6), "BlackQueenside": bit(7, 1) | bit(7, 2) | bit(7, 3)}
CASTLE_SAFE = {"WhiteKingside": bit(0, 4) | bit(0, 5) | bit(0, 6), "WhiteQueenside": bit(0, 2) | bit(0, 3) | bit(0, 4),
               "BlackKingside": bit(7, 4) | bit(7, 5) | bit(7, 6), "BlackQueenside": bit(7, 2) | bit(7, 3) | bit(7, 4)}
