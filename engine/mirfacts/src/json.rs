// Minimal JSON value + writer (no external crates are available to a rustc_private driver here).
pub enum J {
    Null,
    Bool(bool),
    Int(i128),
    Str(String),
    Arr(Vec<J>),
    Obj(Vec<(String, J)>),
}

impl J {
    pub fn s(x: &str) -> J {
        J::Str(x.to_string())
    }
    pub fn obj(kv: Vec<(&str, J)>) -> J {
        J::Obj(kv.into_iter().map(|(k, v)| (k.to_string(), v)).collect())
    }
    pub fn write(&self, out: &mut String) {
        match self {
            J::Null => out.push_str("null"),
            J::Bool(b) => out.push_str(if *b { "true" } else { "false" }),
            J::Int(i) => out.push_str(&i.to_string()),
            J::Str(s) => write_str(s, out),
            J::Arr(a) => {
                out.push('[');
                for (i, x) in a.iter().enumerate() {
                    if i > 0 {
                        out.push(',');
                    }
                    x.write(out);
                }
                out.push(']');
            }
            J::Obj(o) => {
                out.push('{');
                for (i, (k, v)) in o.iter().enumerate() {
                    if i > 0 {
                        out.push(',');
                    }
                    write_str(k, out);
                    out.push(':');
                    v.write(out);
                }
                out.push('}');
            }
        }
    }
}

fn write_str(s: &str, out: &mut String) {
    out.push('"');
    for c in s.chars() {
        match c {
            '"' => out.push_str("\\\""),
            '\\' => out.push_str("\\\\"),
            '\n' => out.push_str("\\n"),
            '\r' => out.push_str("\\r"),
            '\t' => out.push_str("\\t"),
            c if (c as u32) < 0x20 => out.push_str(&format!("\\u{:04x}", c as u32)),
            c => out.push(c),
        }
    }
    out.push('"');
}
