// mirfacts: rustc_private driver that dumps the type-checked program of the crate under analysis
// (MIR bodies with resolved callees, ADT tables, evaluated constants, statics) as one JSON file.
// Used as RUSTC_WORKSPACE_WRAPPER; see /verif/DESIGN.md section 2 and Appendix B.
#![feature(rustc_private)]
#![allow(clippy::all)]

extern crate rustc_abi;
extern crate rustc_driver;
extern crate rustc_hir;
extern crate rustc_interface;
extern crate rustc_middle;
extern crate rustc_span;

mod json;
use json::J;

use rustc_driver::Compilation;
use rustc_hir::def::DefKind;
use rustc_hir::def_id::{DefId, LocalDefId, LOCAL_CRATE};
use rustc_interface::interface::Compiler;
use rustc_middle::mir::{
    self, AggregateKind, BasicBlock, Body, Const, ConstValue, Operand, Place, PlaceTy,
    ProjectionElem, Rvalue, StatementKind, TerminatorKind, VarDebugInfoContents,
};
use rustc_middle::ty::print::with_no_trimmed_paths;
use rustc_middle::ty::{self, GenericArgsRef, Instance, Ty, TyCtxt, TypingEnv};
use rustc_span::Span;

struct Cb {
    out: Option<String>,
    want_crate: String,
}

impl rustc_driver::Callbacks for Cb {
    fn after_analysis<'tcx>(&mut self, _c: &Compiler, tcx: TyCtxt<'tcx>) -> Compilation {
        let name = tcx.crate_name(LOCAL_CRATE).to_string();
        if name == self.want_crate {
            if let Some(out) = &self.out {
                let doc = with_no_trimmed_paths!(dump_crate(tcx, &name));
                let mut s = String::with_capacity(1 << 24);
                doc.write(&mut s);
                // one write per process
                std::fs::write(out, s).expect("mirfacts: cannot write facts file");
            }
        }
        Compilation::Continue
    }
}

fn main() {
    let mut args: Vec<String> = std::env::args().collect();
    // RUSTC_WORKSPACE_WRAPPER: argv[1] is the real rustc; drop it.
    if args.len() > 1 && (args[1].ends_with("rustc") || args[1].contains("/rustc")) {
        args.remove(1);
    }
    let is_test = args.iter().any(|a| a == "--test");
    let is_bin_or_lib = !is_test;
    let out = std::env::var("MIRFACTS_OUT").ok().filter(|_| is_bin_or_lib);
    let want = std::env::var("MIRFACTS_CRATE").unwrap_or_else(|_| "rust_chess_engine".to_string());
    let mut cb = Cb { out, want_crate: want };
    rustc_driver::run_compiler(&args, &mut cb);
}

// ------------------------------------------------------------------------------------------------

fn span_json<'tcx>(tcx: TyCtxt<'tcx>, sp: Span) -> (String, i128, i128) {
    let sm = tcx.sess.source_map();
    let lo = sm.lookup_char_pos(sp.lo());
    let hi = sm.lookup_char_pos(sp.hi());
    let file = match &lo.file.name {
        rustc_span::FileName::Real(r) => match r.local_path() {
            Some(p) => p.to_string_lossy().to_string(),
            None => format!("{:?}", lo.file.name),
        },
        other => format!("{:?}", other),
    };
    (file, lo.line as i128, hi.line as i128)
}

fn line_of<'tcx>(tcx: TyCtxt<'tcx>, sp: Span) -> i128 {
    // for expanded code point at the outermost call site
    let sp = sp.source_callsite();
    tcx.sess.source_map().lookup_char_pos(sp.lo()).line as i128
}

fn ty_str<'tcx>(t: Ty<'tcx>) -> String {
    format!("{}", t)
}

fn path<'tcx>(tcx: TyCtxt<'tcx>, d: DefId) -> String {
    tcx.def_path_str(d)
}

struct Cx<'a, 'tcx> {
    tcx: TyCtxt<'tcx>,
    body: &'a Body<'tcx>,
    env: TypingEnv<'tcx>,
}

impl<'a, 'tcx> Cx<'a, 'tcx> {
    fn place(&self, p: &Place<'tcx>) -> J {
        let tcx = self.tcx;
        let mut pty = PlaceTy::from_ty(self.body.local_decls[p.local].ty);
        let mut proj = Vec::new();
        for elem in p.projection.iter() {
            match elem {
                ProjectionElem::Deref => proj.push(J::s("*")),
                ProjectionElem::Field(f, fty) => {
                    let name = match pty.ty.kind() {
                        ty::Adt(adt, _) => {
                            let v = pty.variant_index.unwrap_or(rustc_abi::FIRST_VARIANT);
                            if adt.is_enum() && pty.variant_index.is_none() {
                                f.index().to_string()
                            } else {
                                adt.variant(v).fields[f].name.to_string()
                            }
                        }
                        _ => f.index().to_string(),
                    };
                    let mut fo: Vec<(&str, J)> = vec![
                        ("f", J::Int(f.index() as i128)),
                        ("n", J::Str(name)),
                        ("ty", J::Str(ty_str(fty))),
                    ];
                    // which local ADT (and variant) the field belongs to: lets the rules undo a field rename
                    if let ty::Adt(adt, _) = pty.ty.kind() {
                        if adt.did().is_local() {
                            fo.push(("of", J::Str(path(tcx, adt.did()))));
                            let v = pty.variant_index.unwrap_or(rustc_abi::FIRST_VARIANT);
                            fo.push(("ofv", J::Str(adt.variant(v).name.to_string())));
                        }
                    }
                    proj.push(J::obj(fo));
                }
                ProjectionElem::Downcast(_, vidx) => {
                    let name = match pty.ty.kind() {
                        ty::Adt(adt, _) => adt.variant(vidx).name.to_string(),
                        _ => vidx.index().to_string(),
                    };
                    proj.push(J::obj(vec![("d", J::Str(name)), ("v", J::Int(vidx.index() as i128))]));
                }
                ProjectionElem::Index(l) => {
                    proj.push(J::obj(vec![("i", J::Int(l.index() as i128))]));
                }
                ProjectionElem::ConstantIndex { offset, min_length, from_end } => {
                    proj.push(J::obj(vec![
                        ("ci", J::Int(offset as i128)),
                        ("min", J::Int(min_length as i128)),
                        ("from_end", J::Bool(from_end)),
                    ]));
                }
                ProjectionElem::Subslice { from, to, from_end } => {
                    proj.push(J::obj(vec![
                        ("sub", J::Int(from as i128)),
                        ("to", J::Int(to as i128)),
                        ("from_end", J::Bool(from_end)),
                    ]));
                }
                ProjectionElem::OpaqueCast(_) => proj.push(J::s("opaque")),
                ProjectionElem::UnwrapUnsafeBinder(_) => proj.push(J::s("unbinder")),
            }
            pty = pty.projection_ty(tcx, elem);
        }
        J::obj(vec![
            ("l", J::Int(p.local.index() as i128)),
            ("p", J::Arr(proj)),
            ("ty", J::Str(ty_str(pty.ty))),
        ])
    }

    fn constant(&self, c: &Const<'tcx>, span: Span) -> J {
        let tcx = self.tcx;
        let cty = c.ty();
        let mut o: Vec<(&str, J)> = vec![("ty", J::Str(ty_str(cty)))];
        o.push(("disp", J::Str(format!("{}", c))));
        if let ty::FnDef(did, args) = *cty.kind() {
            o.push(("fn_decl", J::Str(path(tcx, did))));
            // a function item used as a value: resolve trait methods to the impl they name
            let mut target = did;
            if !format!("{:?}", args).contains("Param(") {
                if let Ok(Some(inst)) = Instance::try_resolve(tcx, self.env, did, args) {
                    target = inst.def_id();
                }
            }
            o.push(("fn", J::Str(path(tcx, target))));
            o.push(("substs", substs_json(args)));
            return J::obj(vec![("const", J::obj(o))]);
        }
        if let Const::Unevaluated(uv, _) = c {
            match uv.promoted {
                Some(p) => {
                    o.push(("promoted", J::Int(p.index() as i128)));
                    o.push(("promoted_of", J::Str(path(tcx, uv.def))));
                }
                None => o.push(("item", J::Str(path(tcx, uv.def)))),
            }
        }
        // Only evaluate when there are no generic parameters left.
        let evaluable = !format!("{:?}", c).contains("Param(")
            && match c {
                Const::Unevaluated(uv, _) => !uv.args.iter().any(|a| format!("{:?}", a).contains("/#")),
                _ => true,
            };
        if evaluable {
            if let Ok(v) = c.eval(tcx, self.env, span) {
                const_value_json(tcx, v, cty, &mut o);
            }
        }
        J::obj(vec![("const", J::obj(o))])
    }

    fn operand(&self, op: &Operand<'tcx>) -> J {
        match op {
            Operand::Copy(p) => J::obj(vec![("copy", self.place(p))]),
            Operand::Move(p) => J::obj(vec![("move", self.place(p))]),
            Operand::Constant(c) => self.constant(&c.const_, c.span),
            other => J::obj(vec![("other", J::Str(format!("{:?}", other)))]),
        }
    }

    fn rvalue(&self, rv: &Rvalue<'tcx>) -> J {
        let tcx = self.tcx;
        match rv {
            Rvalue::Use(op, ..) => J::obj(vec![("k", J::s("use")), ("a", self.operand(op))]),
            Rvalue::Repeat(op, n) => J::obj(vec![
                ("k", J::s("repeat")),
                ("a", self.operand(op)),
                ("n", J::Str(format!("{}", n))),
            ]),
            Rvalue::Ref(_, bk, p) => J::obj(vec![
                ("k", J::s("ref")),
                ("mut", J::Bool(matches!(bk, mir::BorrowKind::Mut { .. }))),
                ("bk", J::Str(format!("{:?}", bk))),
                ("p", self.place(p)),
            ]),
            Rvalue::RawPtr(kind, p) => J::obj(vec![
                ("k", J::s("rawptr")),
                ("bk", J::Str(format!("{:?}", kind))),
                ("p", self.place(p)),
            ]),
            Rvalue::ThreadLocalRef(d) => {
                J::obj(vec![("k", J::s("tlsref")), ("def", J::Str(path(tcx, *d)))])
            }
            Rvalue::Cast(kind, op, t) => J::obj(vec![
                ("k", J::s("cast")),
                ("ck", J::Str(format!("{:?}", kind))),
                ("a", self.operand(op)),
                ("to", J::Str(ty_str(*t))),
                ("from", J::Str(ty_str(op.ty(&self.body.local_decls, tcx)))),
            ]),
            Rvalue::BinaryOp(op, ab) => J::obj(vec![
                ("k", J::s("binop")),
                ("op", J::Str(format!("{:?}", op))),
                ("a", self.operand(&ab.0)),
                ("b", self.operand(&ab.1)),
            ]),
            Rvalue::UnaryOp(op, a) => J::obj(vec![
                ("k", J::s("unop")),
                ("op", J::Str(format!("{:?}", op))),
                ("a", self.operand(a)),
            ]),
            Rvalue::Discriminant(p) => J::obj(vec![("k", J::s("discr")), ("p", self.place(p))]),
            Rvalue::Aggregate(kind, ops) => {
                let mut o: Vec<(&str, J)> = vec![("k", J::s("agg"))];
                match &**kind {
                    AggregateKind::Array(t) => {
                        o.push(("agg", J::s("array")));
                        o.push(("elem_ty", J::Str(ty_str(*t))));
                    }
                    AggregateKind::Tuple => o.push(("agg", J::s("tuple"))),
                    AggregateKind::Adt(did, vidx, args, _, active) => {
                        o.push(("agg", J::s("adt")));
                        o.push(("adt", J::Str(path(tcx, *did))));
                        let adt = tcx.adt_def(*did);
                        let v = adt.variant(*vidx);
                        o.push(("variant", J::Str(v.name.to_string())));
                        o.push(("vidx", J::Int(vidx.index() as i128)));
                        o.push(("substs", substs_json(args)));
                        let names: Vec<J> = match active {
                            Some(f) => vec![J::Str(v.fields[*f].name.to_string())],
                            None => v.fields.iter().map(|f| J::Str(f.name.to_string())).collect(),
                        };
                        o.push(("fields", J::Arr(names)));
                    }
                    AggregateKind::Closure(did, _) => {
                        o.push(("agg", J::s("closure")));
                        o.push(("closure", J::Str(path(tcx, *did))));
                    }
                    other => {
                        o.push(("agg", J::s("other")));
                        o.push(("desc", J::Str(format!("{:?}", other))));
                    }
                }
                o.push(("ops", J::Arr(ops.iter().map(|x| self.operand(x)).collect())));
                J::obj(o)
            }
            Rvalue::CopyForDeref(p) => J::obj(vec![
                ("k", J::s("use")),
                ("a", J::obj(vec![("copy", self.place(p))])),
                ("deref_copy", J::Bool(true)),
            ]),
            other => J::obj(vec![("k", J::s("other")), ("desc", J::Str(format!("{:?}", other)))]),
        }
    }

    fn callee(&self, func: &Operand<'tcx>) -> Vec<(&'static str, J)> {
        let tcx = self.tcx;
        let mut o: Vec<(&'static str, J)> = Vec::new();
        if let Some((did, args)) = func.const_fn_def() {
            o.push(("decl", J::Str(path(tcx, did))));
            o.push(("substs", substs_json(args)));
            let mut resolved = false;
            let mut target = did;
            let mut ikind = String::from("Item");
            if let Ok(Some(inst)) = Instance::try_resolve(tcx, self.env, did, args) {
                target = inst.def_id();
                ikind = format!("{:?}", inst.def).split('(').next().unwrap_or("").to_string();
                // A trait method that resolves to itself (default body) is still resolved;
                // a Virtual / unresolved generic call is not.
                resolved = !matches!(inst.def, ty::InstanceKind::Virtual(..));
                if tcx.trait_of_assoc(target).is_some() && tcx.trait_of_assoc(did).is_some() {
                    // still points at a trait item: resolved only if it has a default body
                    resolved = resolved && tcx.is_mir_available(target) || !target.is_local() && resolved;
                }
                o.push(("inst_substs", substs_json(inst.args)));
            }
            o.push(("callee", J::Str(path(tcx, target))));
            o.push(("resolved", J::Bool(resolved)));
            o.push(("ikind", J::Str(ikind)));
            o.push(("local", J::Bool(target.is_local())));
            if let Some(tr) = tcx.trait_of_assoc(did) {
                o.push(("trait", J::Str(path(tcx, tr))));
            }
            // signature: does the callee return `!`
            let sig = tcx.fn_sig(did).instantiate_identity().skip_norm_wip();
            o.push(("ret_never", J::Bool(sig.output().skip_binder().is_never())));
        } else {
            o.push(("indirect", self.operand(func)));
            o.push(("fn_ty", J::Str(ty_str(func.ty(&self.body.local_decls, tcx)))));
        }
        o
    }

    fn terminator(&self, t: &mir::Terminator<'tcx>) -> J {
        let tcx = self.tcx;
        let sp = t.source_info.span;
        let mut o: Vec<(&str, J)> = Vec::new();
        o.push(("line", J::Int(line_of(tcx, sp))));
        o.push(("exp", J::Bool(sp.from_expansion())));
        let bb = |b: BasicBlock| J::Int(b.index() as i128);
        match &t.kind {
            TerminatorKind::Goto { target } => {
                o.push(("k", J::s("goto")));
                o.push(("target", bb(*target)));
            }
            TerminatorKind::SwitchInt { discr, targets } => {
                o.push(("k", J::s("switch")));
                o.push(("discr", self.operand(discr)));
                let dty = discr.ty(&self.body.local_decls, tcx);
                o.push(("discr_ty", J::Str(ty_str(dty))));
                let arms: Vec<J> = targets
                    .iter()
                    .map(|(v, b)| J::Arr(vec![J::Int(v as i128), bb(b)]))
                    .collect();
                o.push(("arms", J::Arr(arms)));
                o.push(("otherwise", bb(targets.otherwise())));
            }
            TerminatorKind::Return => o.push(("k", J::s("return"))),
            TerminatorKind::Unreachable => o.push(("k", J::s("unreachable"))),
            TerminatorKind::UnwindResume => o.push(("k", J::s("resume"))),
            TerminatorKind::UnwindTerminate(_) => o.push(("k", J::s("abort"))),
            TerminatorKind::Drop { place, target, .. } => {
                o.push(("k", J::s("drop")));
                o.push(("p", self.place(place)));
                o.push(("target", bb(*target)));
            }
            TerminatorKind::Call { func, args, destination, target, fn_span, .. } => {
                o.push(("k", J::s("call")));
                for kv in self.callee(func) {
                    o.push(kv);
                }
                o.push(("args", J::Arr(args.iter().map(|a| self.operand(&a.node)).collect())));
                o.push(("dest", self.place(destination)));
                o.push(("target", match target { Some(b) => bb(*b), None => J::Null }));
                o.push(("fn_line", J::Int(line_of(tcx, *fn_span))));
            }
            TerminatorKind::TailCall { func, args, .. } => {
                o.push(("k", J::s("tailcall")));
                for kv in self.callee(func) {
                    o.push(kv);
                }
                o.push(("args", J::Arr(args.iter().map(|a| self.operand(&a.node)).collect())));
            }
            TerminatorKind::Assert { cond, expected, msg, target, .. } => {
                o.push(("k", J::s("assert")));
                o.push(("cond", self.operand(cond)));
                o.push(("expected", J::Bool(*expected)));
                let (kind, ops): (String, Vec<J>) = match &**msg {
                    mir::AssertKind::BoundsCheck { len, index } => {
                        ("bounds".into(), vec![self.operand(len), self.operand(index)])
                    }
                    mir::AssertKind::Overflow(op, a, b) => {
                        (format!("overflow:{:?}", op), vec![self.operand(a), self.operand(b)])
                    }
                    mir::AssertKind::OverflowNeg(a) => ("overflow:Neg".into(), vec![self.operand(a)]),
                    mir::AssertKind::DivisionByZero(a) => ("div0".into(), vec![self.operand(a)]),
                    mir::AssertKind::RemainderByZero(a) => ("rem0".into(), vec![self.operand(a)]),
                    other => (format!("other:{:?}", other).chars().take(60).collect(), vec![]),
                };
                o.push(("akind", J::Str(kind)));
                o.push(("aops", J::Arr(ops)));
                o.push(("target", bb(*target)));
            }
            TerminatorKind::FalseEdge { real_target, .. } => {
                o.push(("k", J::s("goto")));
                o.push(("target", bb(*real_target)));
            }
            TerminatorKind::FalseUnwind { real_target, .. } => {
                o.push(("k", J::s("goto")));
                o.push(("target", bb(*real_target)));
            }
            other => {
                o.push(("k", J::s("other")));
                o.push(("desc", J::Str(format!("{:?}", other).chars().take(200).collect())));
            }
        }
        J::obj(o)
    }

    fn body_json(&self, key: String, kind: &str, parent: Option<String>, did: DefId) -> J {
        let tcx = self.tcx;
        let body = self.body;
        let (file, lo, hi) = span_json(tcx, body.span);
        let mut locals = Vec::new();
        for (_l, d) in body.local_decls.iter_enumerated() {
            locals.push(J::obj(vec![
                ("ty", J::Str(ty_str(d.ty))),
                ("mut", J::Bool(d.mutability.is_mut())),
            ]));
        }
        let mut dbg = Vec::new();
        for v in body.var_debug_info.iter() {
            let val = match &v.value {
                VarDebugInfoContents::Place(p) => self.place(p),
                VarDebugInfoContents::Const(c) => self.constant(&c.const_, c.span),
            };
            dbg.push(J::obj(vec![
                ("name", J::Str(v.name.to_string())),
                ("val", val),
                ("arg", match v.argument_index { Some(i) => J::Int(i as i128), None => J::Null }),
            ]));
        }
        let mut blocks = Vec::new();
        for (_b, data) in body.basic_blocks.iter_enumerated() {
            let mut stmts = Vec::new();
            for st in data.statements.iter() {
                let sp = st.source_info.span;
                match &st.kind {
                    StatementKind::Assign(b) => {
                        let (p, rv) = &**b;
                        stmts.push(J::obj(vec![
                            ("lhs", self.place(p)),
                            ("rv", self.rvalue(rv)),
                            ("line", J::Int(line_of(tcx, sp))),
                            ("exp", J::Bool(sp.from_expansion())),
                        ]));
                    }
                    StatementKind::SetDiscriminant { place, variant_index } => {
                        stmts.push(J::obj(vec![
                            ("lhs", self.place(place)),
                            ("rv", J::obj(vec![
                                ("k", J::s("setdiscr")),
                                ("vidx", J::Int(variant_index.index() as i128)),
                            ])),
                            ("line", J::Int(line_of(tcx, sp))),
                            ("exp", J::Bool(sp.from_expansion())),
                        ]));
                    }
                    StatementKind::Intrinsic(i) => {
                        stmts.push(J::obj(vec![
                            ("intrinsic", J::Str(format!("{:?}", i).chars().take(120).collect())),
                            ("line", J::Int(line_of(tcx, sp))),
                        ]));
                    }
                    _ => {}
                }
            }
            let term = self.terminator(data.terminator());
            blocks.push(J::obj(vec![
                ("stmts", J::Arr(stmts)),
                ("term", term),
                ("cleanup", J::Bool(data.is_cleanup)),
            ]));
        }
        let vis = match tcx.def_kind(did) {
            DefKind::Fn | DefKind::AssocFn => format!("{:?}", tcx.visibility(did)),
            _ => String::new(),
        };
        J::obj(vec![
            ("key", J::Str(key)),
            ("kind", J::s(kind)),
            ("parent", match parent { Some(p) => J::Str(p), None => J::Null }),
            ("file", J::Str(file)),
            ("line_lo", J::Int(lo)),
            ("line_hi", J::Int(hi)),
            ("arg_count", J::Int(body.arg_count as i128)),
            ("vis", J::Str(vis)),
            ("locals", J::Arr(locals)),
            ("debug", J::Arr(dbg)),
            ("blocks", J::Arr(blocks)),
        ])
    }
}

fn substs_json<'tcx>(args: GenericArgsRef<'tcx>) -> J {
    J::Arr(args.iter().map(|a| J::Str(format!("{}", a))).collect())
}

fn hex(bytes: &[u8]) -> String {
    let mut s = String::with_capacity(bytes.len() * 2);
    for b in bytes {
        s.push_str(&format!("{:02x}", b));
    }
    s
}

fn const_value_json<'tcx>(tcx: TyCtxt<'tcx>, v: ConstValue, cty: Ty<'tcx>, o: &mut Vec<(&str, J)>) {
    match v {
        ConstValue::Scalar(mir::interpret::Scalar::Int(si)) => {
            let size = si.size();
            let bits = si.to_bits(size);
            o.push(("bits", J::Str(bits.to_string())));
            o.push(("size", J::Int(size.bytes() as i128)));
            if cty.is_signed() {
                o.push(("int", J::Int(si.to_int(size))));
            } else if bits <= i128::MAX as u128 {
                o.push(("int", J::Int(bits as i128)));
            }
        }
        ConstValue::Scalar(mir::interpret::Scalar::Ptr(ptr, _)) => {
            // pointer constants: name the static they point to
            let aid = ptr.provenance.alloc_id();
            match tcx.global_alloc(aid) {
                rustc_middle::mir::interpret::GlobalAlloc::Static(d) => {
                    o.push(("static", J::Str(path(tcx, d))));
                }
                rustc_middle::mir::interpret::GlobalAlloc::Function { instance } => {
                    o.push(("fnptr", J::Str(path(tcx, instance.def_id()))));
                }
                _ => {}
            }
        }
        ConstValue::ZeroSized => o.push(("zst", J::Bool(true))),
        ConstValue::Slice { alloc_id, meta } => {
            let alloc = tcx.global_alloc(alloc_id).unwrap_memory();
            let a = alloc.inner();
            // element size: only str / [u8] are decoded
            let is_bytes = match cty.kind() {
                ty::Ref(_, inner, _) => inner.is_str() || matches!(inner.kind(), ty::Slice(e) if *e == tcx.types.u8),
                _ => false,
            };
            if is_bytes {
                let len = meta as usize;
                if len <= a.len() {
                    let bytes = a.inspect_with_uninit_and_ptr_outside_interpreter(0..len);
                    match std::str::from_utf8(bytes) {
                        Ok(s) => o.push(("str", J::Str(s.to_string()))),
                        Err(_) => o.push(("bytes", J::Str(hex(bytes)))),
                    }
                }
            }
        }
        ConstValue::Indirect { alloc_id, offset } => {
            if let rustc_middle::mir::interpret::GlobalAlloc::Memory(alloc) = tcx.global_alloc(alloc_id) {
                let a = alloc.inner();
                let start = offset.bytes() as usize;
                let len = a.len();
                if start <= len && len - start <= (1 << 16) {
                    // bytes only when there are no pointers in the allocation
                    if a.provenance().ptrs().is_empty() {
                        let bytes = a.inspect_with_uninit_and_ptr_outside_interpreter(start..len);
                        o.push(("bytes", J::Str(hex(bytes))));
                    }
                }
            }
        }
    }
}

// ---- interior mutability walker -----------------------------------------------------------------

fn has_unsafe_cell_deep<'tcx>(tcx: TyCtxt<'tcx>, t: Ty<'tcx>, seen: &mut Vec<Ty<'tcx>>, depth: usize) -> bool {
    if depth > 24 || seen.contains(&t) {
        return false;
    }
    seen.push(t);
    match t.kind() {
        ty::Adt(adt, args) => {
            if adt.is_unsafe_cell() {
                return true;
            }
            for v in adt.variants().iter() {
                for f in v.fields.iter() {
                    let fty = f.ty(tcx, args);
                    if has_unsafe_cell_deep(tcx, fty, seen, depth + 1) {
                        return true;
                    }
                }
            }
            // also the type arguments (Vec<T> reaches T only through raw pointers / PhantomData)
            for a in args.iter() {
                if let Some(at) = a.as_type() {
                    if has_unsafe_cell_deep(tcx, at, seen, depth + 1) {
                        return true;
                    }
                }
            }
            false
        }
        ty::Ref(_, inner, _) | ty::RawPtr(inner, _) | ty::Slice(inner) | ty::Array(inner, _) => {
            has_unsafe_cell_deep(tcx, *inner, seen, depth + 1)
        }
        ty::Tuple(ts) => ts.iter().any(|x| has_unsafe_cell_deep(tcx, x, seen, depth + 1)),
        ty::Dynamic(..) | ty::FnPtr(..) => false,
        _ => false,
    }
}

// ---- crate dump ---------------------------------------------------------------------------------

fn dump_crate<'tcx>(tcx: TyCtxt<'tcx>, name: &str) -> J {
    let mut bodies: Vec<J> = Vec::new();
    let mut consts: Vec<J> = Vec::new();
    let mut statics: Vec<J> = Vec::new();
    let mut adts: Vec<J> = Vec::new();
    let mut n_fn = 0usize;

    for ldid in tcx.hir_body_owners() {
        let did: DefId = ldid.to_def_id();
        let kind = tcx.def_kind(did);
        let key = path(tcx, did);
        match kind {
            DefKind::Fn | DefKind::AssocFn | DefKind::Closure => {
                let body = tcx.optimized_mir(did);
                let env = TypingEnv::post_analysis(tcx, did);
                let cx = Cx { tcx, body, env };
                let parent = if matches!(kind, DefKind::Closure) {
                    Some(path(tcx, tcx.typeck_root_def_id(did)))
                } else {
                    None
                };
                let k = if matches!(kind, DefKind::Closure) { "closure" } else { "fn" };
                bodies.push(cx.body_json(key.clone(), k, parent, did));
                n_fn += 1;
                dump_promoted(tcx, ldid, &key, &mut bodies);
            }
            DefKind::Const { .. } | DefKind::AssocConst { .. } => {
                let t = tcx.type_of(did).instantiate_identity().skip_norm_wip();
                let mut o: Vec<(&str, J)> = vec![("path", J::Str(key.clone())), ("ty", J::Str(ty_str(t)))];
                let generics = tcx.generics_of(did);
                if generics.count() == 0 || (generics.own_params.is_empty() && !format!("{:?}", t).contains("Param(") && parent_has_no_type_params(tcx, did)) {
                    if let Ok(v) = tcx.const_eval_poly(did) {
                        const_value_json(tcx, v, t, &mut o);
                    }
                    // the initialiser expression as a body: lets the rules read structured constants
                    // (`const TRIP: (Square, Square) = (Square { .. }, Square { .. })`) field by field
                    let env = TypingEnv::post_analysis(tcx, did);
                    let body = tcx.mir_for_ctfe(did);
                    let cx = Cx { tcx, body, env };
                    bodies.push(cx.body_json(format!("{}::{{init}}", key), "const_init", None, did));
                }
                let (file, lo, _) = span_json(tcx, tcx.def_span(did));
                o.push(("file", J::Str(file)));
                o.push(("line", J::Int(lo)));
                consts.push(J::obj(o));
            }
            DefKind::Static { mutability, .. } => {
                let t = tcx.type_of(did).instantiate_identity().skip_norm_wip();
                let env = TypingEnv::post_analysis(tcx, did);
                let freeze = t.is_freeze(tcx, env);
                let (file, lo, _) = span_json(tcx, tcx.def_span(did));
                statics.push(J::obj(vec![
                    ("path", J::Str(key.clone())),
                    ("ty", J::Str(ty_str(t))),
                    ("mutable", J::Bool(mutability.is_mut())),
                    ("interior_mut", J::Bool(!freeze)),
                    ("file", J::Str(file)),
                    ("line", J::Int(lo)),
                ]));
                // static initialiser body (const-evaluated): dump as a body too
                let body = tcx.mir_for_ctfe(did);
                let cx = Cx { tcx, body, env };
                bodies.push(cx.body_json(key.clone(), "static_init", None, did));
            }
            _ => {}
        }
    }

    // ADTs of the local crate
    for id in tcx.hir_free_items() {
        let did = id.owner_id.to_def_id();
        let kind = tcx.def_kind(did);
        if matches!(kind, DefKind::Struct | DefKind::Enum | DefKind::Union) {
            let adt = tcx.adt_def(did);
            let mut variants = Vec::new();
            for (vidx, v) in adt.variants().iter_enumerated() {
                let discr = if adt.is_enum() {
                    J::Str(adt.discriminant_for_variant(tcx, vidx).val.to_string())
                } else {
                    J::Null
                };
                let fields: Vec<J> = v
                    .fields
                    .iter()
                    .map(|f| {
                        let fty = tcx.type_of(f.did).instantiate_identity().skip_norm_wip();
                        // evaluate named array lengths (`[u64; SQUARES]`) when the type is not generic
                        let fty = if tcx.generics_of(did).count() == 0 {
                            tcx.try_normalize_erasing_regions(TypingEnv::post_analysis(tcx, did), rustc_middle::ty::Unnormalized::new_wip(fty)).unwrap_or(fty)
                        } else {
                            fty
                        };
                        J::obj(vec![
                            ("name", J::Str(f.name.to_string())),
                            ("ty", J::Str(ty_str(fty))),
                            ("vis", J::Str(format!("{:?}", f.vis))),
                        ])
                    })
                    .collect();
                variants.push(J::obj(vec![
                    ("name", J::Str(v.name.to_string())),
                    ("discr", discr),
                    ("fields", J::Arr(fields)),
                ]));
            }
            let t = tcx.type_of(did).instantiate_identity().skip_norm_wip();
            let generic = tcx.generics_of(did).count() > 0;
            // memory layout of plain structs (size, field offsets): lets the rules decode `const TABLE: [S; N]` from its bytes
            let mut layout_j = J::Null;
            if !generic && adt.is_struct() {
                if let Ok(l) = tcx.layout_of(TypingEnv::fully_monomorphized().as_query_input(t)) {
                    let n = adt.non_enum_variant().fields.len();
                    let offs: Vec<J> = (0..n).map(|i| J::Int(l.fields.offset(i).bytes() as i128)).collect();
                    layout_j = J::obj(vec![("size", J::Int(l.size.bytes() as i128)), ("offsets", J::Arr(offs))]);
                }
            }
            let cell = if generic { J::Null } else { J::Bool(has_unsafe_cell_deep(tcx, t, &mut Vec::new(), 0)) };
            adts.push(J::obj(vec![
                ("path", J::Str(path(tcx, did))),
                ("kind", J::Str(format!("{:?}", kind))),
                ("variants", J::Arr(variants)),
                ("unsafe_cell_deep", cell),
                ("layout", layout_j),
            ]));
        }
    }

    let sess = tcx.sess;
    J::obj(vec![
        ("crate", J::Str(name.to_string())),
        ("cfg", J::obj(vec![
            ("debug_assertions", J::Bool(sess.opts.debug_assertions)),
            ("overflow_checks", J::Bool(sess.overflow_checks())),
            ("test", J::Bool(sess.is_test_crate())),
            ("opt", J::Str(format!("{:?}", sess.opts.optimize))),
            ("panic", J::Str(format!("{:?}", sess.panic_strategy()))),
        ])),
        ("n_fn_bodies", J::Int(n_fn as i128)),
        ("adts", J::Arr(adts)),
        ("consts", J::Arr(consts)),
        ("statics", J::Arr(statics)),
        ("bodies", J::Arr(bodies)),
    ])
}

fn parent_has_no_type_params<'tcx>(tcx: TyCtxt<'tcx>, did: DefId) -> bool {
    // assoc consts of `impl Rook { const MAGICS .. }` have a parent (the impl) without params
    tcx.generics_of(did).count() == 0
}

fn dump_promoted<'tcx>(tcx: TyCtxt<'tcx>, ldid: LocalDefId, key: &str, bodies: &mut Vec<J>) {
    let did = ldid.to_def_id();
    let proms = tcx.promoted_mir(did);
    for (p, body) in proms.iter_enumerated() {
        let env = TypingEnv::post_analysis(tcx, did);
        let cx = Cx { tcx, body, env };
        let k = format!("{}::{{promoted#{}}}", key, p.index());
        bodies.push(cx.body_json(k, "promoted", Some(key.to_string()), did));
    }
}
