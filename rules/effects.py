"""Who-may-write summaries (DESIGN 2.2 cap B, App. A 'write set').

W(f) = set of (param, path, how): the function may write the field path `path` (tuple of field names,
'[]' for an element) of the object its parameter number `param` refers to (through `&mut`), `how` being
'assign' or 'call:<std mutator>'.  Closed over the crate call graph by fix-point; closures are
attributed to the body that creates them with captured places substituted.
"""
from . import mir
from .mir import op_place, is_local, strip_generics, callee_name

# std methods that return a reference into their receiver (the result aliases arg 0)
PROJECTING = ("::last_mut", "::first_mut", "::index_mut", "::get_mut", "::iter_mut", "::as_mut", "::deref_mut", "::as_mut_slice",
              "::unwrap", "::expect", "::last", "::first", "::index", "::get", "::iter", "::as_ref", "::deref", "::as_slice", "::borrow_mut",
              "::into_iter", "::next", "::unwrap_or_default", "::get_or_insert_with", "::entry", "::or_insert", "::or_insert_with", "::or_default")
# std methods that never write through a `&mut` first argument they may receive (iterators advancing etc. are not state of our objects)
PURE_STD = ("::fmt", "::eq", "::ne", "::clone", "::hash", "::cmp", "::partial_cmp", "::len", "::is_empty", "::contains", "::get", "::last", "::first",
            "::iter", "::is_some", "::is_none", "::is_ok", "::is_err", "::copied", "::cloned", "::to_vec", "::to_string", "::as_str", "::load", "::to_owned")


class Origin:
    __slots__ = ("param", "path")

    def __init__(self, param, path):
        self.param = param
        self.path = tuple(path)

    def extend(self, more):
        return Origin(self.param, self.path + tuple(more))

    def __repr__(self):
        return "O(%s,%s)" % (self.param, ".".join(self.path))


class Effects:
    def __init__(self, ix):
        self.ix = ix
        self._origins = {}
        self.local_writes = {}
        self.summ = {}
        self._compute()

    # -- origins ------------------------------------------------------------------------------------
    def origin(self, body, local, depth=0):
        """Which parameter object (and sub-path) a reference-typed local points into."""
        key = (body.key, local)
        if key in self._origins:
            return self._origins[key]
        self._origins[key] = None
        res = None
        if 1 <= local <= body.arg_count:
            res = Origin(local, ())
        elif depth < 40:
            sd = body.single_def(local)
            if sd is not None:
                rv = sd[2]
                k = rv.get("k")
                if k in ("ref", "rawptr"):
                    res = self.place_origin(body, rv["p"], depth + 1)
                elif k == "use":
                    p = op_place(rv["a"])
                    if p is not None:
                        res = self.place_origin(body, p, depth + 1, value=True)
                elif k == "cast":
                    p = op_place(rv["a"])
                    if p is not None and is_local(p):
                        res = self.origin(body, p["l"], depth + 1)
                elif k == "call":
                    t = rv["t"]
                    c = strip_generics(callee_name(t))
                    if t.get("args") and (c.endswith(PROJECTING) or self._crate_returns_ref(t)):
                        p = op_place(t["args"][0])
                        if p is not None:
                            base = self.place_origin(body, p, depth + 1, value=True)
                            if base is not None:
                                elem = c.endswith(("::last_mut", "::first_mut", "::index_mut", "::get_mut", "::iter_mut", "::last", "::first", "::index", "::get", "::iter", "::next", "::into_iter"))
                                res = base.extend(("[]",)) if elem else base
        self._origins[key] = res
        return res

    def _crate_returns_ref(self, t):
        for k in self.ix.call_targets(t):
            b = self.ix.bodies[k]
            if b.locals and b.locals[0]["ty"].startswith("&"):
                return True
        return False

    def place_origin(self, body, p, depth=0, value=False):
        """Origin of the memory a place denotes (value=True: the place holds a reference and we want its target)."""
        base = self.origin(body, p["l"], depth)
        if base is None:
            # a by-value local aggregate (e.g. `mut self` builder): treat params only
            return None
        path = []
        for e in p["p"]:
            if isinstance(e, dict):
                if "n" in e:
                    path.append(e["n"])
                elif "i" in e or "ci" in e or "sub" in e:
                    path.append("[]")
        return base.extend(path)

    # -- per-body local effects ---------------------------------------------------------------------
    def _compute(self):
        ix = self.ix
        bodies = [b for b in ix.bodies.values() if b.kind in ("fn", "closure")]
        calls = {}
        for b in bodies:
            w = set()
            cl = []
            for bi, i, s in b.stmts():
                lhs = s["lhs"]
                if lhs["p"]:
                    o = self.place_origin(b, lhs)
                    if o is not None and self._is_write_through(b, lhs):
                        w.add((o.param, o.path, "assign"))
                rv = s["rv"]
                if rv.get("k") == "agg" and rv.get("agg") == "closure" and rv["closure"] in ix.bodies:
                    cl.append(("closure", rv["closure"], rv["ops"], bi))
            for bi, t in b.calls():
                cl.append(("call", t, None, bi))
            self.local_writes[b.key] = w
            calls[b.key] = cl
        summ = {k: set(v) for k, v in self.local_writes.items()}
        changed = True
        rounds = 0
        while changed and rounds < 50:
            changed = False
            rounds += 1
            for b in bodies:
                cur = summ[b.key]
                add = set()
                for kind, x, ops, bi in calls[b.key]:
                    if kind == "closure":
                        cb = ix.bodies[x]
                        for (param, path, how) in summ.get(x, ()):
                            if param != 1 or not path:
                                continue
                            # env field index -> captured operand
                            try:
                                k = int(path[0])
                            except ValueError:
                                continue
                            if k >= len(ops):
                                continue
                            p = op_place(ops[k])
                            if p is None:
                                continue
                            o = self.place_origin(b, p, value=True)
                            if o is not None:
                                add.add((o.param, o.path + tuple(path[1:]), how))
                        continue
                    t = x
                    targets = ix.call_targets(t)
                    c = strip_generics(callee_name(t))
                    for ai, a in enumerate(t.get("args", [])):
                        p = op_place(a)
                        if p is None:
                            continue
                        o = self.place_origin(b, p, value=True)
                        if o is None:
                            continue
                        aty = p.get("ty", "")
                        if targets:
                            for tk in targets:
                                for (param, path, how) in summ.get(tk, ()):
                                    if param == ai + 1:
                                        add.add((o.param, o.path + tuple(path), how))
                        else:
                            if not aty.startswith("&mut") and "&mut" not in aty:
                                continue
                            if c.endswith(PURE_STD) or c.endswith(PROJECTING):
                                continue
                            add.add((o.param, o.path, "call:" + c.split("::")[-1]))
                if not add <= cur:
                    cur |= add
                    changed = True
        self.summ = summ

    def _is_write_through(self, body, lhs):
        # writing `(*_x).f` or `_arg.f` where the root denotes caller-visible memory: root is a param
        # (by `&mut` or by value -- by-value params are the callee's own copy: not caller-visible)
        l = lhs["l"]
        if 1 <= l <= body.arg_count:
            ty = body.locals[l]["ty"]
            return ty.startswith("&mut") or (body.kind == "closure" and l == 1)
        return True

    # -- queries ------------------------------------------------------------------------------------
    def writes(self, key, param=1):
        return {(path, how) for (p, path, how) in self.summ.get(key, ()) if p == param}

    def top_fields(self, key, param=1):
        return {path[0] for (path, how) in self.writes(key, param) if path}

    def writers_of(self, type_receiver_fns, field):
        pass


def fmt_path(path):
    return ".".join(path) if path else "<whole>"
