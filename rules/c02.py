"""C02  Unmaking a move restores the position exactly  (DESIGN 3, C02)."""
from . import engine, mir, effects
from . import common as C
from .mir import expr_str, walk, callee_is, const_int, op_place, strip_generics, fields_of

PROP = "C02"
BOARD = "board::Board"
MAKE = "board::Board::make_move"
UNMAKE = "board::Board::unmake_move"
MOVE_PIECE = "board::Board::move_piece"
UNDO_PIECE = "board::Board::undo_move_piece"
LEGAL = "board::Board::is_legal_move"
GET_LEGAL = "board::Board::get_legal_moves"
SWITCH_TURN = "board::Board::switch_turn"
BOARD_FIELDS = ["current_turn", "fullmove_counter", "en_passant_file", "history", "position_history", "bitboards", "zkey"]

_EFF = {}


def eff(ix):
    if ix.uid not in _EFF:
        _EFF.clear()
        _EFF[ix.uid] = effects.Effects(ix)
    return _EFF[ix.uid]


def board_fields(ix):
    adt = ix.adt(BOARD)
    return [f["name"] for f in adt["variants"][0]["fields"]], {f["name"]: f["ty"] for f in adt["variants"][0]["fields"]}


def rule_writeset(ctx):
    """Every Board field make_move may write is also written by unmake_move (closed over callees)."""
    ix = ctx.ix
    ctx.body(MAKE)
    ctx.body(UNMAKE)
    e = eff(ix)
    wm = e.top_fields(MAKE)
    wu = e.top_fields(UNMAKE)
    names, _ = board_fields(ix)
    for f in sorted(wm):
        ctx.check(f in wu, "field:%s" % f, "Board.%s is written by make_move and by unmake_move" % f, ix.bodies[UNMAKE].where(0),
                  bad_what="Board.%s is written by make_move (directly or through a callee) but never by unmake_move: taking a move back leaves it changed" % f)
    ctx.floor("Board fields written by make_move", len(wm), 7)
    unknown = sorted(set(names) - set(BOARD_FIELDS))
    ctx.check(not unknown, "board-fields-known", "Board has exactly the %d fields the rules know (%s)" % (len(names), ", ".join(names)),
              bad_what="Board has new field(s) %s that no rule of C02 covers: cannot decide whether unmake restores them" % unknown)
    missing = sorted(set(names) - wm)
    ctx.check(not missing, "all-fields-updated", "make_move writes every Board field (all are part of the derived PartialEq)",
              bad_what="Board field(s) %s are not written by make_move; the field-by-field inverse argument does not cover them" % missing)


def calls_on_field(ix, body, field, *suffixes):
    """Calls whose first argument is (a reference to) self.<field>, with callee ending in one of suffixes."""
    sym = mir.Sym(body, ix)
    out = []
    for bi, t in body.calls():
        if not t.get("args"):
            continue
        if suffixes and not callee_is(t, *["*" + s for s in suffixes]):
            continue
        e = mir.strip_copies(sym.operand(t["args"][0]))
        if e[0] == "field" and e[-1] == field and mir.strip_refs(e[1]) == ("arg", body.local_name(1)):
            out.append((bi, t))
    return out


def every_path_once(b, blocks):
    blocks = set(blocks)
    if len(blocks) != 1:
        return False
    x = next(iter(blocks))
    return b.dominates(x, x) and mir.EXIT not in b.reachable_from(0, removed=blocks, include_start=True) and not b.in_loop(x)


def rule_stack(ctx):
    """history is a stack: one push on every path of make_move, one pop on every path of unmake_move;
    castling rights and the half-move clock live only in its top record."""
    ix = ctx.ix
    mk, um = ctx.body(MAKE), ctx.body(UNMAKE)
    pushes = calls_on_field(ix, mk, "history", "Vec::push")
    pops = calls_on_field(ix, um, "history", "Vec::pop")
    ctx.check(every_path_once(mk, [b for b, _ in pushes]), "make_move:one-push-on-every-path", "make_move pushes exactly one record on every path", mk.where(pushes[0][0] if pushes else 0),
              bad_what="make_move does not push exactly one history record on every path (%d push site(s))" % len(pushes))
    ctx.check(every_path_once(um, [b for b, _ in pops]), "unmake_move:one-pop-on-every-path", "unmake_move pops exactly one record on every path", um.where(pops[0][0] if pops else 0),
              bad_what="unmake_move does not pop exactly one history record on every path (%d pop site(s))" % len(pops))
    e = eff(ix)
    for key in (MAKE, UNMAKE):
        hows = {how for (path, how) in e.writes(key) if path and path[0] == "history"}
        want = {"call:push"} if key == MAKE else {"call:pop"}
        ctx.check(hows == want, "%s:history-ops" % key, "%s touches history only with %s" % (C.short(key), sorted(want)), ix.bodies[key].where(0),
                  bad_what="%s modifies history with %s (expected %s only)" % (C.short(key), sorted(hows), sorted(want)))
    # the pushed record is the move that was played, including the fields make_move filled in
    if pushes:
        sym = ctx.sym(mk)
        v = sym.operand(pushes[0][1]["args"][1])
        # ... possibly handed through a helper that takes the record by value, fills in its castling rights and returns it
        vv = mir.strip_copies(v)
        if vv[0] == "call" and vv[1] in ix.bodies:
            pos = C.returns_param(ix, vv[1], ("castling_rights",))
            if pos is not None and pos - 1 < len(vv[2]) and mir.strip_copies(vv[2][pos - 1]) == ("arg", mk.local_name(2)):
                ctx.functions.add(vv[1])
                v = ("arg", mk.local_name(2))
        ctx.check(v == ("arg", mk.local_name(2)), "make_move:pushes-the-played-move", "the pushed record is the (completed) move argument", mk.where(pushes[0][0]),
                  bad_what="make_move pushes `%s`, not the move it played" % expr_str(v))
    # rights / clock readers go through history.last()
    for key, fld in (("board::Board::castle_status", "castling_rights"), ("board::Board::get_halfmove_clock", "halfmove_clock")):
        b = ctx.body(key)
        lasts = calls_on_field(ix, b, "history", "::last", "::deref")
        ctx.check(len(lasts) >= 1, "%s:reads-top-of-history" % key, "%s reads %s from the top history record" % (C.short(key), fld), b.where(0),
                  bad_what="%s does not read history.last()" % key)


def rule_multiset(ctx):
    """Containers written by make and un-written by unmake must be multiplicity-faithful."""
    ix = ctx.ix
    e = eff(ix)
    names, tys = board_fields(ix)
    n = 0
    for f in names:
        ty = tys[f]
        is_container = any(x in ty for x in ("Vec<", "HashSet<", "HashMap<", "BTreeSet<", "BTreeMap<", "VecDeque<"))
        if not is_container:
            continue
        n += 1
        hm = sorted(how for (path, how) in e.writes(MAKE) if path and path[0] == f)
        hu = sorted(how for (path, how) in e.writes(UNMAKE) if path and path[0] == f)
        key = "Board.%s:%s" % (f, ty.split("<")[0].split("::")[-1])
        if "Vec<" in ty and hm == ["call:push"] and hu == ["call:pop"]:
            mkb, umb = ix.bodies[MAKE], ix.bodies[UNMAKE]
            pu = [b_ for b_, _t in calls_on_field(ix, mkb, f, "Vec::push")]
            po = [b_ for b_, _t in calls_on_field(ix, umb, f, "Vec::pop")]
            ctx.check(every_path_once(mkb, pu) and every_path_once(umb, po), key,
                      "Board.%s is a Vec pushed exactly once on every path of make_move and popped exactly once on every path of unmake_move (multiplicity-faithful)" % f, mkb.where(pu[0] if pu else 0),
                      bad_what=("Board.%s: the push in make_move (%d site(s)) and the pop in unmake_move (%d site(s)) are not both unconditional and unique: when one side is skipped "
                                "(e.g. a push made conditional on the key not being present yet) a make/unmake pair removes an element it did not add") % (f, len(pu), len(po)))
        elif ("HashSet<" in ty or "BTreeSet<" in ty) and hm == ["call:insert"] and hu == ["call:remove"]:
            # acceptable only if the remove is conditional on the novelty result of the matching insert
            mk = ix.bodies[MAKE]
            ins = calls_on_field(ix, mk, f, "::insert")
            used = False
            for bi, t in ins:
                d = t["dest"]
                if mir.is_local(d) and result_is_used(mk, d["l"]):
                    used = True
            ctx.check(used, key,
                      "the set's insert result is recorded so that unmake can tell whether the key was new", mk.where(ins[0][0] if ins else 0),
                      bad_what=("Board.%s is a set: make_move inserts the current key and ignores whether it was already present, unmake_move removes it unconditionally. "
                                "When the position already occurred earlier in the game the insert is a no-op and the un-make deletes the earlier occurrence: "
                                "make+unmake (which is what every legality probe does) changes the record of earlier positions") % f)
        else:
            ctx.bad(key, "Board.%s (%s) is modified with %s in make_move and %s in unmake_move; this pairing is not in the accepted table (cannot decide)" % (f, ty, hm, hu), ix.bodies[MAKE].where(0))
    ctx.floor("container fields of Board", n, 2)


def result_is_used(body, local):
    for bi, i, s in body.stmts():
        for o in mir.rv_operands(s["rv"]):
            p = op_place(o)
            if p is not None and p["l"] == local:
                return True
    for blk in body.blocks:
        t = blk.term
        if t["k"] == "switch":
            p = op_place(t["discr"])
            if p is not None and p["l"] == local:
                return True
        if t["k"] == "call":
            for a in t["args"]:
                p = op_place(a)
                if p is not None and p["l"] == local:
                    return True
    return False


def turn_is_white_guard(ix, b, sym, bi):
    """Is block `bi` control-dependent on `self.current_turn == White`?  returns the guard block or None."""
    for d in sorted(b.dom()[bi], reverse=True):
        blk = b.blocks[d]
        if d == bi or blk.term["k"] != "switch":
            continue
        sc = C.switch_cond(b, sym, d)
        if not sc:
            continue
        e, neg = sc
        f, tr = C.switch_edges(blk.term)
        on_true = any(bi in b.reachable_from(x, removed={d}, include_start=True) for x in tr)
        on_false = any(bi in b.reachable_from(x, removed={d}, include_start=True) for x in f)
        if on_true == on_false:
            continue
        txt = expr_str(e)
        if e[0] == "call" and e[1].endswith("PartialEq>::eq") and "current_turn" in txt:
            # which colour is compared: look into the promoted constant
            colour = promoted_colour(ix, b, e)
            want_true = on_true != neg
            return d, colour, want_true
        if e[0] == "discr" and "current_turn" in txt:
            # match on the colour: value 0 = White
            vals = [a[0] for a in blk.term["arms"] if bi in b.reachable_from(a[1], removed={d}, include_start=True)]
            if vals == [0]:
                return d, "White", True
            if vals == [1]:
                return d, "Black", True
    return None


def promoted_colour(ix, b, e):
    for x in walk(e):
        if isinstance(x, tuple) and x[0] == "promoted":
            pb = ix.bodies.get(x[1])
            if pb:
                for bi, i, s in pb.stmts():
                    rv = s["rv"]
                    if rv.get("k") == "agg" and rv.get("adt", "").endswith("piece::Color"):
                        return rv["variant"]
        if isinstance(x, tuple) and x[0] == "agg" and isinstance(x[1], str) and x[1].endswith("piece::Color"):
            return x[2]
    return None


def rule_counter(ctx):
    """fullmove_counter: +1 in make and -1 in unmake under the same predicate evaluated in the same state."""
    ix = ctx.ix
    res = {}
    for key, op in ((MAKE, "Add"), (UNMAKE, "Sub")):
        b = ctx.body(key)
        sym = ctx.sym(b)
        sites = [(bi, i, s) for bi, i, s in b.stmts() if fields_of(s["lhs"]) == ("fullmove_counter",)]
        ctx.check(len(sites) == 1, "%s:one-counter-write" % key, "%s writes fullmove_counter at one site" % C.short(key), b.where(0),
                  bad_what="%s writes fullmove_counter at %d sites" % (C.short(key), len(sites)))
        if len(sites) != 1:
            return
        bi, i, s = sites[0]
        v = sym.rvalue(s["rv"])
        delta_ok = any(isinstance(x, tuple) and x[0] == "bin" and x[1].startswith(op) and x[3] == ("const", 1, "u16") and "fullmove_counter" in expr_str(x[2]) for x in walk(v))
        ctx.check(delta_ok, "%s:counter-%s-1" % (key, op.lower()), "fullmove_counter is changed by exactly %s1" % ("+" if op == "Add" else "-"), b.where(bi),
                  bad_what="fullmove_counter is assigned `%s` (expected itself %s 1)" % (expr_str(v), "+" if op == "Add" else "-"))
        g = turn_is_white_guard(ix, b, sym, bi)
        switches = [x for x, t in b.calls() if callee_is(t, SWITCH_TURN)]
        res[key] = (g, bi, switches, b)
        # "iff": the colour test is the only thing that decides whether the counter moves, and it is evaluated on every path
        cons = C.constraints_for(ix, b, sym, bi)
        extra = [(c[0][:60], sorted(map(str, c[1]))) for c in cons if g is None or c[2] != g[0]]
        always = g is not None and mir.EXIT not in b.reachable_from(0, removed={g[0]}, include_start=True)
        ctx.check(not extra and always, "%s:counter-iff-colour" % key, "the counter update depends on the colour test only, which every path evaluates", b.where(bi),
                  bad_what="the fullmove_counter update in %s additionally depends on %s: make and unmake can disagree on when the counter moves" % (C.short(key), extra))
    if len(res) == 2:
        gm, bm, sm, mb = res[MAKE]
        gu, bu, su, ub = res[UNMAKE]
        ctx.check(gm is not None and gu is not None and gm[1:] == gu[1:], "same-predicate",
                  "both are guarded by current_turn == %s" % (gm[1] if gm else "?"), mb.where(bm),
                  bad_what="the increment in make_move is guarded by %s but the decrement in unmake_move by %s" % (gm[1:] if gm else None, gu[1:] if gu else None))
        ctx.check(len(sm) == 1 and gm is not None and mb.dominates(sm[0], gm[0]), "make_move:test-after-switch", "make_move tests the colour after switch_turn", mb.where(bm),
                  bad_what="make_move does not test the colour strictly after its single switch_turn")
        ctx.check(len(su) == 1 and ub.dominates(bu, su[0]) is False and gu is not None and ub.dominates(gu[0], su[0]), "unmake_move:test-before-switch", "unmake_move tests the colour before switching back (the same state make_move tested in)", ub.where(bu),
                  bad_what="unmake_move does not test the colour before its single switch_turn: the predicate is evaluated in a different state than in make_move")


def rule_ep_restore(ctx):
    """Both functions derive en_passant_file from the record that is on top of history when they return."""
    ix = ctx.ix
    for key in (MAKE, UNMAKE):
        b = ctx.body(key)
        sym = ctx.sym(b)
        sites = [(bi, i, s) for bi, i, s in b.stmts() if fields_of(s["lhs"]) == ("en_passant_file",)]
        somes = []
        nones = []
        for bi0, i, s in sites:
          # `field = if c { Some(x) } else { None }` assigns a temporary set in the arms: the arms are the cases
          for bi, v in C.value_cases(b, sym, bi0, s["rv"]):
            if v[0] == "agg" and v[2] == "Some":
                somes.append((bi, v[3][0]))
            elif v[0] == "agg" and v[2] == "None":
                nones.append(bi)
            else:
                ctx.bad("%s:ep-assigned-from:%s" % (key, expr_str(v)[:40]), "en_passant_file is assigned `%s`: not Some(<record>.dest.file) / None (cannot decide)" % expr_str(v), b.where(bi))
        ctx.check(len(somes) == 1 and len(nones) == 1, "%s:ep-some-and-none" % key, "%s assigns en_passant_file once as Some(..) and once as None" % C.short(key), b.where(0),
                  bad_what="%s assigns en_passant_file %d time(s) as Some and %d time(s) as None: the field is not restored on every path" % (C.short(key), len(somes), len(nones)))
        if len(somes) != 1 or len(nones) != 1:
            continue
        sb, v = somes[0]
        # value: <record>.dest.file
        ok_val = v[0] == "field" and v[-2:] == ("dest", "file") or (v[0] == "field" and v[-1] == "file" and isinstance(v[1], tuple) and v[1][0] == "field" and v[1][-1] == "dest")
        rec = record_of(v)
        want = "arg:" + b.local_name(2) if key == MAKE else "history.last"
        got = record_kind(rec, b)
        ctx.check(ok_val and got == want, "%s:ep-from-top-record" % key, "Some(file) is the dest.file of the record on top of history at return (%s)" % want, b.where(sb),
                  bad_what="en_passant_file is restored from `%s` (expected the dest.file of %s)" % (expr_str(v), want))
        # guard: is_double_pawn_push of the same record; None on the other edge
        g = None
        for d in sorted(b.dom()[sb], reverse=True):
            blk = b.blocks[d]
            if d == sb or blk.term["k"] != "switch":
                continue
            sc = C.switch_cond(b, sym, d)
            if not sc:
                continue
            e, neg = sc
            ms = C.merged_bool_source(b, sym, blk.term["discr"])
            if ms is not None and not ms[2]:
                e = ms[1]       # false in the other arms, this where the record exists: the test is this value
            if "is_double_pawn_push" in expr_str(e) or closure_reads_flag(ix, e):
                g = (d, e, neg)
                break
        ctx.check(g is not None, "%s:ep-guarded-by-double-push" % key, "the Some branch is taken iff the record is a double pawn push", b.where(sb),
                  bad_what="the Some(file) assignment is not guarded by is_double_pawn_push of the record")
        if g:
            cons = C.constraints_for(ix, b, sym, sb)
            extra = [(c[0], sorted(map(str, c[1]))) for c in cons if c[2] != g[0]]
            if key == UNMAKE:
                # `match history.last() { Some(r) if r.flag => .. }`: that the record exists is part of the same test
                # (an empty history restores None, exactly like is_some_and on the Option)
                extra = [x for x in extra if not (x[0].startswith("discr(") and "::last(" in x[0] and "history" in x[0] and x[1] == ["Some"])]
            extra = [(x[0][:60], x[1]) for x in extra]
            # every path assigns the field, and neither assignment can be followed by the other
            always = (mir.EXIT not in b.reachable_from(0, removed={sb, nones[0]}, include_start=True)
                      and nones[0] not in b.reachable_from(sb) and sb not in b.reachable_from(nones[0]))
            ctx.check(not extra and always, "%s:ep-iff-double-push" % key, "nothing but the double-push flag decides between Some(file) and None, on every path", b.where(sb),
                      bad_what="the en-passant restore in %s additionally depends on %s" % (C.short(key), extra))
        if g:
            d, e, neg = g
            f, tr = C.switch_edges(b.blocks[d].term)
            some_on_true = any(sb in b.reachable_from(x, removed={d}, include_start=True) for x in tr) != neg
            none_other = any(nones[0] in b.reachable_from(x, removed={d}, include_start=True) for x in (f if some_on_true != neg else tr))
            ctx.check(some_on_true and none_other, "%s:ep-polarity" % key, "flag set -> Some(file), flag clear -> None", b.where(d),
                      bad_what="the Some/None branches are swapped or not complementary")
            grec = record_kind_of_guard(e, b, ix)
            ctx.check(grec == want, "%s:ep-guard-on-same-record" % key, "the flag is read from the same record as the file", b.where(d),
                      bad_what="the double-push flag is read from %s but the file from %s" % (grec, got))


def record_of(v):
    e = v
    while isinstance(e, tuple) and e[0] == "field":
        e = e[1]
    return e


def record_kind(rec, b):
    rec = mir.strip_copies(rec)
    if rec == ("arg", b.local_name(2)):
        return "arg:" + b.local_name(2)
    txt = expr_str(rec)
    if "last(" in txt and "history" in txt:
        return "history.last"
    if rec[0] in ("arg", "var"):
        return rec[0] + ":" + rec[1]
    return txt[:60]


def closure_reads_flag(ix, e):
    for x in walk(e):
        if isinstance(x, tuple) and x[0] == "closure" and x[1] in ix.bodies:
            cb = ix.bodies[x[1]]
            for bi, i, s in cb.stmts():
                for o in mir.rv_operands(s["rv"]):
                    p = op_place(o)
                    if p is not None and "is_double_pawn_push" in fields_of(p):
                        return True
    return False


def record_kind_of_guard(e, b, ix):
    txt = expr_str(e)
    if closure_reads_flag(ix, e) and "last(" in txt and "history" in txt:
        return "history.last"
    for x in walk(e):
        if isinstance(x, tuple) and x[0] == "field" and x[-1] == "is_double_pawn_push":
            return record_kind(record_of(x), b)
    return txt[:60]


def piece_ops(ix, key):
    """For move_piece / undo_move_piece: {path-constraints -> [(op, square expr, piece expr)]} over all normal paths."""
    b = ix.body(key)
    sym = mir.Sym(b, ix)
    out = {}
    for path in mir.enumerate_paths(b):
        cons = []
        seq = []
        for idx, bi in enumerate(path):
            t = b.blocks[bi].term
            if t["k"] == "switch" and idx + 1 < len(path):
                nxt = path[idx + 1]
                e = sym.operand(t["discr"])
                vals = [a[0] for a in t["arms"] if a[1] == nxt]
                val = str(vals[0]) if vals else "else"
                cons.append((expr_str(e), val))
            if t["k"] == "call" and callee_is(t, "board::Board::add_piece", "board::Board::remove_piece"):
                op = "add" if callee_is(t, "board::Board::add_piece") else "remove"
                seq.append((op, expr_str(sym.operand(t["args"][1])), expr_str(sym.operand(t["args"][2]))))
        out[tuple(cons)] = seq
    return out, b


PIECE_CASES = {"quiet": ("None", 0), "capture": ("Some", 0), "en-passant": ("Some", 1), "en-passant-without-victim": ("None", 1)}


def piece_cases(ix, key):
    """What move_piece / undo_move_piece does in each of the four (captured?, en passant?) cases, read off by
    per-case constant propagation (cases.py): the sequence of add_piece / remove_piece calls with their (square,
    piece) arguments, or 'panic' when every path of the case panics.  Independent of how the case split is spelt
    (`match (captured, ep)`, nested `if let`, ...)."""
    from . import cases
    b = ix.body(key)
    payload = ("field", ("as", ("arg", "captured_piece"), "Some"), "0")
    out = {}
    for name, (cap, ep) in PIECE_CASES.items():
        capv = cases.option("Some", [payload]) if cap == "Some" else cases.option("None")
        c = cases.run(ix, b, {"captured_piece": capv, "en_passant": ("const", ep, "bool")})
        live = [p for p in c.paths if p.end == "return"]
        if c.overflow or any(p.end not in ("return", "panic", "unreachable") for p in c.paths):
            out[name] = "undecided"
        elif not live:
            out[name] = "panic"
        elif len(live) > 1:
            out[name] = "depends-on:%s" % sorted({cd[0] for p in live for cd in p.conds})
        else:
            seq = []
            for e in live[0].events:
                if e[0] == "call" and e[2] in ("board::Board::add_piece", "board::Board::remove_piece"):
                    seq.append(("add" if e[2].endswith("add_piece") else "remove", expr_str(e[3][1]), expr_str(e[3][2])))
            out[name] = seq
    return out, b


def rule_inverse_seq(ctx):
    """undo_move_piece performs, case by case, the reverse of move_piece with add <-> remove on the same
    (square, piece) arguments; unmake_move feeds it the popped record exactly as make_move fed move_piece."""
    ix = ctx.ix
    mv, mb = piece_cases(ix, MOVE_PIECE)
    un, ub = piece_cases(ix, UNDO_PIECE)
    ctx.functions.update([MOVE_PIECE, UNDO_PIECE])
    n = 0
    for name in sorted(PIECE_CASES):
        m, u = mv[name], un[name]
        if isinstance(m, list):
            want = [("remove" if op == "add" else "add", sq, pc) for (op, sq, pc) in reversed(m)]
        else:
            want = m
        n += 1
        ctx.check(u == want and m != "undecided" and not str(m).startswith("depends-on"), "case:%s" % name, "undo = reverse(move) with add<->remove: %s" % (u,), ub.where(0),
                  bad_what="case %s: move_piece does %s but undo_move_piece does %s (expected %s)" % (name, m, u, want))
    ctx.floor("move/undo cases", n, 3)
    # argument passing
    mk, um = ctx.body(MAKE), ctx.body(UNMAKE)
    for (b, callee, recname) in ((mk, MOVE_PIECE, "make_move"), (um, UNDO_PIECE, "unmake_move")):
        sym = ctx.sym(b)
        cs = [(bi, t) for bi, t in b.calls() if callee_is(t, callee)]
        # the first call passes the record's fields; an optional second (castling rook) passes constants
        first = None
        for bi, t in cs:
            flds = []
            for a in t["args"][1:]:
                e = sym.operand(a)
                flds.append(e[-1] if e[0] == "field" else expr_str(e))
            if flds[:3] == ["start", "dest", "piece"]:
                first = (bi, flds)
        ctx.check(first is not None and first[1] == ["start", "dest", "piece", "promoted_to", "captured_piece", "en_passant"], "%s:record-fields-positional" % recname,
                  "%s passes (start, dest, piece, promoted_to, captured_piece, en_passant) of the record" % recname, b.where(first[0] if first else 0),
                  bad_what="%s passes %s" % (recname, first[1] if first else "no record-field call found"))
    # castling rook colour: Rook(current_turn) before the switch in make; Rook(current_turn.opposite()) before the switch back in unmake
    cc = ctx.body("board::Board::make_move_castling_checks")
    for (b, callee, want_opp) in ((cc, MOVE_PIECE, False), (um, UNDO_PIECE, True)):
        sym = ctx.sym(b)
        rook_calls = []
        for bi, t in b.calls():
            if callee_is(t, callee):
                e = sym.operand(t["args"][3])
                if e[0] == "agg" and e[2] == "Rook":
                    rook_calls.append((bi, e))
        ok = len(rook_calls) == 1
        if ok:
            bi, e = rook_calls[0]
            col = e[3][0]
            opp = col[0] == "call" and col[1].endswith("Color::opposite")
            base = col[2][0] if opp else col
            ok = opp == want_opp and "current_turn" in expr_str(base)
            if b.key == UNMAKE:
                sw = [x for x, t in b.calls() if callee_is(t, SWITCH_TURN)]
                ok = ok and len(sw) == 1 and bi not in b.reachable_from(sw[0])
        ctx.check(ok, "%s:castling-rook-colour" % b.key, "the castling rook is Rook(%s) while the mover's turn is still/already the other colour" % ("current_turn.opposite()" if want_opp else "current_turn"),
                  b.where(rook_calls[0][0] if rook_calls else 0),
                  bad_what="the castling rook moved by %s has the wrong colour expression %s" % (C.short(b.key), [expr_str(e) for _, e in rook_calls]))


def rule_probe_pair(ctx):
    """is_legal_move: on every normal path exactly one make_move followed by exactly one unmake_move."""
    ix = ctx.ix
    b = ctx.body(LEGAL)
    paths = mir.enumerate_paths(b)
    bad = []
    for path in paths:
        seq = []
        for bi in path:
            t = b.blocks[bi].term
            if t["k"] == "call" and callee_is(t, MAKE):
                seq.append("make")
            if t["k"] == "call" and callee_is(t, UNMAKE):
                seq.append("unmake")
        if seq != ["make", "unmake"]:
            bad.append((seq, [b.blocks[x].term["line"] for x in path][-3:]))
    ctx.check(not bad and len(paths) >= 2, "%s:balanced-on-every-path" % LEGAL, "all %d normal paths do make_move then unmake_move exactly once" % len(paths), b.where(0),
              bad_what="a path through is_legal_move is not make-then-unmake: %s" % bad[:3])
    ctx.check(not any(b.in_loop(blk.idx) for blk in b.blocks if blk.idx in b.live_blocks()), "%s:no-loops" % LEGAL, "is_legal_move has no loop (path enumeration is complete)", b.where(0),
              bad_what="is_legal_move contains a loop; path enumeration is not complete (cannot decide)")


def rule_no_hidden_state(ctx):
    """Queries cannot change a Board: no interior mutability anywhere in its type tree, and the write set
    of get_legal_moves is that of the legality probe."""
    ix = ctx.ix
    adt = ix.adt(BOARD)
    ctx.check(adt["unsafe_cell_deep"] is False, "Board:no-interior-mutability", "no UnsafeCell (Cell/RefCell/Atomic/Mutex/OnceCell) is reachable in Board's type tree, so `&Board` methods cannot change it",
              bad_what="Board's type tree contains interior mutability: `&self` queries (get_all_moves, is_in_check, ...) may change the position")
    # positive example for this zero-count rule: the walker does find interior mutability where it exists
    pos = ix.adt("search::Search")
    ctx.check(pos["unsafe_cell_deep"] is True, "positive-example:Search-has-a-shared-cell", "the type walker reports interior mutability for Search (Arc<AtomicBool>), so a silent pass on Board is meaningful",
              bad_what="the interior-mutability walker no longer recognises Search.running: the Board check would pass vacuously")
    e = eff(ix)
    for key in (GET_LEGAL, "board::Board::find_move"):
        ctx.body(key)
        extra = e.writes(key) - e.writes(LEGAL)
        ctx.check(not extra, "%s:writes-only-via-probe" % key, "%s writes nothing beyond what is_legal_move writes (and restores)" % C.short(key), ix.bodies[key].where(0),
                  bad_what="%s writes %s in addition to the legality probe" % (C.short(key), sorted(extra)[:4]))
    for key in ("board::Board::get_all_moves", "board::Board::is_in_check", "board::Board::get_attacked_squares", "board::Board::castling_ability", "board::Board::get_piece", "board::Board::position_reached"):
        b = ctx.body(key)
        ctx.check(b.locals[1]["ty"].startswith("&") and not b.locals[1]["ty"].startswith("&mut") and not e.writes(key), "%s:read-only" % key, "%s takes &self and has an empty write set" % C.short(key), b.where(0),
                  bad_what="%s can write the board (%s)" % (key, sorted(e.writes(key))[:3]))


RULES = [("writeset", rule_writeset), ("stack", rule_stack), ("multiset", rule_multiset), ("counter", rule_counter), ("ep-restore", rule_ep_restore),
         ("inverse-seq", rule_inverse_seq), ("probe-pair", rule_probe_pair), ("no-hidden-state", rule_no_hidden_state)]
# the key is part of the position that unmake must restore: every make-side toggle has its unmake-side twin (C04 pairing
# rules); and the record unmake reads the en-passant file back from must agree with the board from the first position on,
# which for a position loaded from FEN is the synthetic record (C07.history)
RULES += engine.premise_rules("c04", ["clone", "piece-pair", "turn-pair", "ep-pair", "castle-pair", "castle-revert"])
RULES += engine.premise_rules("c07", ["fields", "history", "build"])
# add_piece / remove_piece set and clear Square::get_mask() in the board of Kind::get_color()
RULES += engine.premise_rules("c01", ["leaf-accessors"])


def run(tier):
    return engine.main(
        PROP, "unmake restores the position exactly", RULES, "other",
        explanation=("Board derives PartialEq over its 7 fields; the rules show unmake_move is the inverse of make_move field by field, for every position and move at once: "
                     "write sets (closed over callees) coincide; history is a strict stack (one push / one pop on every path) holding rights and clock; container fields are "
                     "multiplicity-faithful (a set whose insert result is ignored and whose remove is unconditional is the violating shape); the full-move counter moves by +-1 under "
                     "the same predicate in the same state; the en-passant file is re-derived from the record on top of history; undo_move_piece is the case-by-case reverse of move_piece "
                     "with the same arguments; the legality probe is make-then-unmake on every path; no interior mutability lets a query change the board. "
                     "Not decided: that `|= mask` / `&= !mask` are inverse for ill-formed moves (needs the square to hold that piece: guaranteed for generated moves, value-level)."),
        assumptions=["moves fed to make_move are generated moves (captured piece matches the board): C01.capture-src", "Vec::push/pop are exact inverses"],
        tier=tier)
