"""C16  Fixed-depth search from a fresh cache is deterministic  (DESIGN 3, C16)."""
from . import engine, mir
from . import common as C
from . import c10, c15
from .c14 import mentions_field
from .mir import expr_str, walk, callee_is, const_int, op_place, strip_generics, fields_of

PROP = "C16"
BENCH = "bench::bench"

# callees through which run-to-run variation can enter a computation
SOURCES = ("std::time::Instant::now", "std::time::Instant::elapsed", "std::time::SystemTime::", "std::hash::RandomState::new", "std::collections::hash_map::RandomState::new",
           "rand::thread_rng", "rand::random", "::from_entropy", "::from_os_rng", "OsRng", "rand::rngs::ThreadRng", "std::thread::spawn", "std::thread::current", "std::thread::Builder",
           "std::env::", "std::process::id", "std::fs::", "std::io::stdin", "::read_line", "std::net::", "getrandom", "std::thread::available_parallelism", "std::ptr::addr_of", "::addr(", "std::alloc::",
           "std::time::Instant::duration_since", "::try_from_entropy", "rand::rng", "fastrand", "std::sync::mpsc", "::recv", "Mutex::try_lock", "RwLock::try_read", "RwLock::try_write")
ALLOWED_SOURCES = {
    (C.ITER_DEEP, "std::time::Instant::now"): "start of the search; flows only into limits_exceeded and the info line",
    (C.ITER_DEEP, "std::time::Instant::elapsed"): "info line only",
    (C.LIMITS_EXCEEDED, "std::time::Instant::elapsed"): "compared only against SearchLimits fields, all None in a fixed-depth search",
    (BENCH, "std::time::Instant::now"): "timing print of bench",
    (BENCH, "std::time::Instant::elapsed"): "timing print of bench",
}
ORDER_FREE = ("::new", "::with_hasher", "::with_capacity", "::with_capacity_and_hasher", "::insert", "::remove", "::contains", "::contains_key", "::get", "::get_mut", "::clear",
              "::clone", "::eq", "::ne", "::len", "::is_empty", "::default", "::fmt", "::reserve", "::shrink_to_fit", "::entry", "::get_key_value", "::capacity", "::hasher")
ONCE_TABLES = 10


def roots(ix):
    r = [C.SEARCH, BENCH]
    return r


def reach_set(ix):
    return ix.reachable([k for k in roots(ix) if ix.body(k)])


def is_source(c):
    return next((s for s in SOURCES if s in c), None)


def closure_captures(ix, parent, clo):
    return {}


def combinator_receiver(ix, parent, clo):
    """The receiver of the Option combinator (`is_some_and`, `map_or`, ...) that `clo` is passed to in `parent`."""
    psym = mir.Sym(parent, ix)
    for bi, t in parent.calls():
        args = [psym.operand(a) for a in t.get("args", [])]
        if any(a[0] == "closure" and a[1] == clo.key for a in args) and args and "Option" in (t.get("callee") or ""):
            return args[0]
    return None


def rule_sources(ctx):
    ix = ctx.ix
    reach = reach_set(ix)
    found = {}
    for k in sorted(reach):
        b = ix.bodies[k]
        if b.kind not in ("fn", "closure"):
            continue
        for bi, t in b.calls():
            c = strip_generics(t.get("callee") or "")
            if is_source(c):
                # a closure is part of the function it is written in (`limit.is_some_and(|l| start.elapsed() >= l)`)
                owner = b.parent if b.kind == "closure" and b.parent else k
                found.setdefault((owner, c), []).append(bi)
        # pointer -> integer casts make results address-dependent
        for bi, i, s in b.stmts():
            rv = s["rv"]
            if rv.get("k") == "cast" and ("PointerExposeProvenance" in rv.get("ck", "") or (rv.get("ck") == "Transmute" and "*" in rv.get("from", "") and rv.get("to") in ("usize", "u64")) ) and not s.get("exp"):
                found.setdefault((k, "pointer-to-integer cast"), []).append(bi)
    for (k, c), sites in sorted(found.items()):
        ctx.functions.add(k)
        ctx.check((k, c) in ALLOWED_SOURCES, "%s->%s" % (k, c), "%s calls %s (%s)" % (C.short(k), C.short(c), ALLOWED_SOURCES.get((k, c))), ix.bodies[k].where(sites[0]),
                  bad_what="%s, reachable from Search::search / bench, calls %s: a source of run-to-run variation that has not been confirmed harmless" % (k, c))
    ctx.floor("nondeterminism sources on the search / bench call graph", len(found), 4)
    ctx.check(len(reach) >= 120, "call-graph-size", "%d crate functions reachable from Search::search and bench::bench were scanned" % len(reach), bad_what="only %d functions reachable: the call graph is incomplete" % len(reach))
    # time-tainted comparisons in limits_exceeded are against limits fields only
    b0 = ctx.body(C.LIMITS_EXCEEDED)
    n = 0
    for b in [b0] + ix.closures_of(C.LIMITS_EXCEEDED):
      sym = ctx.sym(b)
      caps = closure_captures(ix, b0, b) if b is not b0 else {}
      for bi, i, s in b.stmts():
        rv = s["rv"]
        if rv.get("k") == "binop" and rv["op"] in ("Lt", "Le", "Gt", "Ge", "Eq", "Ne"):
            ea, eb = sym.operand(rv["a"]), sym.operand(rv["b"])
            ta, tb = "Instant::elapsed" in expr_str(ea), "Instant::elapsed" in expr_str(eb)
            if ta or tb:
                n += 1
                other = eb if ta else ea
                # inside `limit.is_some_and(|l| elapsed >= l)` the other side is the closure's parameter: the payload of the
                # Option the combinator was called on
                if b is not b0 and other[0] == "arg":
                    other = combinator_receiver(ix, b0, b) or other
                ok = mentions_field(other, "limits") and not ("Instant::elapsed" in expr_str(other))
                ctx.check(ok, c15.dedup(ctx.__dict__.setdefault("_seen16", {}), "%s:clock-compared-with-limit" % C.LIMITS_EXCEEDED), "elapsed time is compared with `%s` (None / MAX in a fixed-depth search)" % expr_str(other)[:80], b.where(line=s.get("line")),
                          bad_what="elapsed time is compared with `%s`, which is not a SearchLimits field: the decision depends on the clock even without time limits" % expr_str(other)[:80])
    ctx.floor("clock comparisons in limits_exceeded", n, 1)
    # the time handed to log_uci_info cannot influence state: log_uci_info has an empty write set
    from .c02 import eff
    e = eff(ix)
    ctx.check(not e.writes("search::Search::log_uci_info"), "log_uci_info:pure", "log_uci_info (the only consumer of iter_deep's elapsed time) writes nothing", bad_what="log_uci_info writes %s" % sorted(e.writes("search::Search::log_uci_info"))[:3])
    it = ctx.body(C.ITER_DEEP)
    isym = ctx.sym(it)
    bad = []
    for bi, t in it.calls():
        if callee_is(t, "search::Search::log_uci_info", "std::time::Duration::as_millis", "std::time::Instant::elapsed", C.ALPHA_BETA_START, C.LIMITS_EXCEEDED):
            continue
        for a in t.get("args", []):
            if "Instant::elapsed" in expr_str(isym.operand(a)):
                bad.append(C.short(t.get("callee", "?")))
    ctx.check(not bad, "iter_deep:elapsed-only-to-info", "iter_deep passes elapsed time only to log_uci_info", it.where(0), bad_what="iter_deep passes elapsed time to %s" % bad)


def rule_hash_order(ctx):
    ix = ctx.ix
    n = 0
    seen = {}
    for b in ix.fn_bodies():
        for bi, t in b.calls():
            c = t.get("callee") or ""
            sc = strip_generics(c)
            if not ("std::collections::HashMap" in sc or "std::collections::HashSet" in sc or "std::collections::hash_map" in sc or "std::collections::hash_set" in sc or "hashbrown" in sc):
                continue
            n += 1
            ctx.functions.add(b.key)
            method = sc.split("::")[-1]
            ok = any(sc.endswith(m) for m in ORDER_FREE)
            ctx.check(ok, c15.dedup(seen, "%s:%s" % (b.key, C.short(sc))), "%s uses the order-independent hash container method %s" % (C.short(b.key), method), b.where(bi),
                      bad_what="%s calls %s: iterating a hash container exposes its internal order (randomly seeded for std's default hasher) to the computation" % (b.key, sc))
    ctx.floor("hash-container call sites", n, 5)
    tt = ix.statics.get(C.TT_STATIC)
    ctx.check(tt is not None and "NoHashHasher" in tt["ty"], "transposition-table-hasher", "the cache uses the identity hasher (BuildNoHashHasher), not a randomly seeded one", bad_what="the transposition table's type is %s" % (tt["ty"] if tt else None))
    # no hash container inside Board / Search / Info any more?  (RandomState containers are fine as long as nothing iterates them: checked above)


def rule_seed(ctx):
    ix = ctx.ix
    b = ctx.body("board::zkey::ZTable::init")
    sym = ctx.sym(b)
    seeds = [(bi, t) for bi, t in b.calls() if callee_is(t, "*::seed_from_u64", "*::from_seed", "*::from_entropy", "*::from_os_rng", "*::from_rng", "*::try_from_os_rng")]
    ok = len(seeds) == 1 and callee_is(seeds[0][1], "*::seed_from_u64")
    val = None
    if ok:
        c = seeds[0][1]["args"][0].get("const")
        val = c
        ok = c is not None and ("int" in c or "bits" in c)
    ctx.check(ok, "ZTable::init:fixed-seed", "the Zobrist generator is seeded from a compile-time constant (%s)" % (val.get("item") or val.get("int") if val else None), b.where(seeds[0][0] if seeds else 0),
              bad_what="ZTable::init does not seed its generator with seed_from_u64(<constant>)")
    # every OnceLock initialiser is source-free
    inits = set()
    for fb in ix.fn_bodies():
        for bi, t in fb.calls():
            if callee_is(t, "std::sync::OnceLock::get_or_init"):
                for a in t["args"][1:]:
                    c = a.get("const")
                    if c and "fn" in c:
                        inits.add(strip_generics(c["fn"]))
                    p = op_place(a)
                    if p is not None:
                        e = mir.Sym(fb, ix).operand(a)
                        if e[0] == "closure":
                            inits.add(e[1])
    for k in sorted(inits):
        if k not in ix.bodies:
            ctx.bad("once-init:%s:unknown" % k, "OnceLock initialiser %s is not a crate function (cannot decide)" % k)
            continue
        r = ix.reachable([k])
        bad = []
        for kk in r:
            bb = ix.bodies[kk]
            if bb.kind not in ("fn", "closure"):
                continue
            for bi, t in bb.calls():
                c = strip_generics(t.get("callee") or "")
                if is_source(c):
                    bad.append((C.short(kk), C.short(c)))
        ctx.functions.add(k)
        ctx.check(not bad, "once-init:%s" % k, "the table initialiser %s reaches no source of variation (%d functions)" % (C.short(k), len(r)), ix.bodies[k].where(0),
                  bad_what="the table initialiser %s reaches %s" % (k, bad[:4]))
    ctx.floor("OnceLock initialisers", len(inits), ONCE_TABLES - 2)   # a table may become a compile-time constant; most stay


def rule_statics(ctx):
    ix = ctx.ix
    per = C.persistent_statics(ix)
    ctx.check(per == [C.TT_STATIC], "mutable-statics", "the only static that changes after initialisation is the transposition table", bad_what="mutable process-wide state: %s" % per)
    once = sorted(p for p, s in ix.statics.items() if s["ty"].startswith("std::sync::OnceLock<"))
    # every static is the cache, one of the init-once tables whose initialisers were read (rule `seed`), or a plain constant
    # (no interior mutability: a table computed at compile time is not state)
    plain = sorted(p for p, s in ix.statics.items() if not s["mutable"] and not s["interior_mut"])
    rest = sorted(set(ix.statics) - set(once) - set(plain) - {C.TT_STATIC})
    ctx.check(ONCE_TABLES - 2 <= len(once) <= ONCE_TABLES and not rest, "init-once-tables", "%d init-once tables + %d constant table(s) + the cache = all %d statics" % (len(once), len(plain), len(ix.statics)),
              bad_what="statics changed: %d OnceLock tables (confirmed: %d), others: %s: new process-wide state has not been confirmed" % (len(once), ONCE_TABLES, rest or sorted(ix.statics)))
    ctx.check(not any(s["mutable"] for s in ix.statics.values()), "no-static-mut", "no `static mut`", bad_what="static mut present")
    tls = []
    for b in ix.fn_bodies():
        for bi, i, s in b.stmts():
            if s["rv"].get("k") == "tlsref":
                tls.append(b.key)
    ctx.check(not tls, "no-thread-locals", "no thread_local! state", bad_what="thread-local state used in %s" % sorted(set(tls)))
    atom = []
    for p, a in ix.adts.items():
        for v in a["variants"]:
            for f in v["fields"]:
                if "Atomic" in f["ty"] or "Mutex<" in f["ty"] or "RwLock<" in f["ty"] or "Cell<" in f["ty"]:
                    atom.append("%s.%s" % (p, f["name"]))
    # the running flag: once in Search, once on the input side (a field of Uci, or of a private struct of the uci module that
    # Uci holds next to the join handle)
    ok_cells = len(atom) == 2 and "search::Search.running" in atom and any(a.startswith("uci::") and "Atomic" in next((f["ty"] for v in ix.adts[a.rsplit(".", 1)[0]]["variants"] for f in v["fields"] if f["name"] == a.rsplit(".", 1)[1]), "") for a in atom)
    ctx.check(ok_cells, "shared-cells", "the only shared cells in crate types are the running flag (Search.running and its published clone in the uci module)", bad_what="shared / interior-mutable fields: %s" % sorted(atom))


def rule_fresh(ctx):
    ix = ctx.ix
    b = ctx.body("search::Search::new")
    sym = ctx.sym(b)
    r = sym.local(0)
    ok = r[0] == "agg" and r[1] == "search::Search"
    info = None
    if ok:
        names = list(r[4])
        info = r[3][names.index("info")]
        ok = info[0] == "call" and info[1] == "search::info::Info::new"
    ctx.check(ok, "Search::new:fresh-info", "every Search starts from Info::new()", b.where(0), bad_what="Search::new initialises info with %s" % (expr_str(info) if info else expr_str(r)))
    ib = ctx.body("search::info::Info::new")
    isym = ctx.sym(ib)
    v = isym.local(0)
    consts_only = v[0] == "agg" and not any(isinstance(x, tuple) and x[0] in ("call", "arg", "var", "static", "unknown") for x in walk(v))
    ctx.check(consts_only, "Info::new:constants", "Info::new is built from constants only (nodes 0, killers None, ...)", ib.where(0), bad_what="Info::new depends on %s" % expr_str(v)[:200])


def rule_bench_clear(ctx):
    ix = ctx.ix
    b = ctx.body(BENCH)
    searches = [bi for bi, t in b.calls() if C.SEARCH in ix.call_targets(t)]
    clears = {a["block"] for a in C.tt_clears(ix, b)}
    ctx.check(len(searches) == 1 and clears, "bench:search-and-clear", "bench has one search call and clears the cache", b.where(0), bad_what="bench: %d search call(s), %d clear(s)" % (len(searches), len(clears)))
    for sb in searches:
        reach = b.reachable_from(b.blocks[sb].term["target"], removed=clears, include_start=True)
        ctx.check(sb not in reach, "bench:clear-between-searches", "every path from one search to the next passes TRANSPOSITION_TABLE.write().clear()", b.where(sb),
                  bad_what="bench can start the next search without clearing the cache: node counts depend on the previous position")
    ib = ix.bodies.get(C.TT_STATIC)
    ok = ib is not None and all(callee_is(t, "*::with_hasher", "std::sync::RwLock::new", "*BuildHasherDefault::new", "*::default") for _b, t in ib.calls())
    ctx.check(ok, "cache:empty-at-start", "the cache's static initialiser builds an empty map", bad_what="the cache's initialiser does more than build an empty map")


def rule_no_race(ctx):
    ix = ctx.ix
    reach_main, spawned = c15.main_thread_functions(ix, roots=("uci::start",))
    statics = C.persistent_statics(ix)
    bad = []
    for k in sorted(reach_main):
        b = ix.bodies[k]
        if b.kind not in ("fn", "closure"):
            continue
        for a in C.static_accesses(ix, b, statics):
            bad.append((k, a["method"]))
    ctx.check(not bad, "cache-not-touched-by-input-thread", "no function on the input thread touches the cache", bad_what="the input thread accesses the cache: %s" % bad[:4])
    # what crosses the thread boundary
    for (gb, gbi, gt, clo) in c10.spawn_sites(ix):
        cb = ix.bodies.get(clo)
        tys = []
        if cb:
            sd = gb.single_def(op_place(gt["args"][0])["l"])
            for o in sd[2]["ops"]:
                p = op_place(o)
                tys.append((p or {}).get("ty") or (o.get("const") or {}).get("ty"))
        ok = all(t and not t.startswith("&") and "*" not in t for t in tys)
        ctx.check(ok and tys, "spawn:captures-by-value", "the search thread captures only owned values %s (the Board is a clone; the flag is the only shared cell: C16.statics)" % tys, gb.where(gbi),
                  bad_what="the search thread captures references / raw pointers: %s" % tys)


def rule_default_limits(ctx):
    """A search that was given no limits has none: `SearchLimits::new()` and `SearchLimits::default()` (what `Search::new(board,
    None)` and the bench fall back to) leave every limit empty.  A default node or time budget would make the depth-limited
    bench depend on the machine."""
    from . import cases
    ix = ctx.ix
    adt = ix.adts.get("search::limits::SearchLimits")
    fields = [f["name"] for f in adt["variants"][0]["fields"]] if adt else []
    ctx.check(len(fields) >= 7, "SearchLimits:fields", "SearchLimits has its limit fields (%d)" % len(fields), None, bad_what="cannot read the fields of SearchLimits")
    for key in ("search::limits::SearchLimits::new", "<search::limits::SearchLimits as std::default::Default>::default"):
        b = ctx.body(key)
        run = cases.run(ix, b, {})
        rets = [p for p in run.paths if p.end == "return"]
        bad = None
        if run.overflow or len(rets) != 1 or any(p.end not in ("return", "panic", "unreachable") for p in run.paths):
            bad = "cannot walk the constructor to a single result"
        else:
            r = mir.strip_copies(rets[0].ret)
            if r[0] == "call" and r[1] == "search::limits::SearchLimits::new" and not r[2]:
                r = None   # default() = new(), decided above
            if r is not None:
                if r[0] != "agg" or not str(r[1]).endswith("SearchLimits"):
                    bad = "returns `%s`" % expr_str(r)[:80]
                else:
                    names = r[4] if len(r) > 4 and r[4] else fields
                    for n, v in zip(names, r[3]):
                        v = mir.strip_copies(v)
                        none = (v[0] == "agg" and str(v[1]).endswith("Option") and v[2] == "None") or \
                               (v[0] == "call" and v[1].startswith("<std::option::Option<T> as std::default::Default>::default"))
                        if not none:
                            bad = "%s starts as `%s`" % (n, expr_str(v)[:60])
                    if len(r[3]) != len(fields):
                        bad = bad or "the result does not set all %d fields" % len(fields)
        ctx.check(bad is None, "%s:no-limit-by-default" % key.split("::")[-1].replace(">", ""), "%s() leaves every limit of SearchLimits empty" % C.short(key), b.where(0),
                  bad_what="%s: %s -- a search given no limits is then stopped by a budget, and how far it gets depends on the machine" % (C.short(key), bad))
    # Search::new falls back to exactly that
    sn = ctx.body("search::Search::new")
    uses = [strip_generics(t.get("callee") or "") for bi, t in sn.calls() if "unwrap_or" in (t.get("callee") or "")]
    ctx.check(any(u.endswith("Option::unwrap_or_default") for u in uses) or any(u.endswith("Option::unwrap_or_else") for u in uses), "Search::new:falls-back-to-default", "Search::new(board, None) uses the default limits", sn.where(0),
              bad_what="Search::new does not fall back to SearchLimits::default() when given no limits (found %s)" % uses)


RULES = [("default-limits", rule_default_limits), ("sources", rule_sources), ("hash-order", rule_hash_order), ("seed", rule_seed), ("statics", rule_statics), ("fresh", rule_fresh),
         ("bench-clear", rule_bench_clear), ("no-race", rule_no_race)]
# "the same search gives the same node count" needs the search to be alone: a `go` is refused while a search runs, and the
# engine never forgets a running search (C10)
RULES += engine.premise_rules("c10", ["one-at-a-time", "handle-writers", "go-reaches-spawn"])


def run(tier):
    return engine.main(
        PROP, "fixed-depth search is deterministic", RULES, "other",
        explanation=("A single-threaded computation without impure inputs is deterministic; the rules enumerate every way impurity could enter the call graph rooted at Search::search and bench::bench: "
                     "a deny-list of resolved callees (clock, OS randomness, RandomState, env, threads, files, pointer-to-integer casts) with the confirmed instances frozen by (caller, callee) and "
                     "their values confined to the info line / to comparisons against SearchLimits fields; no iteration API on any hash container and an identity-hashed cache; a constant Zobrist seed and "
                     "source-free table initialisers; no mutable process-wide state except the cache; a fresh Info per search; the cache empty at start and cleared between bench positions; the cache "
                     "never touched by the input thread and only owned values crossing the thread boundary; a search given no limits has none (SearchLimits::new / default leave every limit empty). "
                     "Not decided: codegen determinism, the three target_feature `unsafe` wrappers."),
        assumptions=["std functions not on the deny-list are deterministic functions of their arguments", "rustc/LLVM codegen is deterministic; no undefined behaviour"],
        tier=tier)
