"""Arm specialisation: `let (kind, first_move) = match keyword { "startpos" => (StartPos, 1), "fen" => (Fen{..}, 7), .. }`
followed by code that uses `first_move` as a number.  The reference spelling repeats the tail once per arm with the numbers
written out (`args[2..]`, `args[8..]`); the merged spelling is the same code with the numbers travelling through a tuple that
is assigned in every arm.  This pass gives each arm its own copy of the tail (the blocks reachable from the join, when the
join is not in a loop and the tail is entered through the join only) and its own copy of the locals defined there, so that
each copy reads the constants of its arm as constants.  Like the other rewrites it is applied on the facts, before any rule,
and only in functions that have more such joins than the same function of the reference tree (`known_closures.json:
merged_tuples`), so reference code is never rewritten."""
import copy

from .inline import _place, _operand, _rvalue, _term, _live

MAX_REGION = 90


def _succs(t):
    k = t["k"]
    if k == "goto":
        return [t["target"]]
    if k == "switch":
        return [a[1] for a in t["arms"]] + [t["otherwise"]]
    if k in ("call", "drop", "assert"):
        out = [t["target"]] if t.get("target") is not None else []
        if t.get("unwind") is not None and isinstance(t.get("unwind"), int):
            out.append(t["unwind"])
        return out
    return []


def _final(blocks, x, hops=0):
    while hops < 10 and not blocks[x]["cleanup"] and blocks[x]["term"]["k"] == "goto" and not any("lhs" in s for s in blocks[x]["stmts"]) and blocks[x]["term"]["target"] != x:
        x = blocks[x]["term"]["target"]
        hops += 1
    return x


def _is_const_op(o):
    return isinstance(o, dict) and "const" in o


def candidates(body, relaxed=False):
    """[(tuple local, [def blocks], join block, region)] for tuples assigned as a whole in two or more arms that meet in one
    join, with a constant component that differs between the arms."""
    blocks = body["blocks"]
    live = _live(body)
    defs = {}
    borrowed = set()
    for bi in live:
        blk = blocks[bi]
        if blk["cleanup"]:
            continue
        for s in blk["stmts"]:
            if "lhs" not in s:
                continue
            rv = s["rv"]
            if rv["k"] in ("ref", "rawptr") and rv.get("mut", rv["k"] == "rawptr"):
                borrowed.add(rv["p"]["l"])
            if not s["lhs"]["p"]:
                defs.setdefault(s["lhs"]["l"], []).append((bi, s))
        t = blk["term"]
        if t["k"] == "call" and not t["dest"]["p"]:
            defs.setdefault(t["dest"]["l"], []).append((bi, None))
    preds = {}
    for bi in live:
        for y in _succs(blocks[bi]["term"]):
            preds.setdefault(y, set()).add(bi)
    out = []
    for l, ds in sorted(defs.items()):
        if len(ds) < 2 or l in borrowed or l == 0 or l <= body["arg_count"]:
            continue
        scalar = all(s is not None and s["rv"]["k"] == "use" and _is_const_op(s["rv"]["a"]) and s["rv"]["a"]["const"].get("ty") in ("u8", "u16", "u32", "u64", "usize", "i8", "i16", "i32", "i64", "isize") for _b, s in ds)
        if scalar and len({repr(s["rv"]["a"]["const"].get("int")) for _b, s in ds}) > 1 and len({b for b, _s in ds}) == len(ds):
            # `let idx = match kind { A => 1, B => 7 };`: a number chosen per arm
            ds = [(b, dict(s, rv={"k": "agg", "agg": "tuple", "ops": [s["rv"]["a"]]}, _scalar=s)) for b, s in ds]
        if not all(s is not None and s["rv"]["k"] == "agg" and s["rv"].get("agg") == "tuple" for _b, s in ds):
            continue
        if len({b for b, _s in ds}) != len(ds):
            continue
        n = len(ds[0][1]["rv"]["ops"])
        if any(len(s["rv"]["ops"]) != n for _b, s in ds):
            continue
        ints = ("u8", "u16", "u32", "u64", "usize", "i8", "i16", "i32", "i64", "isize")

        def numberish(o):
            if _is_const_op(o):
                return o["const"].get("ty") in ints
            q = o.get("copy") or o.get("move")
            return q is not None and not q["p"] and body["locals"][q["l"]]["ty"] in ints
        # a numeric component that is a literal in at least one arm (and a number in every arm)
        differs = any(all(numberish(s["rv"]["ops"][i]) for _b, s in ds) and any(_is_const_op(s["rv"]["ops"][i]) for _b, s in ds) for i in range(n))
        if not differs:
            continue
        joins = set()
        ok = True
        for b, s in ds:
            t = blocks[b]["term"]
            s0 = s.get("_scalar", s)
            if t["k"] != "goto" or blocks[b]["stmts"][-1] is not s0 and [x for x in blocks[b]["stmts"][blocks[b]["stmts"].index(s0) + 1:] if "lhs" in x and x["lhs"]["l"] == l]:
                ok = False
                break
            joins.add(_final(blocks, t["target"]))
        if not ok or len(joins) != 1:
            continue
        j = next(iter(joins))
        # the tail: everything reachable from the join; not a loop, entered through the join only
        region, stack = set(), [j]
        while stack:
            x = stack.pop()
            if x in region or blocks[x]["cleanup"]:
                continue
            region.add(x)
            stack.extend(_succs(blocks[x]["term"]))
        if relaxed:
            out.append((l, ds, j, region))      # the merge exists, whether or not its tail can be copied
            continue
        if len(region) > MAX_REGION or any(j in _succs(blocks[x]["term"]) for x in region):
            continue
        arms = {b for b, _s in ds}
        # blocks of the tail that other paths enter as well (the shared return block, the drops in front of it) stay shared,
        # with everything behind them
        shared = set()
        for x in region:
            for p in preds.get(x, ()):
                if p in region or blocks[p]["cleanup"]:
                    continue
                if x == j and (p in arms or _final(blocks, p) == j and all(q in arms for q in preds.get(p, ()))):
                    continue
                shared.add(x)
        stack = list(shared)
        while stack:
            x = stack.pop()
            for y in _succs(blocks[x]["term"]):
                if y in region and y not in shared:
                    shared.add(y)
                    stack.append(y)
        region = region - shared
        if j not in region:
            continue
        out.append((l, ds, j, region))
    return out


def count(body):
    return len(candidates(body, relaxed=True))


def specialise(body, ref_count=0):
    """Give every arm but the first its own copy of the tail.  Returns the number of joins specialised."""
    done = 0
    for _round in range(3):
        cands = candidates(body)
        if not cands or count(body) <= ref_count:
            break
        l, ds, j, region = cands[0]
        blocks = body["blocks"]
        # locals defined (as a whole or in part) only inside the tail get a copy per arm, and so does the tuple
        def_blocks = {}
        for bi, blk in enumerate(blocks):
            if blk["cleanup"]:
                continue
            for s in blk["stmts"]:
                if "lhs" in s:
                    def_blocks.setdefault(s["lhs"]["l"], set()).add(bi)
            t = blk["term"]
            if t["k"] == "call":
                def_blocks.setdefault(t["dest"]["l"], set()).add(bi)
        local_to_tail = {x for x, bs in def_blocks.items() if bs <= region and x != 0 and x > body["arg_count"]}
        # ... unless code outside the copies reads them too (then they stay shared)
        import json as _json
        outside_txt = _json.dumps([blocks[x] for x in range(len(blocks)) if x not in region and not blocks[x]["cleanup"]])
        local_to_tail = {x for x in local_to_tail if ('"l": %d,' % x) not in outside_txt and ('"l": %d}' % x) not in outside_txt}
        for (arm_b, arm_s) in ds[1:]:
            base_b = len(blocks)
            order = sorted(region)
            bmap = {x: base_b + i for i, x in enumerate(order)}
            lmap = {}
            for x in sorted(local_to_tail | {l}):
                lmap[x] = len(body["locals"])
                body["locals"].append(copy.deepcopy(body["locals"][x]))
            for d in list(body["debug"]):
                v = d["val"]
                if "l" in v and v["l"] in lmap and not d.get("arg"):
                    body["debug"].append({"name": d["name"], "val": _place(v, lambda q: lmap.get(q, q)), "arg": None, "inlined": "arm@%d" % arm_b})

            def lm(q):
                return lmap.get(q, q)

            def bm(q):
                return bmap.get(q, q)
            for x in order:
                blk = blocks[x]
                stmts = [dict(s, lhs=_place(s["lhs"], lm), rv=_rvalue(s["rv"], lm)) if "lhs" in s else s for s in blk["stmts"]]
                blocks.append({"stmts": stmts, "term": _term(blk["term"], lm, bm), "cleanup": False, "spliced": "arm@%d" % arm_b})
            ab = blocks[arm_b]
            arm_s0 = arm_s.get("_scalar", arm_s)
            ab["stmts"] = [dict(s, lhs=_place(s["lhs"], lm)) if s is arm_s0 else s for s in ab["stmts"]]
            ab["term"] = dict(ab["term"], target=bmap[j])
        done += 1
    return done


def apply(facts):
    import json
    import os
    known = {}
    p = os.path.join(os.path.dirname(os.path.abspath(__file__)), "known_closures.json")
    try:
        known = json.load(open(p)).get("merged_tuples", {})
    except (OSError, ValueError):
        pass
    log = []
    from .inline import _fold_switches, _resolve_refs
    adts = {a["path"]: a for a in facts["adts"]}
    for j in facts["bodies"]:
        if j["kind"] not in ("fn", "closure"):
            continue
        n = specialise(j, known.get(j["key"], 0))
        if n:
            _fold_switches(j, adts)
            _resolve_refs(j)
            log.append({"in": j["key"], "joins": n})
    facts["arms_specialised"] = log
    return log
