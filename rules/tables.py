"""(Kind, Colour) <-> bitboard-field tables shared by C07, C17, C01 (DESIGN C07.bijection)."""
from . import mir
from . import common as C
from .mir import expr_str, walk, fields_of, op_place

KINDS = ["Pawn", "King", "Queen", "Rook", "Bishop", "Knight"]
COLOURS = ["White", "Black"]
PLURAL = {"Pawn": "pawns", "King": "king", "Queen": "queens", "Rook": "rooks", "Bishop": "bishops", "Knight": "knights"}


def oracle_field(kind, colour):
    return "%s_%s" % (colour.lower(), PLURAL[kind])


ORACLE = {(k, c): oracle_field(k, c) for k in KINDS for c in COLOURS}
PIECE_FIELDS = set(ORACLE.values())


def kc_from_constraints(cons):
    kind = colour = None
    for text, vals, _d, e in cons:
        if len(vals) != 1:
            continue
        v = next(iter(vals))
        if text.startswith("discr(") and v in KINDS and " as " not in text:
            kind = v
        elif text.startswith("discr((") and " as " in text and text.endswith(").0)") and v in COLOURS:
            colour = v
        elif text.startswith("discr(") and v in COLOURS:
            colour = v
    return kind, colour


def field_uses(body):
    """(block, field name) for every use of a `<colour>_<kind>` bitboard field of parameter 1 / of self."""
    out = []
    for bi, i, s in body.stmts():
        places = []
        rv = s["rv"]
        if rv.get("k") in ("ref", "discr", "rawptr"):
            places.append(rv["p"])
        for o in mir.rv_operands(rv):
            p = op_place(o)
            if p is not None:
                places.append(p)
        places.append(s["lhs"])
        for p in places:
            for f in fields_of(p):
                if f in PIECE_FIELDS:
                    out.append((bi, f))
    for bi, t in body.calls():
        for a in t.get("args", []):
            p = op_place(a)
            if p is not None:
                for f in fields_of(p):
                    if f in PIECE_FIELDS:
                        out.append((bi, f))
    return out


def kind_colour_table(ix, key):
    """{(Kind, Colour): set of piece-bitboard fields touched} for a function taking a Kind (or only a Color), read off
    by per-case constant propagation: the function is walked once per (kind, colour) with that argument fixed, and the
    fields named in its stores and call arguments on the returning paths are collected.  Independent of whether the
    12-way split is one match, nested matches, or a lookup helper returning a reference to the field."""
    from . import cases
    b = ix.body(key)
    kparam = cparam = None
    for l in range(1, b.arg_count + 1):
        ty = b.locals[l]["ty"].lstrip("&").replace("mut ", "")
        if ty == "board::piece::Kind" and kparam is None:
            kparam = b.local_name(l)
        elif ty == "board::piece::Color" and cparam is None:
            cparam = b.local_name(l)
    out = {}
    if kparam is None and cparam is None:
        return out, b
    combos = [(k, c) for k in KINDS for c in COLOURS] if kparam is not None else [(None, c) for c in COLOURS]
    for k, c in combos:
        col = cases.enum_val(ix, "board::piece::Color", c)
        inp = {kparam: cases.enum_val(ix, "board::piece::Kind", k, [col])} if kparam is not None else {cparam: col}
        run = cases.run(ix, b, inp)
        fields = set()
        undecided = run.overflow
        for p in run.paths:
            if p.end not in ("return", "panic", "unreachable"):
                undecided = True
            if p.end != "return":
                continue
            texts = []
            for e in p.events:
                if e[0] == "store":
                    texts.append(e[2])
                    texts.append(expr_str(e[3]))
                elif e[0] == "call":
                    texts.extend(expr_str(a) for a in e[3])
            if p.ret is not None:
                texts.append(expr_str(p.ret))
            for t in texts:
                for f in PIECE_FIELDS:
                    if ("." + f) in t and not t[t.index("." + f) + len(f) + 1:t.index("." + f) + len(f) + 2].isalnum() and t[t.index("." + f) + len(f) + 1:t.index("." + f) + len(f) + 2] != "_":
                        fields.add(f)
        if undecided:
            fields.add("<undecided>")
        if fields:
            out[(k, c)] = fields
    return out, b


def colour_table(ix, key):
    """For the colour-only setters (pawns(color, value) ...): {Colour: set of fields}."""
    t, b = kind_colour_table(ix, key)
    return {c: fs for (k, c), fs in t.items()}, b


def check_kc_table(ctx, key, what, allow_partial=False):
    t, b = kind_colour_table(ctx.ix, key)
    ctx.functions.add(key)
    n = 0
    for kc in sorted(ORACLE):
        got = t.get(kc)
        if got is None and allow_partial:
            continue
        n += 1
        ctx.check(got == {ORACLE[kc]}, "%s:%s-%s" % (key, kc[1], kc[0]), "%s: (%s, %s) -> %s" % (what, kc[0], kc[1], sorted(got) if got else None), b.where(0),
                  bad_what="%s: (%s, %s) touches %s, expected the bitboard `%s`" % (C.short(key), kc[0], kc[1], sorted(got) if got else "nothing", ORACLE[kc]))
    extra = [kc for kc in t if kc not in ORACLE]
    ctx.check(not extra, "%s:no-extra-rows" % key, "%s: no row outside the 12 (kind, colour) pairs" % what, b.where(0), bad_what="%s has rows %s" % (key, extra))
    return n
