"""C10  stop is never lost and go is never dropped, under any timing  (DESIGN 3, C10)."""
from . import engine, mir
from . import common as C
from .mir import expr_str, walk, callee_is, const_int, op_place

PROP = "C10"
EXEC = "uci::Uci::execute_command"
UCI_GO = "uci::Uci::go"
UCI_LOOP = "uci::Uci::uci_loop"
UCICOMMAND = "uci::uci_command::UCICommand"


def spawn_sites(ix):
    """(body, block, term, closure key) for every std::thread::spawn in the crate."""
    out = []
    for b in ix.fn_bodies():
        sym = None
        for bi, t in b.calls():
            if callee_is(t, "std::thread::spawn", "*thread::Builder::spawn", "*thread::Builder::spawn_scoped", "*thread::Scope::spawn"):
                sym = sym or mir.Sym(b, ix)
                clo = None
                for a in t["args"]:
                    e = mir.strip_copies(sym.operand(a))
                    if isinstance(e, tuple) and e[0] == "closure":
                        clo = e[1]
                    elif isinstance(e, tuple) and e[0] == "fn" and e[1] in ix.bodies:
                        clo = e[1]
                out.append((b, bi, t, clo))
    return out


def atomic_stores(ix, key):
    """(block, term, value) for Atomic::store calls in a body; value is 0/1 or None if not constant."""
    b = ix.bodies[key]
    out = []
    for bi, t in b.calls():
        if callee_is(t, C.ATOMIC_STORE, "*atomic::Atomic::swap", "*atomic::Atomic::fetch_or", "*atomic::Atomic::fetch_and", "*atomic::Atomic::compare_exchange", "*atomic::Atomic::fetch_xor", "*atomic::Atomic::fetch_nand", "*atomic::Atomic::fetch_update"):
            v = const_int(t["args"][1]) if len(t["args"]) >= 2 else None
            if not callee_is(t, C.ATOMIC_STORE):
                v = None
            out.append((bi, t, v))
    return out


def rule_flag_writers(ctx):
    """After the flag has been published to the input thread, the search thread may only clear it:
    no Atomic store of `true` (or of a non-constant) is reachable from a spawned closure; the flag
    is created `true` in Search::new."""
    ix = ctx.ix
    sites = spawn_sites(ix)
    ctx.floor("thread::spawn sites", len(sites), 1)
    n_store = 0
    for (b, bi, t, clo) in sites:
        ctx.functions.add(b.key)
        if clo is None:
            ctx.bad("%s:spawn:closure-unknown" % b.key, "cannot identify the closure handed to thread::spawn", b.where(bi))
            continue
        reach = ix.reachable([clo])
        for k in sorted(reach):
            for (sb, st, v) in atomic_stores(ix, k):
                n_store += 1
                ctx.functions.add(k)
                ctx.check(v == 0, "%s:atomic-store:in=%s:value=%s" % (clo, k, {0: "false", 1: "true", None: "non-constant"}[v]),
                          "search thread stores only `false` into the shared flag (in %s)" % C.short(k),
                          ix.bodies[k].where(sb),
                          bad_what="%s, reachable from the spawned search thread, stores %s into the shared running flag after it was published to the input thread: a `stop` processed before this store is overwritten and lost"
                          % (C.short(k), {1: "`true`", None: "a non-constant value"}.get(v)))
    ctx.floor("atomic stores reachable from the search thread", n_store, 2)
    # creation value
    nb = ctx.body("search::Search::new")
    sym = ctx.sym(nb)
    created = []
    for x_bi, t in nb.calls():
        if callee_is(t, "std::sync::atomic::Atomic::new"):
            created.append((x_bi, const_int(t["args"][0])))
    ctx.check(len(created) == 1 and created[0][1] == 1, "search::Search::new:flag-created=true",
              "Search::new creates the running flag as `true` (a stop that arrives before the thread starts is kept)",
              nb.where(created[0][0]) if created else nb.where(0),
              bad_what="Search::new does not create exactly one atomic flag initialised to `true` (found %s): the search thread would have to set it itself, racing with `stop`" % created)


_FLAG_FIELDS = {}


def flag_fields(ix):
    """Names of the fields of `Uci` through which the published running flag is reached: fields whose type holds an
    `Arc<AtomicBool>`, directly (`search_running: Option<Arc<AtomicBool>>`) or inside a crate struct (`search_task:
    Option<SearchTask>` with `SearchTask { running: Arc<AtomicBool>, thread: JoinHandle<()> }`)."""
    key = ix.uid
    if key in _FLAG_FIELDS:
        return _FLAG_FIELDS[key]

    def holds(ty, depth=0):
        if "std::sync::Arc<std::sync::atomic::AtomicBool>" in ty or "Arc<std::sync::atomic::Atomic<bool>>" in ty or ("Arc<" in ty and "AtomicBool" in ty):
            return True
        if depth > 3:
            return False
        for path, a in ix.adts.items():
            if path.startswith("uci::") and path in ty and a["kind"] == "Struct":
                if any(holds(f["ty"], depth + 1) for v in a["variants"] for f in v["fields"]):
                    return True
        return False
    out = set()
    u = ix.adts.get("uci::Uci")
    for v in (u or {}).get("variants", []):
        for f in v["fields"]:
            if holds(f["ty"]):
                out.add(f["name"])
                # ... and, inside a holder struct of the uci module, the flag's own field (read by the holder's methods)
                for path, a in ix.adts.items():
                    if path.startswith("uci::") and path != "uci::Uci" and path in f["ty"] and a["kind"] == "Struct":
                        out |= {g["name"] for w in a["variants"] for g in w["fields"] if holds(g["ty"])}
    _FLAG_FIELDS[key] = out or {"search_running"}
    return _FLAG_FIELDS[key]


def _mentions_flag_field(ix, e):
    ff = flag_fields(ix)
    return any(isinstance(x, tuple) and x[0] == "field" and any(n in ff for n in x[2:]) for x in walk(e))


def rule_publish_order(ctx):
    """Uci::go publishes the flag of the *same* Search it moves into the thread, before spawning."""
    ix = ctx.ix
    b = ctx.body(UCI_GO)
    sym = ctx.sym(b)
    spawn = [(bi, t) for bi, t in b.calls() if callee_is(t, "std::thread::spawn")]
    ctx.check(len(spawn) == 1, "%s:one-spawn" % UCI_GO, "Uci::go spawns exactly one thread", b.where(0),
              bad_what="Uci::go contains %d thread::spawn calls" % len(spawn))
    if len(spawn) != 1:
        return
    sbi, st = spawn[0]
    # captured locals of the closure
    captured = set()
    cp = mir.op_place(st["args"][0])
    clo_def = b.single_def(cp["l"]) if cp and mir.is_local(cp) else None
    if clo_def and clo_def[2].get("k") == "agg":
        for o in clo_def[2]["ops"]:
            p = mir.op_place(o)
            if p is not None:
                captured.add(p["l"])
    # publication: assignment to the field of Uci that holds the flag (alone, or together with the join handle)
    ff = flag_fields(ix)
    pubs = []
    for bi, i, s in b.stmts():
        if s["lhs"]["l"] == 1 and mir.fields_of(s["lhs"])[-1:] and mir.fields_of(s["lhs"])[-1] in ff:
            pubs.append((bi, i, s))
    ctx.check(len(pubs) == 1, "%s:one-publication" % UCI_GO, "Uci::go assigns search_running exactly once", b.where(0),
              bad_what="Uci::go assigns search_running %d times" % len(pubs))
    if len(pubs) != 1:
        return
    pbi, _pi, ps = pubs[0]
    # commands are handled one after the other on the input thread: what matters is that Uci::go does not return with a thread
    # spawned and no flag published (before the spawn, or - when flag and join handle are stored together - on every way from
    # the spawn to the return)
    before = b.dominates(pbi, sbi)
    after = (not before) and mir.EXIT not in b.reachable_from(sbi, removed={pbi})
    ctx.check(before or after, "%s:publish-dominates-spawn" % UCI_GO,
              "the flag is stored in Uci on every path through thread::spawn before Uci::go returns", b.where(pbi),
              bad_what="Uci::go can return with the thread spawned and the flag not stored: a `stop` that is processed right after `go` finds no (or the previous) flag")
    # same Search object: root local of the cloned flag == captured local
    e = sym.rvalue(ps["rv"])
    roots = set()
    src_local = trace_clone_root(b, ps["rv"])
    ok = src_local is not None and src_local in captured
    ctx.check(ok, "%s:same-search-object" % UCI_GO,
              "the published flag is a clone of `.running` of the local that is moved into the spawned closure", b.where(pbi),
              bad_what="the flag published to the input thread (%s) is not the `.running` of the Search moved into the thread (captured locals %s)" % (expr_str(e), sorted(captured)))


def trace_clone_root(b, rv):
    """Follow  Some(move t); t = Arc::clone(move r); r = &LOCAL.running  and return LOCAL."""
    for _ in range(8):
        if rv.get("k") == "agg" and rv.get("variant") == "Some":
            p = mir.op_place(rv["ops"][0])
        elif rv.get("k") == "agg" and rv.get("agg") == "adt" and len(rv.get("ops", [])) > 1:
            # SearchTask { running: clone, thread: handle }: the component that is the flag
            for o in rv["ops"]:
                q = mir.op_place(o)
                d2 = b.single_def(q["l"]) if q is not None and mir.is_local(q) else None
                r2 = trace_clone_root(b, d2[2]) if d2 else None
                if r2 is not None:
                    return r2
            return None
        elif rv.get("k") == "use":
            p = mir.op_place(rv["a"])
        elif rv.get("k") == "call":
            t = rv["t"]
            if not callee_is(t, "*::clone"):
                return None
            p = mir.op_place(t["args"][0])
        elif rv.get("k") == "ref":
            if mir.fields_of(rv["p"]) == ("running",):
                return rv["p"]["l"]
            if rv["p"]["p"] == ["*"]:
                p = {"l": rv["p"]["l"], "p": []}     # a reborrow `&*r` (Arc::clone(&search.running))
            else:
                return None
        else:
            return None
        if p is None or not mir.is_local(p):
            return None
        d = b.single_def(p["l"])
        if d is None:
            return None
        rv = d[2]
    return None


def variant_arm(ix, body, enum_path, variant, arg_local=2):
    """Entry block of the match arm for `variant` in the switch on discriminant(arg)."""
    adt = ix.adt(enum_path)
    idx = None
    for i, v in enumerate(adt["variants"]):
        if v["name"] == variant:
            idx = int(v["discr"]) if v["discr"] is not None else i
    if idx is None:
        raise mir.AnchorMissing("variant %s::%s" % (enum_path, variant))
    sym = mir.Sym(body, ix)
    for blk in body.blocks:
        if blk.cleanup or blk.term["k"] != "switch":
            continue
        e = sym.operand(blk.term["discr"])
        if e[0] == "discr" and mir.strip_refs(e[1]) == ("arg", body.local_name(arg_local)):
            for a in blk.term["arms"]:
                if a[0] == idx:
                    return blk.idx, a[1]
            return blk.idx, blk.term["otherwise"]
    raise mir.AnchorMissing("match on %s in %s" % (enum_path, body.key))


def err_return_blocks(body):
    """Blocks that make the function return Err: `_0 = Result::Err{..}` or a `?` residual into _0."""
    out = set()
    for bi, i, s in body.stmts():
        if mir.is_local(s["lhs"]) and s["lhs"]["l"] == 0 and s["rv"].get("k") == "agg" and s["rv"].get("variant") == "Err":
            out.add(bi)
    for bi, t in body.calls():
        if mir.is_local(t["dest"]) and t["dest"]["l"] == 0 and callee_is(t, "*::from_residual"):
            out.add(bi)
    return out


def rule_stop_arm(ctx):
    """The Stop arm clears the published flag whenever one exists, and never fails."""
    ix = ctx.ix
    b = ctx.body(EXEC)
    sym = ctx.sym(b)
    sw, entry = variant_arm(ix, b, UCICOMMAND, "Stop")
    region = b.reachable_from(entry, include_start=True)
    clears = []
    for bi, t in b.calls():
        if bi in region and callee_is(t, C.ATOMIC_STORE) and const_int(t["args"][1]) == 0:
            e = sym.operand(t["args"][0])
            if _mentions_flag_field(ix, e):
                clears.append(bi)
    ctx.check(len(clears) >= 1, "%s:Stop:clears-flag" % EXEC, "the Stop arm stores `false` into Uci.search_running's flag", b.where(clears[0] if clears else entry),
              bad_what="the Stop arm does not store `false` into the flag held in Uci.search_running: `stop` has no effect")
    if clears:
        # every path from the arm entry to EXIT that avoids the store passes the None edge of a test on search_running
        guards = set()
        for blk in b.blocks:
            if blk.idx in region and blk.term["k"] == "switch":
                e = sym.operand(blk.term["discr"])
                if e[0] == "discr" and _mentions_flag_field(ix, e):
                    guards.add(blk.idx)
        avoid = b.reachable_from(entry, removed=set(clears) | guards, include_start=True)
        ctx.check(mir.EXIT not in avoid, "%s:Stop:always-clears-when-published" % EXEC,
                  "every path through the Stop arm clears the flag, except the `no search has been started` edge", b.where(entry),
                  bad_what="a path through the Stop arm reaches the end without clearing the flag and without having tested that no flag is published")
    errs = err_return_blocks(b) & region
    ctx.check(not errs, "%s:Stop:no-error-exit" % EXEC, "the Stop arm has no Err exit", b.where(entry),
              bad_what="the Stop arm can return Err (lines %s)" % [b.blocks[x].term["line"] for x in sorted(errs)])


_IX = {}


def _is_flag_load(e):
    ix = _IX.get("ix")
    ff = flag_fields(ix) if ix is not None else {"search_running"}
    return (e[0] == "call" and e[1] == C.ATOMIC_LOAD
            and any(isinstance(x, tuple) and x[0] == "field" and any(n in ff for n in x[2:]) for x in walk(e)))


def _wrapper_true_implies_flag(ix, key, depth):
    """`key` is a crate predicate (`fn search_in_progress(&self) -> bool`) that can only return true on a path where
    the search_running flag was loaded as true."""
    h = ix.bodies.get(key) if isinstance(key, str) else None
    if h is None or not h.locals or h.locals[0]["ty"] != "bool":
        return False
    sym = mir.Sym(h, ix)
    defs = [d for d in h.defs().get(0, [])]
    if not defs:
        return False
    for (db, di, rv) in defs:
        if rv.get("k") in ("partial",):
            return False
        v = sym.rvalue(rv) if rv.get("k") != "call" else ("call", mir.strip_generics(mir.callee_name(rv["t"])), tuple(sym.operand(a) for a in rv["t"]["args"]))
        if v == ("const", 0, "bool"):
            continue
        if _is_flag_load(v) or (v[0] == "call" and _wrapper_true_implies_flag(ix, v[1], depth + 1)):
            continue
        guards = set(flag_load_guards(ix, h, {db}, depth + 1))
        if guards and db not in h.reachable_from(0, removed=guards, include_start=True):
            continue
        return False
    return True


def _local_true_implies_flag(ix, body, local, depth, _seen=None):
    """Every definition of the bool local that can make it true is the flag load itself, a predicate that implies it, a copy
    of such a local, or sits behind a flag-load guard whose false edge cannot reach it."""
    _seen = _seen or set()
    if local in _seen or len(_seen) > 6:
        return False
    _seen = _seen | {local}
    sym = mir.Sym(body, ix)
    defs = body.defs().get(local, [])
    if not defs or 1 <= local <= body.arg_count:
        return False
    for (db, di, rv) in defs:
        if rv.get("k") == "partial":
            return False
        if rv.get("k") == "use":
            if const_int(rv["a"]) == 0:
                continue
            q = op_place(rv["a"])
            if q is not None and mir.is_local(q) and _local_true_implies_flag(ix, body, q["l"], depth, _seen):
                continue
        if rv.get("k") == "call":
            t = rv["t"]
            v = ("call", mir.strip_generics(mir.callee_name(t)), tuple(sym.operand(a) for a in t["args"]))
            if _is_flag_load(v) or _wrapper_true_implies_flag(ix, v[1], depth + 1):
                continue
        guards = set(flag_load_guards(ix, body, {db}, depth + 1))
        if guards and db not in body.reachable_from(0, removed=guards, include_start=True):
            continue
        return False
    return True


def flag_load_guards(ix, body, protect, _depth=0):
    """Blocks switching on a load of the search_running flag whose flag==false edge cannot reach `protect`."""
    _IX["ix"] = ix
    sym = mir.Sym(body, ix)
    out = []
    for blk in body.blocks:
        if blk.cleanup or blk.term["k"] != "switch":
            continue
        sc = C.switch_cond(body, sym, blk.idx)
        if sc is None:
            continue
        e, neg = sc
        if e[0] == "var" and _depth < 2:
            # `let busy = match .. { (Some(jh), Some(flag)) => !jh.is_finished() && flag.load(..), _ => false }; if busy {..}`
            ls = [l for l in range(len(body.locals)) if body.local_name(l) == e[1]]
            if not (len(ls) == 1 and _local_true_implies_flag(ix, body, ls[0], _depth)):
                continue
        elif not (e[0] == "call" and (_is_flag_load(e) or (_depth < 2 and _wrapper_true_implies_flag(ix, e[1], _depth)))):
            continue
        f, tr = C.switch_edges(blk.term)
        false_edges = tr if neg else f
        if not any(body.reachable_from(x, include_start=True) & protect for x in false_edges):
            out.append(blk.idx)
    return out


def rule_go_reaches_spawn(ctx):
    """Every path through the Go arm reaches Uci::go, except refusing while the running flag is still
    set; and the search clears the flag before it prints bestmove, so a go sent on seeing bestmove
    is never refused."""
    ix = ctx.ix
    b = ctx.body(EXEC)
    sw, entry = variant_arm(ix, b, UCICOMMAND, "Go")
    go_calls = {bi for bi, t in b.calls() if callee_is(t, UCI_GO)}
    ctx.check(len(go_calls) >= 1, "%s:Go:calls-go" % EXEC, "the Go arm calls Uci::go", b.where(entry),
              bad_what="the Go arm does not call Uci::go")
    region = b.reachable_from(entry, include_start=True)
    # blocks from which EXIT is reachable while avoiding Uci::go = skip paths
    avoid = b.reachable_from(entry, removed=go_calls, include_start=True)
    if mir.EXIT not in avoid and mir.PANIC not in avoid:
        ctx.ok("%s:Go:every-path-spawns" % EXEC, "every path through the Go arm reaches Uci::go", b.where(entry))
    else:
        # the skip exits: blocks in `avoid` that return Err (or panic)
        skip_exits = (err_return_blocks(b) & avoid)
        if not skip_exits:
            skip_exits = {x for x in avoid if x >= 0 and (mir.EXIT in b.succ(x) or mir.PANIC in b.succ(x))}
        guards = set(flag_load_guards(ix, b, skip_exits))
        unguarded = b.reachable_from(entry, removed=go_calls | guards, include_start=True) & skip_exits
        tests = []
        sym = ctx.sym(b)
        for blk in b.blocks:
            if blk.idx in avoid and blk.term["k"] == "switch":
                sc = C.switch_cond(b, sym, blk.idx)
                if sc and sc[0][0] == "call":
                    tests.append(mir.short(sc[0][1]))
        ctx.check(not unguarded, "%s:Go:refusal-guarded-by-running-flag" % EXEC,
                  "the Go arm skips Uci::go only while the published running flag is still set (the previous search has not reported yet)", b.where(entry),
                  bad_what="the Go arm can return without starting a search on a condition other than `the running flag is still set` (tests on the skip path: %s); the thread of a search that has already printed bestmove may still be alive, so a `go` sent on seeing bestmove is dropped" % sorted(set(tests)),
                  detail="skip exits at lines %s" % [b.blocks[x].term["line"] for x in sorted(unguarded)])
    # bestmove is printed only after the flag was cleared
    it = ctx.body(C.ITER_DEEP)
    emits = bestmove_emits(ix, it)
    ctx.check(len(emits) >= 1, "%s:bestmove-site" % C.ITER_DEEP, "iter_deep prints bestmove", it.where(0), bad_what="no bestmove emission found in iter_deep")
    clears = set()
    for bi, t in it.calls():
        if callee_is(t, "search::Search::stop"):
            clears.add(bi)
        if callee_is(t, C.ATOMIC_STORE) and const_int(t["args"][1]) == 0:
            clears.add(bi)
    for eb in emits:
        reach = it.reachable_from(0, removed=clears, include_start=True)
        ctx.check(eb not in reach, "%s:flag-cleared-before-bestmove" % C.ITER_DEEP,
                  "the running flag is cleared on every path before the bestmove line is printed (so the Go arm's refusal test is already false when the GUI reacts)", it.where(eb),
                  bad_what="bestmove is printed while the running flag may still be set: a `go` sent on seeing bestmove can find the flag set and be refused")


def bestmove_emits(ix, body):
    """Blocks of `body` that output a line built from a format literal containing 'bestmove'."""
    out = []
    sym = mir.Sym(body, ix)
    for bi, t in body.calls():
        if callee_is(t, "logger::Logger::log", "std::io::_print", "*::write_fmt", "*::write_str"):
            e = ("call", "", tuple(sym.operand(a) for a in t["args"]))
            for x in walk(e):
                if isinstance(x, tuple) and x[0] == "const" and isinstance(x[1], str) and "bestmove" in x[1]:
                    out.append(bi)
                    break
    return out


def rule_no_swallow(ctx):
    """uci_loop hands every parsed command except Quit to execute_command; both error paths log."""
    ix = ctx.ix
    b = ctx.body(UCI_LOOP)
    sym = ctx.sym(b)
    parse = [bi for bi, t in b.calls() if callee_is(t, "uci::uci_command::UCICommand::new")]
    execs = {bi for bi, t in b.calls() if callee_is(t, EXEC)}
    ctx.check(len(parse) == 1 and len(execs) >= 1, "%s:parse-and-execute" % UCI_LOOP, "uci_loop parses each line once and calls execute_command", b.where(0),
              bad_what="uci_loop: %d parse call(s), %d execute_command call(s)" % (len(parse), len(execs)))
    if len(parse) != 1 or not execs:
        return
    pb = parse[0]
    # paths from the parse that neither execute nor come back to the loop head through an error log or exit on Quit
    logs = {bi for bi, t in b.calls() if callee_is(t, "logger::Logger::elog", "logger::Logger::log", "std::io::_eprint", "std::io::_print")}
    quit_edges = C.variant_test_edges(ix, b, UCICOMMAND, "Quit")
    quit_guards = set(quit_edges)
    ctx.check(len(quit_guards) >= 1, "%s:quit-test" % UCI_LOOP, "uci_loop tests the parsed command for Quit", b.where(pb),
              bad_what="uci_loop has no test for UCICommand::Quit")
    start = b.blocks[pb].term["target"]
    # a silent drop: reach the parse again (next iteration) or EXIT without execute_command or a log, other than on the Quit edge
    silent = set()
    stack = [start]
    while stack:
        x = stack.pop()
        if x in silent or x in execs or x in logs:
            continue
        silent.add(x)
        if x >= 0:
            for y in b.succ(x):
                if y in quit_edges.get(x, ()):
                    continue
                stack.append(y)
    ctx.check(pb not in silent and mir.EXIT not in silent, "%s:no-silent-drop" % UCI_LOOP,
              "from a parsed line, the next read is reached only through execute_command or an error log; only the Quit edge leaves the loop", b.where(pb),
              bad_what="a parsed command can be dropped: the loop reaches the next read (or returns) without calling execute_command, logging, or testing for Quit")
    # the result of execute_command is not discarded silently: it flows into a call that logs
    for eb in sorted(execs):
        t = b.blocks[eb].term
        nxt = t["target"]
        consumer = b.blocks[nxt].term if nxt is not None else None
        ok = False
        if consumer and consumer["k"] == "call":
            ce = ("call", "", tuple(sym.operand(a) for a in consumer["args"]))
            closures = [x[1] for x in walk(ce) if isinstance(x, tuple) and x[0] == "closure"]
            for ck in closures:
                cb = ix.bodies.get(ck)
                if cb and any(callee_is(tt, "logger::Logger::elog", "logger::Logger::log") for _b, tt in cb.calls()):
                    ok = True
                    ctx.functions.add(ck)
        if not ok and consumer and consumer["k"] == "switch" and nxt is not None:
            # `if let Err(e) = ... { log }` / `match`: from the Err edge, the next read is reached only through a log call
            dty = C.discr_type_of_switch(b, nxt)
            sd = b.single_def(op_place(consumer["discr"])["l"]) if op_place(consumer["discr"]) is not None else None
            on_result = sd is not None and sd[2].get("k") == "discr" and sd[2]["p"]["l"] == t["dest"]["l"]
            if dty and dty.startswith("std::result::Result") and on_result:
                explicit = [a[0] for a in consumer["arms"]]
                err_targets = [a[1] for a in consumer["arms"] if a[0] == 1]
                if 1 not in explicit and 0 in explicit:
                    err_targets.append(consumer["otherwise"])
                verdicts = []
                for et in err_targets:
                    reach = b.reachable_from(et, removed=logs, include_start=True) if et not in logs else set()
                    verdicts.append(pb not in reach and mir.EXIT not in reach)
                ok = bool(verdicts) and all(verdicts)
        ctx.check(ok, "%s:execute-error-logged" % UCI_LOOP, "an Err from execute_command is reported by a logging closure or on the Err edge of a match", b.where(eb),
                  bad_what="the Result of execute_command is not passed to a handler that logs the error")


def rule_poll(ctx):
    """stop is observed at every node: shared with C13.dummy (entry guards of alpha_beta, quiescence)
    plus the re-test after each child in alpha_beta_start and in iter_deep."""
    from . import c13
    ix = ctx.ix
    c13.rule_dummy(ctx)
    # the predicate itself: is_running() is a load of the shared flag, stop() a store of false into it
    ir = ctx.body(C.IS_RUNNING)
    r = ctx.sym(ir).local(0)
    ok = r[0] == "call" and r[1] == C.ATOMIC_LOAD and any(isinstance(x, tuple) and x[0] == "field" and x[-1] == "running" for x in walk(r))
    ctx.check(ok, "is_running:loads-shared-flag", "is_running() returns self.running.load(..)", ir.where(0), bad_what="is_running() returns `%s`, not the shared flag" % expr_str(r)[:100])
    sb = ctx.body("search::Search::stop")
    st = [t for _b, t in sb.calls() if callee_is(t, C.ATOMIC_STORE)]
    ssym = ctx.sym(sb)
    ok = len(st) == 1 and const_int(st[0]["args"][1]) == 0 and any(isinstance(x, tuple) and x[0] == "field" and x[-1] == "running" for x in walk(ssym.operand(st[0]["args"][0])))
    ctx.check(ok, "stop:clears-shared-flag", "Search::stop() stores false into self.running", sb.where(0), bad_what="Search::stop() does not store false into self.running")
    abortable = C.abortable_functions(ix)
    for key in (C.ALPHA_BETA_START, C.ITER_DEEP):
        b = ctx.body(key)
        rc = C.calls_to(ix, b, abortable - {key})
        loops = [bi for bi, t, k in rc if b.in_loop(bi)]
        guards = set(C.guard_blocks(ix, b, "running", set()))
        bad = []
        for bi in loops:
            # from the return of the call, the next call in the loop must not be reachable without passing a running guard
            start = b.blocks[bi].term["target"]
            reach = b.reachable_from(start, removed=guards, include_start=True)
            if bi in reach:
                bad.append(bi)
        ctx.check(loops and not bad, "%s:retest-after-child" % key,
                  "%s re-tests is_running after a child search returns before the same call site can run again (%d call sites in the loop)" % (C.short(key), len(loops)),
                  b.where(loops[0] if loops else 0),
                  bad_what="%s can start another child search without re-testing is_running (lines %s)" % (C.short(key), [b.blocks[x].term["line"] for x in bad]))


def rule_legal_src(ctx):
    """`exactly one legal bestmove`: the legality part is shared with C09.legal-src."""
    from . import c09
    c09.rule_legal_src(ctx)


def rule_handle_writers(ctx):
    """The bookkeeping of the running search in `Uci` (the published flag, the join handle: every field of Uci but the board)
    changes only where a search is started.  The Go arm's "is a search still running?" test and the Stop arm read it; a path
    that takes or clears it without starting a search (a refusal that `take()`s the handle) leaves the running search
    unknown to both: the next `go` starts a second search beside it, a `stop` reaches nothing."""
    ix = ctx.ix
    u = ix.adt("uci::Uci")
    fields = {f["name"] for v in u["variants"] for f in v["fields"]} - {"board"}
    allowed = {UCI_GO, "uci::Uci::new"}
    bad = []
    n = 0
    for b in ix.fn_bodies():
        if not (b.key.startswith("uci::") or (b.parent or "").startswith("uci::")):
            continue
        owner = b.key if b.kind == "fn" else (b.parent or b.key)
        for bi, i, s in b.stmts():
            sites = []
            fp = mir.fields_of(s["lhs"])
            if fp and fp[0] in fields and "uci::Uci" in b.locals[s["lhs"]["l"]]["ty"]:
                sites.append(("store", fp[0]))
            rv = s["rv"]
            if rv.get("k") in ("ref", "rawptr") and (rv.get("mut") or rv.get("k") == "rawptr"):
                fq = mir.fields_of(rv["p"])
                if fq and fq[0] in fields and "uci::Uci" in b.locals[rv["p"]["l"]]["ty"]:
                    sites.append(("&mut", fq[0]))
            for how, fld in sites:
                n += 1
                if owner not in allowed:
                    bad.append((C.short(owner), how, fld, s.get("line")))
    ctx.check(not bad, "uci::Uci:search-bookkeeping-written-only-by-go", "the fields of Uci that describe the running search (%s) are written only in Uci::go and Uci::new (%d sites)" % (", ".join(sorted(fields)), n), None,
              bad_what="the running search's bookkeeping is changed outside Uci::go: %s -- a refused `go` or any other command can make the engine forget a search that is still running" % bad[:4])
    ctx.floor("writes of the search bookkeeping", n, 1)   # two fields on the reference tree, one when flag and handle share a struct


def rule_one_at_a_time(ctx):
    """At most one search thread works on the shared table at a time: a `go` that arrives while the previous search has not
    reported yet is refused (there is such a refusal, and it hangs on the published running flag), and what the refusal
    inspects is actually published by Uci::go - the thread's handle as well as its flag."""
    ix = ctx.ix
    b = ctx.body(EXEC)
    sw, entry = variant_arm(ix, b, UCICOMMAND, "Go")
    go_calls = {bi for bi, t in b.calls() if callee_is(t, UCI_GO)}
    avoid = b.reachable_from(entry, removed=go_calls, include_start=True)
    skip_exits = (err_return_blocks(b) & avoid) or {x for x in avoid if x >= 0 and mir.EXIT in b.succ(x)}
    guards = set(flag_load_guards(ix, b, skip_exits)) if skip_exits else set()
    ctx.check(bool(skip_exits) and bool(guards), "%s:Go:refuses-while-a-search-runs" % EXEC, "a go is refused while the published running flag is still set", b.where(entry),
              bad_what="the Go arm starts a search unconditionally (no refusal that tests the running flag): a second `go` runs a second search thread beside the first, on the same table")
    g = ctx.body(UCI_GO)
    gsym = ctx.sym(g)
    spawns = [(bi, t) for (sb, bi, t, _clo) in spawn_sites(ix) if sb.key == UCI_GO]
    stored = False
    for bi, i, st in g.stmts():
        p = st["lhs"]
        if not p["p"] or p["p"][0] != "*" or g.local_name(p["l"]) != g.local_name(1):
            continue
        v = gsym.rvalue(st["rv"])
        if any(isinstance(x, tuple) and x[0] == "call" and isinstance(x[1], str) and x[1].endswith(("thread::spawn", "Builder::spawn")) for x in walk(v)):
            stored = True
    ctx.check(len(spawns) == 1 and stored, "%s:stores-the-thread-handle" % UCI_GO, "Uci::go keeps the handle of the thread it spawns in a field of Uci (the refusal test looks at it)", g.where(spawns[0][0] if spawns else 0),
              bad_what="Uci::go does not store the handle of the search thread: the refusal in the Go arm, which matches on the stored handle, can never fire")


RULES = [("one-at-a-time", rule_one_at_a_time), ("handle-writers", rule_handle_writers), ("flag-writers", rule_flag_writers), ("publish-order", rule_publish_order), ("stop-arm", rule_stop_arm),
         ("go-reaches-spawn", rule_go_reaches_spawn), ("no-swallow", rule_no_swallow), ("poll", rule_poll), ("legal-src", rule_legal_src)]
# `stop` can only be honoured if the thread that reads it is never parked on anything but the input (C15.nonblocking)
RULES += engine.premise_rules("c15", ["nonblocking", "io-exits"])
# "exactly one legal bestmove": the text of the move (C14.move-text)
RULES += engine.premise_rules("c14", ["move-text"])
# "exactly one legal bestmove": where the printed move comes from, also when a stop arrives before the first iteration ends (C09)
RULES += engine.premise_rules("c09", ["one-site", "legal-src"])


def run(tier):
    return engine.main(
        PROP, "stop never lost, go never dropped", RULES, "other",
        explanation=("All interleavings are covered at once by reducing the property to who-writes-what-in-which-order facts read off the MIR: "
                     "(1) after publication the search thread can only clear the shared flag (no store of true reachable from the spawned closure; created true); "
                     "(2) Uci::go publishes the flag of the same Search before thread::spawn; (3) the Stop arm always clears a published flag and cannot fail; "
                     "(4) the Go arm reaches Uci::go on every path except a refusal control-dependent on the flag still being set, and the flag is cleared before "
                     "bestmove is printed; (5) the command loop hands every parsed command to execute_command or logs; (6) the flag is polled at every node and "
                     "after every child. Decided: lost-stop and dropped-go windows. Not decided: promptness in wall-clock terms, OS scheduling."),
        assumptions=["Relaxed atomic stores/loads of a single bool are coherent (single-location total order)",
                     "the GUI sends `go` only after it has seen `bestmove` of the previous search (UCI protocol); a go sent while a search has not reported yet is refused with a message, which is not a silent drop"],
        tier=tier)
