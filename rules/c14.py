"""C14  Search progress reports are truthful and well-formed  (DESIGN 3, C14)."""
from . import engine, mir
from . import common as C
from .mir import expr_str, walk, callee_is, const_int, op_place, strip_generics, fields_of

PROP = "C14"
LOG_INFO = "search::Search::log_uci_info"
GET_PV = "search::Search::get_pv"
LIMITS_TY = "search::limits::SearchLimits"


def field_reads(body, ty_suffix, field):
    """(block, stmt index or 'term', place) reading `.field` of a place whose base type ends with ty_suffix."""
    out = []

    def scan_place(p, bi, where):
        cur_ty = body.locals[p["l"]]["ty"]
        for e in p["p"]:
            if isinstance(e, dict) and "n" in e:
                if e["n"] == field and cur_ty.replace("&", "").replace("mut ", "").strip().endswith(ty_suffix):
                    out.append((bi, where, p))
                cur_ty = e.get("ty", "")
            elif e == "*":
                cur_ty = cur_ty.lstrip("&").replace("mut ", "").strip()

    def scan_op(o, bi, where):
        p = op_place(o)
        if p is not None:
            scan_place(p, bi, where)
    for bi, i, s in body.stmts():
        rv = s["rv"]
        for o in mir.rv_operands(rv):
            scan_op(o, bi, i)
        if rv.get("k") in ("ref", "discr", "rawptr"):
            scan_place(rv["p"], bi, i)
    for bi, t in body.calls():
        for a in t.get("args", []):
            scan_op(a, bi, "term")
    for blk in body.blocks:
        if blk.term["k"] == "switch" and not blk.cleanup:
            scan_op(blk.term["discr"], blk.idx, "term")
    return out


def mentions_field(e, *path):
    for x in walk(e):
        if isinstance(x, tuple) and x[0] == "field":
            names = x[2:]
            # nested field exprs: collect the full chain
            chain = list(names)
            base = x[1]
            while isinstance(base, tuple) and base[0] in ("field", "deref", "as", "ref"):
                if base[0] == "field":
                    chain = list(base[2:]) + chain
                base = base[1]
            for i in range(len(chain) - len(path) + 1):
                if tuple(chain[i:i + len(path)]) == tuple(path):
                    return True
    return False


def direct_depth_read(b, op, depth=0):
    """The operand is SearchLimits.depth itself (through plain copies / references), not a value computed from it."""
    p = op_place(op)
    if p is None or depth > 6:
        return False
    cur_ty = b.locals[p["l"]]["ty"]
    for e in p["p"]:
        if isinstance(e, dict) and "n" in e:
            if e["n"] == "depth" and cur_ty.replace("&", "").replace("mut ", "").strip().endswith(LIMITS_TY):
                return True
            cur_ty = e.get("ty", "")
        elif e == "*":
            cur_ty = cur_ty.lstrip("&").replace("mut ", "").strip()
    if mir.is_local(p) or all(e == "*" for e in p["p"]):
        sd = b.single_def(p["l"])
        if sd and sd[2].get("k") == "use":
            return direct_depth_read(b, sd[2]["a"], depth + 1)
        if sd and sd[2].get("k") == "ref":
            return direct_depth_read(b, {"copy": sd[2]["p"]}, depth + 1)
    return False


def rule_depth_units(ctx):
    """The nominal depth limit (`go depth N`, SearchLimits.depth) may only bound the iterative-deepening
    loop.  It must never be compared with Info.depth, the ply counter of the tree walk, which also grows
    in quiescence and under check extensions."""
    ix = ctx.ix
    # is Info.depth a ply counter?  (incremented in quiescence / alpha_beta)
    ply_counter_fns = []
    for key in (C.QUIESCENCE, C.ALPHA_BETA, C.ALPHA_BETA_START):
        b = ix.body(key)
        for bi, i, s in b.stmts():
            if fields_of(s["lhs"])[-2:] == ("info", "depth"):
                ply_counter_fns.append(key)
                break
    ctx.check(len(ply_counter_fns) >= 1, "info.depth-is-a-ply-counter", "Info.depth is modified in %s (a per-node ply counter)" % [C.short(k) for k in ply_counter_fns],
              bad_what="Info.depth is no longer modified by the tree walk; the premise of this rule is gone (cannot decide)")
    n_reads = 0
    for b in ix.fn_bodies():
        if b.key.startswith("<" + LIMITS_TY) or b.key.startswith(LIMITS_TY):
            continue  # derived impls and the builder setter
        reads = field_reads(b, LIMITS_TY, "depth")
        if not reads:
            continue
        ctx.functions.add(b.key)
        sym = ctx.sym(b)
        # every comparison in this body that involves the limit
        for bi, i, s in b.stmts():
            rv = s["rv"]
            if rv.get("k") == "binop" and rv["op"] in ("Lt", "Le", "Gt", "Ge", "Eq", "Ne"):
                ea, eb = sym.operand(rv["a"]), sym.operand(rv["b"])
                la, lb = mentions_field(ea, "limits", "depth"), mentions_field(eb, "limits", "depth")
                if not (la or lb):
                    continue
                other = eb if la else ea
                n_reads += 1
                if mentions_field(other, "info", "depth"):
                    ctx.bad("%s:compares-ply-counter-with-depth-limit" % b.key,
                            "%s compares Info.depth (distance of the current node from the root, including quiescence plies and check extensions) with the nominal depth limit: `go depth N` ends the whole search as soon as some line is N plies deep, so depths up to N are never all reported"
                            % C.short(b.key), b.where(line=s.get("line")), detail="%s %s %s" % (expr_str(ea), rv["op"], expr_str(eb)))
                else:
                    ctx.bad("%s:depth-limit-compared:%s" % (b.key, expr_str(other)[:40]),
                            "%s compares the depth limit with `%s`; this use has not been confirmed as an iteration bound (cannot decide)" % (C.short(b.key), expr_str(other)[:60]),
                            b.where(line=s.get("line")))
        # flows into calls: allowed sinks
        for bi, t in b.calls():
            for a in t.get("args", []):
                if not direct_depth_read(b, a):
                    continue
                n_reads += 1
                c = strip_generics(t.get("callee") or "")
                ok = (c.endswith("Option::map") or c.endswith("Option::or") or c.endswith("Option::unwrap_or") or c.endswith("Option::or_else")
                      or c.endswith("RangeInclusive::new") or c == C.SEARCH or c == "search::Search::new" or c.endswith("::clone")
                      or c.endswith("Option::is_some") or c.endswith("Option::is_none") or c.endswith("::fmt") or c.endswith("Option::Some")
                      or c.endswith("thread::spawn") or c.endswith("Option::unwrap_or_default") or c.endswith("::try_from") or c.endswith("::from") or c.endswith("::into"))
                ctx.check(ok, "%s:depth-limit-flows-to:%s" % (b.key, C.short(c)), "the depth limit flows into %s (iteration bound plumbing)" % C.short(c), b.where(bi),
                          bad_what="the depth limit is passed to %s in %s; this use has not been confirmed as an iteration bound (cannot decide)" % (c, C.short(b.key)))
    # the iteration loop is bounded by it
    it = ctx.body(C.ITER_DEEP)
    sym = ctx.sym(it)
    bound_ok = False
    for bi, t in it.calls():
        if callee_is(t, "*RangeInclusive::new") and len(t["args"]) == 2:
            lo = const_int(t["args"][0])
            hi = sym.operand(t["args"][1])
            uses_param = any(isinstance(x, tuple) and x[0] == "arg" for x in walk(hi))
            if lo == 1 and uses_param:
                bound_ok = True
    ctx.check(bound_ok, "%s:loop-bound" % C.ITER_DEEP, "iter_deep iterates over 1..=max where max derives from the max_depth argument", it.where(0),
              bad_what="iter_deep's loop is not RangeInclusive::new(1, <max_depth-derived>)")
    # and Uci::go passes limits.depth as max_depth
    g = ctx.body("uci::Uci::go")
    gs = ctx.sym(g)
    clo = None
    passes = False
    for bi, i, s in g.stmts():
        rv = s["rv"]
        if rv.get("k") == "agg" and rv.get("agg") == "closure":
            cb = ix.bodies.get(rv["closure"])
            if cb and any(callee_is(t, C.SEARCH) for _b, t in cb.calls()):
                for o in rv["ops"]:
                    if mentions_field(gs.operand(o), "depth"):
                        passes = True
    ctx.check(passes, "uci::Uci::go:max-depth-from-limits", "Uci::go hands a value derived from limits.depth to the search thread as max_depth", g.where(0),
              bad_what="Uci::go does not pass limits.depth to the search as its iteration bound")
    ctx.floor("uses of the depth limit", n_reads, 1)   # the loop bound; a pass-through conversion of it may or may not be there


def rule_sequence(ctx):
    """One info line per completed iteration, in iteration order."""
    ix = ctx.ix
    callers = sorted(ix.callers(LOG_INFO))
    ctx.check(callers == [C.ITER_DEEP], "log_uci_info:callers", "log_uci_info is called only from iter_deep", bad_what="log_uci_info is called from %s" % callers)
    b = ctx.body(C.ITER_DEEP)
    sym = ctx.sym(b)
    logs = [bi for bi, t in b.calls() if callee_is(t, LOG_INFO)]
    ctx.check(len(logs) == 1, "%s:one-info-site" % C.ITER_DEEP, "iter_deep has exactly one log_uci_info call site", b.where(logs[0] if logs else 0),
              bad_what="iter_deep has %d log_uci_info call sites" % len(logs))
    if len(logs) != 1:
        return
    lb = logs[0]
    nexts = [bi for bi, t in b.calls() if callee_is(t, "*RangeInclusive<A>>::next", "*::next") and "RangeInclusive" in (t.get("callee") or "")]
    ctx.check(len(nexts) == 1, "%s:range-loop" % C.ITER_DEEP, "the iteration loop advances a RangeInclusive at one site", b.where(0), bad_what="found %d RangeInclusive::next sites" % len(nexts))
    if len(nexts) != 1:
        return
    nb = nexts[0]
    # "reports every depth up to N before its bestmove": the iteration loop is left only when the range is exhausted or an
    # abort test (stop flag, limits) fires - no other way out (a break on a proven mate, a return from a table hit, ...)
    live = b.live_blocks()
    loop = {x for x in live if not b.blocks[x].cleanup and (x == nb or (b.reaches(x, nb) and b.reaches(nb, x)))}
    aborts = C.abort_edges(ix, b)
    other = []
    n_exits = 0
    for x in sorted(loop):
        t = b.blocks[x].term
        for y in b.succ(x):
            if y in loop or b.blocks[y].cleanup:
                continue
            if not any(b.blocks[z].term["k"] == "return" for z in b.reachable_from(y, include_start=True)):
                continue    # a panic path
            n_exits += 1
            if (x, y) in aborts:
                continue
            if t["k"] == "switch":
                dsc = sym.operand(t["discr"])
                if dsc[0] == "discr" and "RangeInclusive" in expr_str(dsc[1]) and "next" in expr_str(dsc[1]):
                    continue
            other.append((x, y))
    ctx.check(n_exits >= 2 and not other, "%s:loop-left-only-at-range-end-or-abort" % C.ITER_DEEP, "the iteration loop is left only when 1..=max_depth is exhausted or an abort test fires (%d exit edges)" % n_exits,
              b.where(other[0][0] if other else nb), bad_what="the iteration loop can also be left at %s: a depth-limited search may stop before reporting every depth up to its limit" % ", ".join(b.where(x) for x, _y in other[:3]))
    # ... and log_uci_info is the only place an `info` line comes from: any other output site whose text starts with `info`
    # (a provisional report in the middle of an iteration, ...) is a line whose depth sequence nothing here decides
    n_sites = 0
    for ob in ix.fn_bodies():
        if ob.key == LOG_INFO:
            continue
        osym = None
        for obi, ot in ob.calls():
            if not callee_is(ot, "search::Search::log", "logger::Logger::log", "*Logger>::log") or len(ot["args"]) < 2:
                continue
            n_sites += 1
            osym = osym or mir.Sym(ob, ix)
            txts = render_texts(osym.operand(ot["args"][1]), ix)
            starts = [x for x in (txts or []) if x.lstrip().startswith("info")]
            if starts:
                ctx.bad("%s:second-info-source" % ob.key, "%s prints `%s`: an info line that does not come from log_uci_info, so iteration order (no gaps, no repeats) and syntax are not decided for it"
                        % (C.short(ob.key), " ".join(starts[0].replace(V, "{}").split())[:80]), ob.where(obi))
    ctx.check(n_sites >= 1, "info-lines:only-from-log_uci_info", "%d other output site(s) examined; none prints an `info` line" % n_sites, b.where(lb), bad_what="no output site found besides log_uci_info (anchor moved)")
    # depth argument of the info line is the loop variable
    d = sym.operand(b.blocks[lb].term["args"][1])
    is_loop_var = d[0] == "field" and d[-1] == "0" and isinstance(d[1], tuple) and d[1][0] == "as" and d[1][2] == "Some" and "next" in expr_str(d[1][1])
    ctx.check(is_loop_var, "%s:info-depth-is-loop-variable" % C.ITER_DEEP, "the depth printed is the loop variable of this iteration", b.where(lb),
              bad_what="the depth argument of log_uci_info is `%s`, not the loop variable" % expr_str(d))
    # at most once per iteration
    again = b.reachable_from(b.blocks[lb].term["target"], removed={nb}, include_start=True)
    ctx.check(lb not in again, "%s:once-per-iteration" % C.ITER_DEEP, "a second info line needs the range to be advanced first", b.where(lb), bad_what="log_uci_info can run twice for one iteration")
    # only for completed iterations: from the child's return, the info call needs both abort tests to have passed
    starts = [bi for bi, t in b.calls() if callee_is(t, C.ALPHA_BETA_START)]
    ctx.check(len(starts) == 1, "%s:one-search-call" % C.ITER_DEEP, "one alpha_beta_start call per iteration", b.where(0), bad_what="%d alpha_beta_start call sites" % len(starts))
    for sb in starts:
        for kind in ("running", "limits"):
            guards = set(C.guard_blocks(ix, b, kind, {lb}))
            reach = b.reachable_from(b.blocks[sb].term["target"], removed=guards, include_start=True)
            ctx.check(lb not in reach, "%s:info-only-after-%s-test" % (C.ITER_DEEP, kind),
                      "the info line is printed only on the edge where the %s abort test is false (completed iterations only)" % kind, b.where(lb),
                      bad_what="an info line can be printed for an iteration that was cut short (the %s test does not guard it)" % kind)
        # and the search call is what precedes the info line in each iteration
        ctx.check(b.dominates(sb, lb), "%s:search-before-info" % C.ITER_DEEP, "the iteration's search dominates its info line", b.where(lb), bad_what="an info line can be printed before the iteration was searched")
    # the search of iteration d uses the same loop variable
    for sb in starts:
        dd = sym.operand(b.blocks[sb].term["args"][2])
        ctx.check(dd == d, "%s:search-depth-is-loop-variable" % C.ITER_DEEP, "alpha_beta_start is called with the same loop variable", b.where(sb),
                  bad_what="alpha_beta_start is called with `%s` but the info line prints `%s`" % (expr_str(dd), expr_str(d)))


def rule_pv_legal(ctx):
    """get_pv: every move pushed to the PV passed is_legal_move on the position it is played in; the walk is undone."""
    ix = ctx.ix
    b = ctx.body(GET_PV)
    sym = ctx.sym(b)
    pushes = [(bi, t) for bi, t in b.calls() if callee_is(t, "*Vec::push", "*Vec::insert", "*Vec::extend", "*Vec::extend_from_slice")]
    ctx.check(len(pushes) == 1, "%s:one-push" % GET_PV, "the PV is extended at one site", b.where(0), bad_what="%d sites extend the PV" % len(pushes))
    makes = [(bi, t) for bi, t in b.calls() if callee_is(t, "board::Board::make_move")]
    unmakes = [(bi, t) for bi, t in b.calls() if callee_is(t, "board::Board::unmake_move")]
    legal = [(bi, t) for bi, t in b.calls() if callee_is(t, "board::Board::is_legal_move")]
    for pb, pt in pushes:
        mv = sym.operand(pt["args"][1])
        ok = False
        for lbk, lt in legal:
            if sym.operand(lt["args"][1]) != mv:
                continue
            # a guard on the result: is_err() true edge / is_ok() false edge must not reach the push
            for blk in b.blocks:
                if blk.term["k"] != "switch" or not b.dominates(blk.idx, pb):
                    continue
                sc = C.switch_cond(b, sym, blk.idx)
                if not sc:
                    continue
                e, neg = sc
                if e[0] == "call" and e[1] in ("std::result::Result::is_err", "std::result::Result::is_ok") and expr_str(mir.strip_copies(e[2][0])).startswith("Board::is_legal_move"):
                    f, tr = C.switch_edges(blk.term)
                    illegal_edge = tr if (e[1].endswith("is_err") != neg) else f
                    if not any(pb in b.reachable_from(x, removed={blk.idx}, include_start=True) for x in illegal_edge) and b.dominates(lbk, blk.idx):
                        ok = True
                if e[0] == "discr" and "is_legal_move" in expr_str(e[1]):
                    # match on the Result: the Err arm must not reach the push
                    for a in blk.term["arms"]:
                        if a[0] == 1 and pb not in b.reachable_from(a[1], removed={blk.idx}, include_start=True):
                            ok = True
        ctx.check(ok, "%s:push-dominated-by-legality" % GET_PV, "the pushed move `%s` passed is_legal_move on the same board before being pushed" % expr_str(mv), b.where(pb),
                  bad_what="a move is pushed to the PV without a dominating successful is_legal_move on the same value: a stale or colliding cache entry would put an illegal move in the PV")
        for mb, mt in makes:
            same = sym.operand(mt["args"][1]) == mv
            ctx.check(same and b.dominates(pb, mb), "%s:make-follows-push" % GET_PV, "the pushed move is the one played on the scratch board", b.where(mb),
                      bad_what="the move played on the scratch board is not the pushed one")
    # balanced: unmake loop iterates over the pushed vector
    ctx.check(len(makes) == 1 and len(unmakes) == 1, "%s:one-make-one-unmake" % GET_PV, "one make_move site (per pushed move) and one unmake_move site", b.where(0),
              bad_what="%d make_move / %d unmake_move sites" % (len(makes), len(unmakes)))
    if unmakes and pushes:
        ub = unmakes[0][0]
        vec_local = root_local(b, pushes[0][1]["args"][0])
        # the loop driving unmake: a slice/vec iterator over the same vector
        drives = False
        for bi, t in b.calls():
            if callee_is(t, "*::into_iter", "*::iter") and t.get("args") and root_local(b, t["args"][0]) == vec_local:
                drives = True
        ctx.check(drives and b.in_loop(ub), "%s:unmake-per-pushed-move" % GET_PV, "unmake_move runs once per element of the pushed vector", b.where(ub),
                  bad_what="the unmake loop is not driven by the vector of pushed moves: the scratch board may not be restored")
    # make and push happen on the scratch board (original_board), not the search board
    for bi, t in makes + unmakes + legal:
        e = sym.operand(t["args"][0])
        ctx.check(mentions_field(e, "original_board"), "%s:%s-on-scratch-board" % (GET_PV, C.short(t["callee"]).split("::")[-1]), "operates on the root copy `original_board`", b.where(bi),
                  bad_what="get_pv mutates `%s` instead of the root copy" % expr_str(e))


def root_local(b, op):
    p = op_place(op)
    for _ in range(8):
        if p is None:
            return None
        if not mir.is_local(p):
            return p["l"]
        sd = b.single_def(p["l"])
        if sd is None or sd[2].get("k") not in ("ref", "use"):
            return p["l"]
        p = sd[2]["p"] if sd[2]["k"] == "ref" else op_place(sd[2]["a"])
    return None


def rule_score_src(ctx):
    """The score of an info line and the best move come from the same completed (or usable partial) result."""
    ix = ctx.ix
    n = 0
    for b in ix.fn_bodies():
        s_blocks = {bi for bi, i, s in b.stmts() if fields_of(s["lhs"])[-2:] == ("info", "best_score")}
        m_blocks = {bi for bi, i, s in b.stmts() if fields_of(s["lhs"])[-2:] == ("info", "best_move")}
        if not (s_blocks or m_blocks):
            continue
        ctx.functions.add(b.key)
        n += len(s_blocks | m_blocks)
        ctx.check(s_blocks == m_blocks, "%s:score-and-move-written-together" % b.key, "best_score and best_move are assigned in the same %d block(s)" % len(s_blocks), b.where(min(s_blocks | m_blocks)),
                  bad_what="best_score and best_move are not always written together (score blocks %s, move blocks %s): the printed score may belong to a different move" % (sorted(s_blocks), sorted(m_blocks)))
    ctx.floor("best_score/best_move write sites", n, 2)
    lb = ctx.body(LOG_INFO)
    sym = ctx.sym(lb)
    reads = any(mentions_field(sym.operand(blk.term["discr"]), "info", "best_score") for blk in lb.blocks if blk.term["k"] == "switch") or \
        any(mentions_field(sym.operand(a), "info", "best_score") for _bi, t in lb.calls() for a in t.get("args", []))
    ctx.check(reads, "%s:score-from-best_score" % LOG_INFO, "the score text is selected by matching on info.best_score", lb.where(0), bad_what="log_uci_info does not read info.best_score")




# ------------------------------------------------------------------------------- C14.move-text

PLY_DISPLAY = "<board::ply::Ply as std::fmt::Display>::fmt"
SQUARE_DISPLAY = "<board::square::Square as std::fmt::Display>::fmt"
TO_NOTATION = "board::ply::Ply::to_notation"


def template_pieces(disp):
    """Decode the byte template of `fmt::Arguments::new` as printed by rustc (b"\x0fInvalid range: \xc0\x02, \xc0\x00"):
    a byte < 0x80 is the length of a literal piece that follows, 0xc0 is a `{}` placeholder, 0x00 ends the template.
    Returns a list of str (literal) and None (placeholder), or None when some other code occurs (a format spec)."""
    import ast
    try:
        raw = ast.literal_eval(disp)
    except (ValueError, SyntaxError):
        return None
    if not isinstance(raw, (bytes, bytearray)):
        return None
    out = []
    i = 0
    while i < len(raw):
        b = raw[i]
        if b == 0:
            return out if i == len(raw) - 1 else None
        if b == 0xC0:
            out.append(None)
            i += 1
        elif b < 0x80:
            out.append(raw[i + 1:i + 1 + b].decode("utf-8", "replace"))
            i += 1 + b
        else:
            return None
    return None


def fmt_event(path_events, start=0):
    """(pieces, [argument expressions]) of the first fmt::Arguments::new event at or after `start`, and its index."""
    for i in range(start, len(path_events)):
        e = path_events[i]
        if e[0] == "call" and e[2].endswith("fmt::Arguments::new") and len(e[3]) == 2:
            tmpl = mir.strip_refs(e[3][0])
            pieces = template_pieces(tmpl[1]) if tmpl[0] == "const" and isinstance(tmpl[1], str) else None
            arr = mir.strip_refs(e[3][1])
            args = []
            if arr[0] == "agg":
                for a in arr[3]:
                    a = mir.strip_refs(a)
                    if a[0] == "call" and a[1].endswith("Argument::new_display") and len(a[2]) == 1:
                        args.append(("display", mir.strip_refs(a[2][0])))
                    else:
                        args.append(("other", a))
            return (pieces, args), i
    return None, None


def rule_move_text(ctx):
    """Every move the engine prints (pv tokens, bestmove) is text of the form <file><rank><file><rank>[qrbn]: the Display of
    a Ply is its to_notation() and nothing else; to_notation is Display(start) + Display(dest) + the promotion letter;
    the Display of a Square on the board is the letter 'a'+file followed by the digit rank+1."""
    from . import cases
    ix = ctx.ix
    # (1) Display for Ply
    b = ctx.body(PLY_DISPLAY)
    c = cases.run(ix, b, {})
    ok = not c.overflow and len(c.paths) >= 1
    shapes = set()
    for p in c.paths:
        if p.end not in ("return", "panic"):
            ok = False
        ev, idx = fmt_event(p.events)
        nxt, _ = fmt_event(p.events, (idx or 0) + 1) if ev else (None, None)
        if ev is None or nxt is not None:
            shapes.add("no single write")
            continue
        pieces, args = ev
        a0 = mir.strip_copies(args[0][1]) if args else None
        good = pieces == [None] and len(args) == 1 and args[0][0] == "display" and a0[0] == "call" and a0[1] == TO_NOTATION and mir.strip_copies(a0[2][0]) in (("deref", ("arg", "self")), ("arg", "self"))
        shapes.add("to_notation" if good else "%s with %s" % (pieces, [expr_str(x[1])[:40] for x in args]))
    ctx.check(ok and shapes == {"to_notation"}, "Ply::Display:is-to_notation", "the Display of a Ply writes `{}` of self.to_notation() on every path (%d path(s))" % len(c.paths), b.where(0),
              bad_what="the Display of a Ply, which the pv and bestmove lines are built from, writes %s: some moves are printed as text that is not a UCI move" % sorted(shapes))
    # (2) to_notation: per promotion case, the pushes
    tb = ctx.body(TO_NOTATION)
    kinds = ["Pawn", "Knight", "Bishop", "Rook", "Queen", "King"]
    want = {"Queen": "q", "Rook": "r", "Bishop": "b", "Knight": "n"}
    col = ("field", ("as", ("field", ("arg", "self"), "promoted_to"), "Some"), "colour")
    for k in [None] + kinds:
        if k is None:
            val = cases.option("None")
        else:
            val = cases.option("Some", [cases.enum_val(ix, "board::piece::Kind", k, [col])])
        cc = cases.run(ix, tb, {"self.promoted_to": val})
        outs = set()
        for p in cc.paths:
            if p.end == "panic":
                outs.add("panic")
                continue
            ev, idx = fmt_event(p.events)
            head = None
            if ev is not None:
                pieces, args = ev
                head = (tuple(pieces or ["?"]), tuple(expr_str(mir.strip_copies(a[1])) for a in args))
            pushes = []
            for e in p.events:
                if e[0] == "call" and e[2].endswith("String::push") and len(e[3]) == 2:
                    ch = e[3][1]
                    pushes.append(chr(ch[1]) if ch[0] == "const" and isinstance(ch[1], int) else "?")
                elif e[0] == "call" and (e[2].endswith("String::push_str") or e[2].endswith("String::insert") or e[2].endswith("String::insert_str") or e[2].endswith("String::clear") or e[2].endswith("String::truncate")):
                    pushes.append("?")
            ret = expr_str(p.ret) if p.ret else None
            outs.add((head, "".join(pushes), "notation" if ret and "format" in ret or ret in ("notation",) else ret))
        label = k or "none"
        if k in want or k is None:
            exp_push = want.get(k, "")
            ok = len(outs) == 1 and "panic" not in outs
            if ok:
                head, pushes, ret = next(iter(outs))
                ok = head == ((None, None), ("self.start", "self.dest")) and pushes == exp_push
            ctx.check(ok, "to_notation:%s" % label, "promotion %s: `{start}{dest}` followed by %r on every path" % (label, exp_push), tb.where(0),
                      bad_what="to_notation for promotion %s yields %s (expected Display(start), Display(dest), then %r)" % (label, sorted(map(str, outs)), exp_push))
        else:
            ctx.check(outs == {"panic"} or (len(outs) == 1 and next(iter(outs))[1] == ""), "to_notation:%s" % label, "promotion to %s is refused (cannot be generated)" % k, tb.where(0),
                      bad_what="to_notation for an impossible promotion to %s yields %s" % (k, sorted(map(str, outs))))
    # (3) Display for Square, for the 64 squares of the board
    sb = ctx.body(SQUARE_DISPLAY)
    bad = []
    for r in range(8):
        for f in range(8):
            sc = cases.run(ix, sb, {"*self.rank": ("const", r, "u8"), "*self.file": ("const", f, "u8")})
            if not (len(sc.paths) == 1 and sc.paths[0].end == "return"):
                # the square as a whole value, so that predicates taking it (`self.is_on_board()`) fold as well
                whole = ("agg", "board::square::Square", "Square", (("const", r, "u8"), ("const", f, "u8")), ("rank", "file"))
                sc = cases.run(ix, sb, {sb.local_name(1): ("ref", whole) if sb.locals[1]["ty"].startswith("&") else whole})
            txt = None
            if len(sc.paths) == 1 and sc.paths[0].end == "return":
                ev, idx = fmt_event(sc.paths[0].events)
                if ev is not None and ev[0] is not None:
                    pieces, args = ev
                    vals = []
                    for a in args:
                        v = mir.strip_copies(a[1])
                        if v[0] == "const" and isinstance(v[1], int):
                            vals.append(chr(v[1]) if v[2] == "char" else str(v[1]))
                        else:
                            vals.append("?")
                    it = iter(vals)
                    txt = "".join(next(it, "?") if pc is None else pc for pc in pieces)
            if txt != "abcdefgh"[f] + str(r + 1):
                bad.append(((r, f), txt))
    ctx.check(not bad, "Square::Display:algebraic", "the Display of each of the 64 squares is its algebraic name (file letter, rank digit)", sb.where(0),
              bad_what="the Display of a Square is not its algebraic name for %s" % bad[:4])
    # (4) the pv tokens and the bestmove are produced by that Display
    for key, what in ((C.ITER_DEEP, "bestmove"), ("search::Search::log_uci_info", "pv")):
        fb = ctx.body(key)
        used = False
        for bb in [fb] + ix.closures_of(key):
            for _bi, t in bb.calls():
                if callee_is(t, "*ToString>::to_string", "*ToString::to_string") and any("Ply" in x for x in (t.get("substs") or [])):
                    used = True
                if callee_is(t, TO_NOTATION):
                    used = True
                # `.map(ToString::to_string)` over an iterator of Ply: the function is passed as a value
                for a in t.get("args", []):
                    fnv = (a.get("const") or {}).get("fn") or ""
                    if fnv.endswith("ToString>::to_string") and any("board::ply::Ply" in x for x in (t.get("substs") or [])):
                        used = True
        ctx.check(used, "%s:%s-text-from-Ply-Display" % (key, what), "the %s text is the Display / to_notation of a Ply" % what, fb.where(0),
                  bad_what="the %s text is not produced by Ply's Display or to_notation (cannot decide its syntax)" % what)


# ------------------------------------------------------------------------------- C14.info-syntax

INFO_VALUE_KEYS = {"depth", "seldepth", "nodes", "time", "nps", "hashfull", "tbhits", "multipv", "currmovenumber", "cpuload", "currmove"}
V = "\x01"


def render_texts(e, ix=None, depth=0):
    """All texts a string-valued expression can evaluate to, with every non-literal part replaced by the marker V; None when
    the expression is not built from format!/String::new/literals/Option combinators over such in a way this reader understands."""
    if depth > 12:
        return None
    e = mir.strip_copies(e)
    if e[0] == "const" and isinstance(e[1], str):
        return [e[1]]
    if e[0] == "fn" and e[1].endswith("String::new"):
        return [""]
    if e[0] == "call" and isinstance(e[1], str):
        c = e[1]
        if c.endswith("String::new") and not e[2]:
            return [""]
        if c.endswith("hint::must_use") or c.endswith("String::as_str") or c.endswith("::deref") or c.endswith("::to_string") or c.endswith("::to_owned") or c.endswith("String::from"):
            return render_texts(e[2][0], ix, depth + 1) if e[2] else None
        if c.endswith("fmt::format") and e[2]:
            return render_texts(e[2][0], ix, depth + 1)
        if ix is not None and (c.endswith("Option::map_or_else") or c.endswith("Option::map_or")) and len(e[2]) == 3:
            # opt.map_or_else(default_fn, |x| text): either the default or one of the texts the closure can return
            dflt = e[2][1]
            if c.endswith("map_or_else"):
                d = render_texts(dflt, ix, depth + 1) if dflt[0] == "fn" else closure_texts(ix, dflt, depth + 1)
            else:
                d = render_texts(dflt, ix, depth + 1)
            cl = closure_texts(ix, e[2][2], depth + 1)
            if d is None or cl is None:
                return None
            return sorted(set(d) | set(cl))
        if c.endswith("fmt::Arguments::new") and len(e[2]) == 2:
            tmpl = mir.strip_refs(e[2][0])
            pieces = template_pieces(tmpl[1]) if tmpl[0] == "const" and isinstance(tmpl[1], str) else None
            arr = mir.strip_refs(e[2][1])
            if pieces is None or arr[0] != "agg":
                return None
            args = list(arr[3])
            outs = [""]
            for pc in pieces:
                if pc is not None:
                    outs = [o + pc for o in outs]
                    continue
                if not args:
                    return None
                a = mir.strip_refs(args.pop(0))
                inner = None
                if a[0] == "call" and a[1].endswith("Argument::new_display") and len(a[2]) == 1:
                    x = mir.strip_copies(a[2][0])
                    # a String built in the same function is expanded; anything else is a value
                    if x[0] == "call" and (x[1].endswith("fmt::format") or x[1].endswith("hint::must_use") or x[1].endswith("String::new")
                                           or x[1].endswith("Option::map_or_else") or x[1].endswith("Option::map_or")):
                        inner = render_texts(x, ix, depth + 1)
                alts = [V] if inner is None else inner
                outs = [o + t for o in outs for t in alts]
                if len(outs) > 4096:
                    return None
            return outs
        if c.endswith("fmt::Arguments::from_str") or c.endswith("Arguments::from_str_nonconst"):
            return render_texts(e[2][0], ix, depth + 1) if e[2] else None
    return None


def closure_texts(ix, clo, depth):
    """The texts a closure returning a String can produce (one per path of its body)."""
    from . import cases
    if not (isinstance(clo, tuple) and clo[0] == "closure" and clo[1] in ix.bodies):
        return None
    run = cases.run(ix, ix.bodies[clo[1]], {})
    if run.overflow:
        return None
    out = set()
    for p in run.paths:
        if p.end != "return" or p.ret is None:
            continue
        ts = render_texts(p.ret, ix, depth + 1)
        if ts is None:
            return None
        out |= set(ts)
    return sorted(out) if out else None


def render_text(e, depth=0):
    ts = render_texts(e, None, depth)
    return ts[0] if ts and len(ts) == 1 else None


def info_line_error(text):
    """None if `text` (V = some value) is a well-formed UCI info line, else what is wrong."""
    toks = text.split()
    if not toks or toks[0] != "info":
        return "does not start with `info`"
    i = 1
    n = len(toks)

    def is_val(t):
        return t == V or t == "-" + V

    while i < n:
        t = toks[i]
        if t in INFO_VALUE_KEYS:
            if i + 1 >= n or not is_val(toks[i + 1]):
                return "`%s` is not followed by a value" % t
            i += 2
        elif t == "score":
            if i + 2 >= n + 0 and not (i + 2 < n + 1):
                return "`score` without cp/mate"
            if i + 1 >= n or toks[i + 1] not in ("cp", "mate"):
                return "`score` is not followed by cp or mate"
            if i + 2 >= n or not is_val(toks[i + 2]):
                return "`score %s` is not followed by a value" % toks[i + 1]
            i += 3
            if i < n and toks[i] in ("lowerbound", "upperbound"):
                i += 1
        elif t == "pv":
            i += 1
            while i < n and is_val(toks[i]):
                i += 1
        elif t == "string":
            return None
        elif is_val(t):
            return "a value without a keyword in front of it"
        else:
            return "`%s` is not a UCI info keyword" % t.replace(V, "{}")
    return None


def rule_info_syntax(ctx):
    """Every line log_uci_info can print is `info` followed by keyword/value groups of the UCI grammar, whatever the
    combination of optional parts (seldepth, time, nps, the three score forms)."""
    from . import cases
    ix = ctx.ix
    b = ctx.body("search::Search::log_uci_info")
    c = cases.run(ix, b, {})
    ctx.check(not c.overflow and c.paths and not any(p.end == "cut" for p in c.paths), "log_uci_info:paths-enumerated", "%d path(s) through log_uci_info" % len(c.paths), b.where(0),
              bad_what="log_uci_info has a loop or too many paths to enumerate (cannot decide)")
    seen = {}
    n_lines = 0
    for p in c.paths:
        if p.end != "return":
            continue
        logs = [e for e in p.events if e[0] == "call" and (e[2].endswith("Search::log") or e[2].endswith("Logger::log"))]
        if len(logs) != 1:
            seen["<%d log calls on one path>" % len(logs)] = "exactly one line per call is expected"
            continue
        txts = render_texts(logs[0][3][1], ix)
        n_lines += 1
        if txts is None:
            seen["<unreadable>"] = "the line is not built by format! from literals and values (cannot decide)"
            continue
        for txt in txts:
            seen[" ".join(txt.replace(V, "{}").split())] = info_line_error(txt)
    for line, err in sorted(seen.items()):
        ctx.check(err is None, "log_uci_info:line:%s" % line[:70], "`%s` is a well-formed info line" % line, b.where(0),
                  bad_what="log_uci_info can print `%s`: %s" % (line, err))
    ctx.floor("info line shapes", len(seen), 4)


def rule_line_atomic(ctx):
    """A logged line reaches stdout as one write of `<text>\\n`: the search thread and the input thread both log, and two
    writes per line (text, then newline) can be interleaved into `...pv e2e4readyok`."""
    ix = ctx.ix
    b = ctx.body("logger::Logger::log")
    sym = ctx.sym(b)
    outs = []
    other_io = []
    for bi, t in b.calls():
        c = strip_generics(t.get("callee") or "")
        if c == "std::io::_print":
            outs.append((bi, t))
        elif c.startswith("std::io::") or "::write" in c or "Write>" in c or c.endswith("::flush") or "stdout" in c.lower():
            other_io.append((C.short(c), t.get("line")))
    ok = len(outs) == 1 and not other_io
    pieces = None
    if ok:
        a = sym.operand(outs[0][1]["args"][0])
        tm = [x for x in walk(a) if isinstance(x, tuple) and x[0] == "const" and isinstance(x[2], str) and x[2].startswith("&[u8")]
        pieces = template_pieces(tm[0][1]) if len(tm) == 1 and isinstance(tm[0][1], str) else None
        ok = pieces == [None, "\n"] and not any(b.in_loop(bi) for bi, _t in outs)
    ctx.check(ok, "Logger::log:one-write-per-line", "Logger::log prints `{message}\\n` with one print call (stdout's lock is held across text and newline)", b.where(outs[0][0] if outs else 0),
              bad_what="Logger::log does not emit a line as one `{}\\n` print (print calls: %d, other stdout calls: %s, template: %s): lines of two threads can be spliced into each other" % (len(outs), other_io[:4], pieces))


RULES = [("line-atomic", rule_line_atomic), ("depth-units", rule_depth_units), ("sequence", rule_sequence), ("pv-legal", rule_pv_legal), ("score-src", rule_score_src), ("move-text", rule_move_text), ("info-syntax", rule_info_syntax)]
# "a principal variation that is a sequence of legal moves" rests on the legality filter
RULES += engine.movegen_premises()
# the reported score / move of an iteration is what its completed root search recorded
RULES += engine.premise_rules("c11", ["root-result"])
# "a search limited to depth N": the N the loop is bounded by is the N the GUI sent
RULES += engine.premise_rules("c09", ["go-keywords"])


def run(tier):
    return engine.main(
        PROP, "search progress reports", RULES, "other",
        explanation=("Decides the structural clauses: (1) the nominal depth limit only bounds the iterative-deepening loop and is never compared with the per-node ply counter, "
                     "so `go depth N` runs iterations 1..=N; (2) exactly one info line per iteration, printed with the loop variable, only on the edge where both abort tests "
                     "are false, at most once per range advance, after that iteration's search; the loop is left only when 1..=max_depth is exhausted or an abort test fires, and no other output site prints a line starting with `info`: depths are reported in order without gaps or repeats and only when completed; "
                     "(3) every PV move passed is_legal_move on the position it is played in and the scratch board is restored; (4) score and best move are written together. "
                     "(5) the text of a move (Display = to_notation, 64 square names, promotion letters) and every shape of the info line against the UCI grammar, by per-case propagation; (6) a logged line is "
                     "one `{}\\n` print. Not decided: correctness of the mate distance."),
        assumptions=["RangeInclusive::new(1, n) yields 1,2,..,n in order", "Board::is_legal_move is exact (C01)"],
        tier=tier)
