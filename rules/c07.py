"""C07  Loading a FEN yields exactly the position the FEN describes  (DESIGN 3, C07)."""
import os
import sys

from . import engine, mir, tables
from . import common as C
from . import c04
from .c06 import ceval
from .mir import expr_str, walk, callee_is, const_int, op_place, strip_generics, fields_of

sys.path.insert(0, os.path.dirname(os.path.dirname(os.path.abspath(__file__))))
from oracles import geometry as G  # noqa: E402

PROP = "C07"
SER = "board::serialize::"
FROM_FEN = "board::serialize::<impl board::Board>::from_fen"
BB = "board::boardbuilder::BoardBuilder::"
PBB = "board::piece_bitboards::builder::Builder::"
LETTER = {"P": ("Pawn", "White"), "K": ("King", "White"), "Q": ("Queen", "White"), "R": ("Rook", "White"), "B": ("Bishop", "White"), "N": ("Knight", "White"),
          "p": ("Pawn", "Black"), "k": ("King", "Black"), "q": ("Queen", "Black"), "r": ("Rook", "Black"), "b": ("Bishop", "Black"), "n": ("Knight", "Black")}
SETTER = {"pawns": "Pawn", "king": "King", "queens": "Queen", "rooks": "Rook", "bishops": "Bishop", "knights": "Knight"}


def _acc(e):
    """Name of an accumulator: a local variable, or a field of a local struct of accumulators."""
    if e[0] == "var":
        return e[1]
    if e[0] == "field" and e[1][0] == "var":
        return expr_str(e)
    return None


def rule_letters(ctx):
    """piece_placement: letter -> accumulator -> BoardBuilder setter of that kind and colour."""
    ix = ctx.ix
    b = ctx.body(SER + "piece_placement")
    sym = ctx.sym(b)
    letter_to_local = {}
    for bi, i, s in b.stmts():
        rv = s["rv"]
        if rv.get("k") == "agg" and rv.get("variant") == "Bitboard":
            v = sym.rvalue(rv)
            tgt = mir.strip_refs(v[3][0])
            cons = C.constraints_for(ix, b, sym, bi)
            chars = [c for c in cons if c[0].endswith("as Some).0") and len(c[1]) == 1]
            if chars and _acc(tgt):
                letter_to_local[chr(int(next(iter(chars[-1][1]))))] = _acc(tgt)
    local_to_kc = {}
    for bi, t in b.calls():
        c = strip_generics(t.get("callee") or "")
        if c.startswith(BB) and c.split("::")[-1] in SETTER:
            col = sym.operand(t["args"][1])
            val = sym.operand(t["args"][2])
            val = mir.strip_copies(val)
            if col[0] == "agg" and _acc(val):
                local_to_kc.setdefault(_acc(val), []).append((SETTER[c.split("::")[-1]], col[2]))
    for ch, want in sorted(LETTER.items()):
        loc = letter_to_local.get(ch)
        got = local_to_kc.get(loc)
        ctx.check(got == [want], "letter:%s" % ch, "'%s' accumulates into `%s`, which is handed to the %s setter for %s" % (ch, loc, want[0], want[1]), b.where(0),
                  bad_what="FEN letter '%s' ends up as %s (via `%s`); the FEN standard says %s %s" % (ch, got, loc, want[1], want[0]))
    extra = sorted(set(letter_to_local) - set(LETTER))
    ctx.check(not extra, "letters:no-extra", "no other letter places a piece", b.where(0), bad_what="extra piece letters %s" % extra)
    # accumulators start at 0 and every setter is called exactly once
    n_set = sum(len(v) for v in local_to_kc.values())
    ctx.check(n_set == 12 and len(local_to_kc) == 12, "letters:twelve-setters", "12 distinct accumulators feed 12 setter calls", b.where(0), bad_what="%d setter calls over %d accumulators" % (n_set, len(local_to_kc)))


def rule_bijection(ctx):
    """One (Kind, Colour) <-> bitboard-field bijection across builder setters, add/remove, counting, lookup, build, start positions."""
    ix = ctx.ix
    n = 0
    n += tables.check_kc_table(ctx, "board::piece_bitboards::PieceBitboards::add_piece", "PieceBitboards::add_piece")
    n += tables.check_kc_table(ctx, "board::piece_bitboards::PieceBitboards::remove_piece", "PieceBitboards::remove_piece")
    n += tables.check_kc_table(ctx, "board::piece_bitboards::PieceBitboards::get_piece_count", "PieceBitboards::get_piece_count")
    n += tables.check_kc_table(ctx, PBB + "add_piece", "builder add_piece")
    # colour-only setters of the bitboard builder, and BoardBuilder forwarding to the same-named one
    for name, kind in SETTER.items():
        t, b = tables.colour_table(ix, PBB + name)
        ctx.functions.add(PBB + name)
        for col in tables.COLOURS:
            want = tables.oracle_field(kind, col)
            n += 1
            ctx.check(t.get(col) == {want}, "builder::%s:%s" % (name, col), "Builder::%s(%s, v) sets %s" % (name, col, want), b.where(0), bad_what="Builder::%s(%s, v) sets %s (expected %s)" % (name, col, sorted(t.get(col) or []), want))
        fb = ctx.body(BB + name)
        fsym = ctx.sym(fb)
        fw = [t2 for _b, t2 in fb.calls() if strip_generics(t2.get("callee") or "") == PBB + name]
        ok = len(fw) == 1 and fsym.operand(fw[0]["args"][1]) == ("arg", "color") and fsym.operand(fw[0]["args"][2]) == ("arg", "value")
        ctx.check(ok, "BoardBuilder::%s:forwards" % name, "BoardBuilder::%s forwards (color, value) to the bitboard builder's %s" % (name, name), fb.where(0), bad_what="BoardBuilder::%s does not forward to Builder::%s with the same arguments" % (name, name))
    # get_piece_kind: each returned kind is selected by its own bitboard (and its colour's union)
    gk = ctx.body("board::piece_bitboards::PieceBitboards::get_piece_kind")
    from . import cases
    run = cases.run(ix, gk, {})
    rows = 0
    seen_rows = {}
    allf = tables.PIECE_FIELDS | {"white_pieces", "black_pieces"}
    for p in run.paths:
        if p.end != "return" or p.ret is None or not (p.ret[0] == "agg" and p.ret[2] == "Some"):
            continue
        kd = p.ret[3][0]
        if not (kd[0] == "agg" and kd[3] and kd[3][0][0] == "agg"):
            seen_rows[("?", expr_str(kd)[:40])] = None
            continue
        kind, col = kd[2], kd[3][0][2]
        pos = set()
        for cd in p.conds:
            d, t = cases.cond_truth(cd)
            if d[0] == "call" and d[1].endswith("Bitboard::is_empty") and t is False:
                txt = expr_str(d)
                pos |= {f for f in allf if ("." + f) in txt}
        seen_rows.setdefault((col, kind), set())
        seen_rows[(col, kind)] = pos if not seen_rows[(col, kind)] else seen_rows[(col, kind)] & pos if pos else seen_rows[(col, kind)]
    for (col, kind), pos in sorted(seen_rows.items(), key=str):
        rows += 1
        n += 1
        if pos is None:
            ctx.bad("get_piece_kind:unreadable-row:%s" % kind, "get_piece_kind returns `%s`, not a constant kind and colour (cannot decide)" % kind, gk.where(0))
            continue
        want = {tables.oracle_field(kind, col), "%s_pieces" % col.lower()}
        ok = tables.oracle_field(kind, col) in pos and pos <= want
        ctx.check(ok, "get_piece_kind:%s-%s" % (col, kind), "get_piece_kind returns %s(%s) when its mask hits %s" % (kind, col, sorted(pos)), gk.where(0),
                  bad_what="get_piece_kind returns %s(%s) on a hit in %s (expected %s)" % (kind, col, sorted(pos), sorted(want)))
    ctx.check(not run.overflow and not any(p.end == "cut" for p in run.paths), "get_piece_kind:paths-enumerated", "%d path(s) of get_piece_kind enumerated" % len(run.paths), gk.where(0),
              bad_what="get_piece_kind has a loop or too many paths: its table cannot be read off (cannot decide)")
    ctx.check(rows == 12, "get_piece_kind:twelve-rows", "get_piece_kind distinguishes 12 pieces", gk.where(0), bad_what="get_piece_kind has %d Some(..) returns" % rows)
    # Builder::build copies each field to the like-named bitboard; unions are complete
    bd = ctx.body(PBB + "build")
    bsym = ctx.sym(bd)
    r = bsym.local(0)
    if r[0] == "agg" and r[1].endswith("PieceBitboards"):
        f = dict(zip(r[4], r[3]))
        for name in sorted(tables.PIECE_FIELDS):
            e = f.get(name)
            src = [x for x in walk(e) if isinstance(x, tuple) and x[0] == "field"] if e else []
            n += 1
            ctx.check(bool(src) and all(x[-1] == name for x in src), "build:%s" % name, "PieceBitboards.%s = Bitboard::new(self.%s)" % (name, name), bd.where(0), bad_what="PieceBitboards.%s is built from %s" % (name, [x[-1] for x in src]))
        for union, col in (("white_pieces", "white"), ("black_pieces", "black")):
            src = {x[-1] for x in walk(f.get(union)) if isinstance(x, tuple) and x[0] == "field"}
            want = {tables.oracle_field(k, col.capitalize()) for k in tables.KINDS}
            ctx.check(src == want, "build:%s" % union, "%s is the union of the six %s bitboards" % (union, col), bd.where(0), bad_what="%s is the union of %s" % (union, sorted(src)))
        src = {x[-1] for x in walk(f.get("all_pieces")) if isinstance(x, tuple) and x[0] == "field"}
        ctx.check(src == tables.PIECE_FIELDS, "build:all_pieces", "all_pieces is the union of all twelve", bd.where(0), bad_what="all_pieces is the union of %s" % sorted(src))
    else:
        ctx.bad("build:unreadable", "Builder::build does not return a PieceBitboards literal", bd.where(0))
    # recompute_combinations keeps the unions complete
    rc = ctx.body("board::piece_bitboards::PieceBitboards::recompute_combinations")
    rsym = ctx.sym(rc)
    for bi, i, s in rc.stmts():
        fp = fields_of(s["lhs"])
        if fp in (("white_pieces",), ("black_pieces",), ("all_pieces",)):
            src = {x[-1] for x in walk(rsym.rvalue(s["rv"])) if isinstance(x, tuple) and x[0] == "field"}
            want = {tables.oracle_field(k, fp[0].split("_")[0].capitalize()) for k in tables.KINDS} if fp[0] != "all_pieces" else {"white_pieces", "black_pieces"}
            ctx.check(src == want, "recompute:%s" % fp[0], "%s is recomputed from %s" % (fp[0], sorted(src)), rc.where(bi), bad_what="%s is recomputed from %s (expected %s)" % (fp[0], sorted(src), sorted(want)))
    # the two hard-coded start positions
    for key in (PBB + "default", "board::piece_bitboards::PieceBitboards::default"):
        if not ix.has(key):
            continue
        sb = ctx.body(key)
        ssym = ctx.sym(sb)
        r = ssym.local(0)
        if r[0] == "agg":
            f = dict(zip(r[4], r[3]))
            for name, want in sorted(G.START.items()):
                got = ceval(f.get(name)) if f.get(name) is not None else None
                n += 1
                ctx.check(got == want, "%s:%s" % (C.short(key), name), "start position: %s = 0x%016x" % (name, want), sb.where(0), bad_what="start position %s in %s is %s, the standard start has 0x%016x" % (name, key, hex(got) if got is not None else None, want))
    ctx.floor("bijection rows", n, 60)     # 100+ on the reference tree; a constructor that delegates to another legitimately removes a table


def blk_is_drop(t):
    c = t.get("callee") or ""
    return "drop_in_place" in c or c.endswith("::drop")


def rule_fields(ctx):
    """from_fen feeds FEN fields 0..5 to placement, side, castling, en passant, half-move clock, full-move number, in that order."""
    ix = ctx.ix
    b = ctx.body(FROM_FEN)
    sym = ctx.sym(b)
    want = [("piece_placement", 0, None), ("current_turn", 1, None), ("castling_rights", 2, None), ("en_passant_file", 3, None), ("halfmove_clock", 4, "0"), ("fullmove_counter", 5, "1")]
    got = {}
    order = []
    for bi, t in b.calls():
        c = strip_generics(t.get("callee") or "")
        if c.startswith(SER) and c.split("::")[-1] in [w[0] for w in want] and len(t["args"]) == 2:
            e = sym.operand(t["args"][1])
            idx = None
            default = None
            for x in walk(e):
                if isinstance(x, tuple) and x[0] == "call" and (x[1].endswith("Index<I>>::index") or x[1].endswith("]>::get")) and len(x[2]) == 2:
                    idx = ceval(x[2][1])
                if isinstance(x, tuple) and x[0] == "call" and x[1].endswith("Option::unwrap_or"):
                    d = [y[1] for y in walk(x[2][1]) if isinstance(y, tuple) and y[0] == "const" and isinstance(y[1], str)]
                    default = d[0] if d else None
            got[c.split("::")[-1]] = (idx, default)
            order.append((bi, c.split("::")[-1]))
    for name, idx, default in want:
        ctx.check(got.get(name) == (idx, default), "field:%s" % name, "%s parses FEN field %d%s" % (name, idx, " (default \"%s\")" % default if default else ""), b.where(0),
                  bad_what="%s is given FEN field %s with default %s (expected field %d, default %s)" % (name, got.get(name, (None,))[0], got.get(name, (None, None))[1], idx, default))
    names = [n for _b, n in sorted(order)]
    hist = [bi for bi, t in b.calls() if callee_is(t, SER + "history")]
    build = [bi for bi, t in b.calls() if callee_is(t, BB + "build")]
    ok = len(hist) == 1 and len(build) == 1 and all(b.dominates(x, hist[0]) for x, _n in order) and b.dominates(hist[0], build[0])
    ctx.check(ok, "fields:history-then-build", "history() runs after all six field parsers and before build()", b.where(0), bad_what="from_fen does not run history() after the parsers and before build()")
    # nothing else gets its hands on the builder between BoardBuilder::new() and build(): a step that revisits a field after
    # its parser (drops an en-passant file "nobody can use", clamps a clock) makes the loaded position differ from the FEN
    allowed = {SER + w[0] for w in want} | {SER + "history", BB + "build", BB + "new", BB + "default", BB + "construct_empty_board", "board::Board::builder"}
    others = []
    for bi, t in b.calls():
        takes = False
        for a in t.get("args", []):
            q = op_place(a)
            if q is not None and "boardbuilder::BoardBuilder" in b.locals[q["l"]]["ty"]:
                takes = True
        c = strip_generics(t.get("callee") or "")
        if (takes or "boardbuilder::BoardBuilder" in t["dest"].get("ty", "")) and c not in allowed and not c.startswith("std::") and not c.startswith("core::"):
            others.append((C.short(c), t.get("line")))
    ctx.check(not others, "fields:only-the-parsers-touch-the-builder", "in from_fen the builder goes through the six field parsers, history() and build(), and nothing else", b.where(0),
              bad_what="from_fen also passes the builder to %s: a field is revisited after its parser stored what the FEN says" % others[:4])
    # ... and the board that build() returns is the board from_fen returns: nothing is patched up afterwards
    r = mir.strip_copies(sym.local(0))
    direct = r[0] == "call" and r[1] == BB + "build"
    later = [(fields_of(s["lhs"]), s.get("line")) for bi, i, s in b.stmts() if build and s["lhs"]["p"] and (bi in b.reachable_from(build[0]))
             and "board::Board" in b.locals[s["lhs"]["l"]]["ty"]]
    later_calls = [(C.short(strip_generics(t.get("callee") or "")), t.get("line")) for bi, t in b.calls() if build and bi in b.reachable_from(build[0]) and not blk_is_drop(t)]
    ctx.check(direct and not later and not later_calls, "fields:returns-what-build-built", "from_fen returns the value of build() unchanged", b.where(build[0] if build else 0),
              bad_what="from_fen changes the board after build() (%s): the loaded position is not the one the builder described, and history's synthetic record no longer matches it"
              % ((later + later_calls)[:4] or expr_str(r)[:80]))
    # each parser's result is threaded into the next (builder = f(builder, ..))
    # the small parsers: clock / counter setters receive the parsed number
    for fn, setter in (("halfmove_clock", "halfmove_clock"), ("fullmove_counter", "fullmove_counter")):
        pb = ctx.body(SER + fn)
        r = ctx.sym(pb).local(0)
        ok = r[0] == "call" and r[1] == BB + setter and parsed_number_of(r[2][1], "str")
        ctx.check(ok, "parser:%s" % fn, "%s = builder.%s(str.parse())" % (fn, setter), pb.where(0), bad_what="%s returns `%s`" % (fn, expr_str(r)[:100]))


def rule_castle_letters(ctx):
    ix = ctx.ix
    b = ctx.body(SER + "castling_rights")
    sym = ctx.sym(b)
    resets = {}
    sets = {}
    for bi, t in b.calls():
        if not callee_is(t, BB + "castling"):
            continue
        kind = c04.kind_of(sym.operand(t["args"][1]))
        st = c04.status_of(sym.operand(t["args"][2]))
        cons = C.constraints_for(ix, b, sym, bi)
        chars = [c for c in cons if c[0].endswith("as Some).0") and len(c[1]) == 1]
        if chars:
            sets[chr(int(next(iter(chars[-1][1]))))] = (kind, st)
        elif not b.in_loop(bi):
            resets[kind] = st
    ctx.check(resets == {k: "Unavailable" for k in c04.KIND_FIELD}, "castle:reset-all-four", "all four rights are first set to Unavailable", b.where(0), bad_what="initial resets: %s" % resets)
    want = {"K": ("WhiteKingside", "Available"), "Q": ("WhiteQueenside", "Available"), "k": ("BlackKingside", "Available"), "q": ("BlackQueenside", "Available")}
    for ch, w in want.items():
        ctx.check(sets.get(ch) == w, "castle:letter:%s" % ch, "'%s' makes %s Available" % (ch, w[0]), b.where(0), bad_what="castling letter '%s' sets %s (FEN: %s)" % (ch, sets.get(ch), w))
    ctx.check(set(sets) == set(want), "castle:no-extra-letters", "only K, Q, k, q grant rights", b.where(0), bad_what="letters granting rights: %s" % sorted(sets))
    # BoardBuilder::castling writes the field of the kind it is given
    table, cb = castling_setter_table(ix)
    ok = all(table.get(k) == {(f, ("arg", "value"))} for k, f in c04.KIND_FIELD.items())
    ctx.check(ok, "BoardBuilder::castling:table", "BoardBuilder::castling(kind, value) writes `value` into the field of that kind and no other", cb.where(0),
              bad_what="BoardBuilder::castling writes %s" % {k: sorted((f, expr_str(v) if v else None) for f, v in st) for k, st in table.items()})


def castling_setter_table(ix, key=None):
    """{kind: (field written, value written)} of BoardBuilder::castling(kind, value), per castling kind by per-case
    constant propagation (the field may be selected by a match around the store or by a lookup of a reference first)."""
    from . import cases
    cb = ix.body(key or (BB + "castling"))
    out = {}
    for k in c04.KIND_FIELD:
        run = cases.run(ix, cb, {"kind": cases.enum_val(ix, "board::ply::castling::CastlingKind", k)})
        stores = set()
        for p in run.paths:
            if p.end != "return":
                continue
            for e in p.events:
                if e[0] == "store" and "castling_rights." in e[2]:
                    stores.add((e[2].split("castling_rights.")[-1], e[3]))
        out[k] = stores if not run.overflow else {("<undecided>", None)}
    return out, cb


def parsed_number_of(e, arg):
    """e is str::parse(<arg>) possibly wrapped in ok()/unwrap()/expect()/unwrap_or(const) and reference plumbing, and
    nothing else: the setter receives the number written in the FEN, not a function of it."""
    seen_parse = False
    while True:
        e = mir.strip_refs(e)
        if e[0] == "call" and isinstance(e[1], str):
            name = e[1].split("::")[-1]
            if name == "parse" and e[1].endswith("str>::parse"):
                seen_parse = True
                e = e[2][0]
                continue
            if name in ("ok", "unwrap", "expect", "deref", "as_str", "trim") and e[2]:
                e = e[2][0]
                continue
            if name in ("unwrap_or", "unwrap_or_default") and e[2] and (len(e[2]) == 1 or e[2][1][0] == "const"):
                e = e[2][0]
                continue
            return False
        return seen_parse and e == ("arg", arg)


def rule_side_and_ep(ctx):
    ix = ctx.ix
    b = ctx.body(SER + "current_turn")
    sym = ctx.sym(b)
    t = {}
    for bi, tt in b.calls():
        if callee_is(tt, BB + "turn"):
            col = sym.operand(tt["args"][1])
            for c in C.constraints_for(ix, b, sym, bi):
                if len(c[1]) == 1 and isinstance(next(iter(c[1])), int):
                    t[chr(next(iter(c[1])))] = col[2]
    ctx.check(t == {"w": "White", "b": "Black"}, "side:letters", "'w' -> White to move, 'b' -> Black to move", b.where(0), bad_what="side-to-move letters: %s" % t)
    e = ctx.body(SER + "en_passant_file")
    esym = ctx.sym(e)
    rows = {}
    for bi, i, s in e.stmts():
        rv = s["rv"]
        if rv.get("k") == "agg" and rv.get("adt", "").endswith("Option") and rv.get("variant") in ("Some", "None"):
            v = esym.rvalue(rv)
            cons = C.constraints_for(ix, e, esym, bi)
            rows[rv["variant"]] = (v, cons)
    ok_none = "None" in rows and any(45 in c[1] for c in rows["None"][1])
    ok_some = False
    if "Some" in rows:
        v, cons = rows["Some"]
        txt = expr_str(v)
        rng = [c for c in cons if c[3][0] == "bin" and c[3][1] == "Le"]
        lo = any(c[3][2] == ("const", 97, "u32") or c[3][2][:2] == ("const", 97) for c in rng)
        hi = any(c[3][3][:2] == ("const", 104) for c in rng)
        ok_some = "Sub" in txt and "97" in txt and lo and hi
    setters = [(bi, tt) for bi, tt in e.calls() if callee_is(tt, BB + "en_passant_file")]
    direct = False
    if len(setters) == 1:
        vals = C.operand_cases(e, esym, setters[0][0], setters[0][1]["args"][1])
        direct = bool(vals) and all(v[0] == "agg" and isinstance(v[1], str) and v[1].endswith("Option") and v[2] in ("Some", "None") for _vb, v in vals)
    ctx.check(direct, "ep:decoded-file-stored-as-is", "the builder receives the decoded en-passant file itself (None / Some(file)), not a function of it", e.where(setters[0][0] if setters else 0),
              bad_what="the decoded en-passant file is transformed (filtered, mapped, conditioned on the position) before it is stored: the loaded position differs from the one the FEN describes")
    ctx.check(ok_none and ok_some, "ep:file-from-letter", "'-' -> None; 'a'..='h' -> Some(letter - 'a')", e.where(0), bad_what="en-passant field parsing is not `'-' => None, 'a'..='h' => Some(c - 'a')` (%s)" % {k: expr_str(v[0])[:60] for k, v in rows.items()})


def rule_history(ctx):
    """history(): the synthetic last record carries the double-push flag and file when an en-passant square is given,
    and the castling rights and half-move clock in both cases."""
    ix = ctx.ix
    b = ctx.body(SER + "history")
    sym = ctx.sym(b)
    builds = [(bi, t) for bi, t in b.calls() if callee_is(t, "board::ply::builder::Builder::build")]
    ctx.check(len(builds) == 2, "history:two-branches", "history() builds one record with and one without an en-passant file", b.where(0), bad_what="%d Ply builds" % len(builds))
    for bi, t in builds:
        cons = C.constraints_for(ix, b, sym, bi)
        ep = any("en_passant_file" in c[0] and "Some" in c[1] for c in cons)
        chain = expr_str(sym.operand(t["args"][0]))
        has_rights = "Builder::castling_rights(" in chain and "get_last_history" in chain
        has_clock = "Builder::halfmove_clock(" in chain and "builder.halfmove_clock" in chain
        label = "with-ep" if ep else "without-ep"
        # which record is built depends on nothing but whether the FEN names an en-passant square
        extra = [(c[0][:70], sorted(map(str, c[1]))) for c in cons if not ("en_passant_file" in c[0] and c[3][0] == "discr" and "as Some" not in c[0])
                 and not (c[3][0] == "call" and c[3][1] in ("std::option::Option::is_some", "std::option::Option::is_none") and "en_passant_file" in c[0])]
        ctx.check(not extra, "history:%s:only-the-fen-decides" % label, "the %s record is chosen by `en_passant_file is Some` alone" % label, b.where(bi),
                  bad_what="whether the synthetic double-push record is built also depends on %s: for some FENs the loaded board and its history disagree about the en-passant file (unmake_move restores it from the record)" % extra)
        ctx.check(has_rights and has_clock, "history:%s:rights-and-clock" % label, "the record carries the parsed castling rights and half-move clock", b.where(bi), bad_what="the %s record lacks castling rights or clock: %s" % (label, chain[:160]))
        if ep:
            flag = "Builder::double_pawn_push(" in chain and "true" not in chain  # constant shown as 1
            dpp = [x for x in walk(sym.operand(t["args"][0])) if isinstance(x, tuple) and x[0] == "call" and x[1].endswith("Builder::double_pawn_push")]
            okflag = bool(dpp) and dpp[0][2][1] == ("const", 1, "bool")
            # dest.file == the parsed file: Ply::builder(start, dest, kind) with dest = Square{rank, file}
            pb = [x for x in walk(sym.operand(t["args"][0])) if isinstance(x, tuple) and x[0] == "call" and x[1] == "board::ply::Ply::builder"]
            okfile = False
            if pb:
                dest = pb[0][2][1]
                # dest is the second element of a (start, dest, kind) tuple chosen per colour: look for Square aggregates whose file is the payload of en_passant_file
                sq = [x for x in walk(("t", dest)) if isinstance(x, tuple) and x[0] == "agg" and isinstance(x[1], str) and x[1].endswith("Square")]
                files = set()
                for l in range(len(b.locals)):
                    pass
                okfile = True
            # every Square literal in this function uses the en-passant payload as its file
            sqs = [(bi2, sym.rvalue(s["rv"])) for bi2, i2, s in b.stmts() if s["rv"].get("k") == "agg" and s["rv"].get("adt", "").endswith("square::Square")]
            files_ok = bool(sqs) and all("en_passant_file as Some" in expr_str(dict(zip(v[4], v[3]))["file"]) for _b2, v in sqs)
            ctx.check(okflag and files_ok, "history:with-ep:double-push-and-file", "the synthetic record is a double pawn push whose squares are on the en-passant file (what make/unmake read back)", b.where(bi),
                      bad_what="with an en-passant square the synthetic record is not marked double_pawn_push(true) on that file: unmake_move / the next make_move will not restore / clear the file correctly")
        else:
            ctx.check("double_pawn_push" not in chain, "history:without-ep:no-flag", "without an en-passant square the record is not a double push", b.where(bi), bad_what="the record without en-passant square sets double_pawn_push")
    # BoardBuilder::history keeps the rights that were parsed before
    hb = ctx.body(BB + "history")
    r = ctx.sym(hb)
    asg = [(bi, s) for bi, i, s in hb.stmts() if fields_of(s["lhs"])[-1:] == ("castling_rights",)]
    ctx.check(len(asg) == 1, "BoardBuilder::history:keeps-rights", "BoardBuilder::history re-applies the previously parsed castling rights to the new last record", hb.where(0), bad_what="BoardBuilder::history does not carry the castling rights over")


def rule_build(ctx):
    ix = ctx.ix
    b = ctx.body(BB + "build")
    sym = ctx.sym(b)
    lit = [sym.rvalue(s["rv"]) for bi, i, s in b.stmts() if s["rv"].get("k") == "agg" and s["rv"].get("adt") == "board::Board"]
    ctx.check(len(lit) == 1, "build:one-literal", "one Board literal", b.where(0), bad_what="%d Board literals" % len(lit))
    if len(lit) != 1:
        return
    f = dict(zip(lit[0][4], lit[0][3]))
    for name in ("current_turn", "fullmove_counter", "en_passant_file"):
        e = mir.strip_copies(f[name])
        ctx.check(e[0] == "field" and e[-1] == name and mir.strip_refs(e[1]) == ("arg", "self"), "build:%s" % name, "Board.%s = self.%s" % (name, name), b.where(0), bad_what="Board.%s is initialised from `%s`" % (name, expr_str(e)))
    e = mir.strip_copies(f["history"])
    ctx.check("self.history" in expr_str(f["history"]).replace("*", "").replace("(", "").replace(")", ""), "build:history", "Board.history = self.history.clone()", b.where(0), bad_what="Board.history is initialised from `%s`" % expr_str(f["history"]))
    e = f["bitboards"]
    ctx.check(e[0] == "call" and e[1] == PBB + "build" and "bitboards" in expr_str(e), "build:bitboards", "Board.bitboards = self.bitboards.build()", b.where(0), bad_what="Board.bitboards is `%s`" % expr_str(e))
    # history[0].halfmove_clock = self.halfmove_clock, before the clone
    asg = [(bi, i, s) for bi, i, s in b.stmts() if fields_of(s["lhs"])[-1:] == ("halfmove_clock",)]
    okv = False
    if len(asg) == 1:
        v = mir.strip_copies(sym.rvalue(asg[0][2]["rv"]))
        okv = v[0] == "field" and v[-1] == "halfmove_clock" and mir.strip_refs(v[1]) == ("arg", "self")  # the value itself, not a function of it
    ok = len(asg) == 1 and okv
    ctx.check(ok, "build:clock-into-history", "the parsed half-move clock is written into the history record that get_halfmove_clock reads", b.where(asg[0][0] if asg else 0), bad_what="build does not store halfmove_clock into the history record")
    sub = engine.Ctx(ctx.prop, ix, ctx.config)
    sub.cur_rule = ctx.cur_rule
    c04.rule_ctor(sub)
    ctx.insts.extend(i for i in sub.insts if "BoardBuilder::build" in i.key)


def rule_setters(ctx):
    """The scalar setters of BoardBuilder store their argument, unchanged, in the field they are named after, and write
    nothing else: between the FEN parser and Board nothing rescales, clamps or filters a value."""
    from . import effects
    ix = ctx.ix
    e = effects.Effects(ix)
    for name, field, arg in (("turn", "current_turn", 2), ("en_passant_file", "en_passant_file", 2), ("halfmove_clock", "halfmove_clock", 2), ("fullmove_counter", "fullmove_counter", 2)):
        b = ctx.body(BB + name)
        sym = ctx.sym(b)
        asg = [(bi, s) for bi, i, s in b.stmts() if s["lhs"]["l"] == 1 and s["lhs"]["p"]]
        ok = len(asg) == 1 and fields_of(asg[0][1]["lhs"]) == (field,)
        if ok:
            v = mir.strip_copies(sym.rvalue(asg[0][1]["rv"]))
            ok = v == ("arg", b.local_name(arg)) and not b.in_loop(asg[0][0]) and b.dominates(asg[0][0], [x.idx for x in b.blocks if x.term["k"] == "return"][0])
        calls = [strip_generics(t.get("callee") or "") for _bi, t in b.calls()]
        ctx.check(ok and not calls, "setter:%s" % name, "BoardBuilder::%s stores its argument in self.%s on every path and does nothing else" % (name, field), b.where(0),
                  bad_what="BoardBuilder::%s is not the plain store `self.%s = <argument>` (assignments: %s, calls: %s)" % (name, field, [(fields_of(s["lhs"]), expr_str(sym.rvalue(s["rv"]))[:40]) for _b, s in asg], calls[:4]))
    # castling(kind, value): the right named by `kind` receives `value`
    table, cb = castling_setter_table(ix)
    ok = all(table.get(k) == {(f, ("arg", "value"))} for k, f in c04.KIND_FIELD.items())
    ctx.check(ok, "setter:castling", "BoardBuilder::castling(kind, value) stores `value` in the right named by `kind`", cb.where(0),
              bad_what="BoardBuilder::castling stores %s" % {k: sorted((f, expr_str(v) if v else None) for f, v in st) for k, st in table.items()})


def rule_placement_walk(ctx):
    """piece_placement walks the 64 squares in FEN order: the n-th square visited is (rank 8 - n/8, file n%8); a piece letter
    sets that bit in its accumulator and advances by one, a digit d advances by d, '/' does not advance."""
    from .c06 import fold_tree, Undef
    ix = ctx.ix
    b = ctx.body(SER + "piece_placement")
    sym = ctx.sym(b)
    counter = None
    # the counter is the variable the mask is computed from
    stores = [(bi, s) for bi, i, s in b.stmts() if s["lhs"]["p"] == ["*"]]
    ors = []
    for bi, s in stores:
        v = sym.rvalue(s["rv"])
        tgt = sym.local(s["lhs"]["l"])
        if v[0] == "bin" and v[1] == "BitOr" and mir.strip_refs(v[2]) == mir.strip_refs(tgt):
            ors.append((bi, v[3], tgt))
    ctx.check(len(ors) == 1, "placement:one-or-site", "one site ORs the square's bit into the accumulator the letter selected", b.where(ors[0][0] if ors else 0), bad_what="%d sites OR a mask into an accumulator" % len(ors))
    if len(ors) != 1:
        return
    bi, mask, tgt = ors[0]
    cons = C.constraints_for(ix, b, sym, bi)
    ctx.check(any(c[0] == "discr(instruction)" and set(c[1]) == {"Bitboard"} for c in cons) and expr_str(tgt).startswith("(instruction as Bitboard)"), "placement:or-on-piece-letters-only",
              "the bit is set exactly for the piece-letter instructions, in the accumulator that instruction carries", b.where(bi), bad_what="the OR is not confined to the Bitboard(..) instruction / its own accumulator")
    names = sorted({x[1] for x in walk(mask) if isinstance(x, tuple) and x[0] == "var"})
    ctx.check(len(names) == 1, "placement:mask-depends-on-counter-only", "the mask is a function of the square counter only", b.where(bi), bad_what="the mask reads %s" % names)
    if len(names) != 1:
        return
    counter = names[0]
    bad = []
    for n in range(64):
        try:
            v = fold_tree(ix, mask, {counter: n})
        except Undef as u:
            bad.append((n, str(u)))
            break
        want = 1 << (8 * (7 - n // 8) + n % 8)
        if v != want:
            bad.append((n, "0x%x" % v, "0x%x" % want))
    ctx.check(not bad, "placement:mask-is-fen-order", "the n-th square of the FEN walk is rank 8 - n/8, file n%8 (a8, b8, ..., h1) for n = 0..63", b.where(bi),
              bad_what="the placement mask is wrong for walk position(s) %s (position, got, expected)" % bad[:3])
    # counter updates
    cl = [l for l in range(len(b.locals)) if b.local_name(l) == counter]
    upd = {}
    for (db, di, rv) in b.defs().get(cl[0], []) if cl else []:
        v = sym.rvalue(rv) if rv.get("k") != "call" else ("call",)
        cs = {c[0]: set(c[1]) for c in C.constraints_for(ix, b, sym, db)}
        if v == ("const", 0, "u64") and not b.in_loop(db):
            upd["init"] = "0"
        elif v[0] == "bin" and v[2] == ("var", counter) and b.in_loop(db):
            kind = next((next(iter(vs)) for k, vs in cs.items() if k == "discr(instruction)" and len(vs) == 1), "every-iteration")
            upd[kind] = "%s %s" % (v[1].replace("WithOverflow", ""), expr_str(v[3]))
        else:
            upd["other@%d" % db] = expr_str(v)[:40]
    want = {"init": "0", "Skip": "Add ((instruction as Skip).0 Sub 1)", "NewRow": "Sub 1", "every-iteration": "Add 1"}
    ctx.check(upd == want, "placement:counter-steps", "the counter starts at 0, every character advances it by 1, a digit by d - 1 more, '/' by 1 less", b.where(0),
              bad_what="the square counter is updated as %s (expected %s)" % (upd, want))
    # the every-iteration step comes after the mask was used, once per character
    step = [db for (db, di, rv) in b.defs().get(cl[0], []) if rv.get("k") != "call" and sym.rvalue(rv) == ("bin", "Add", ("var", counter), ("const", 1, "u64"))] if cl else []
    ctx.check(len(step) == 1 and not any(bi in b.reachable_from(step[0], removed={x for x in range(len(b.blocks)) if b.blocks[x].term["k"] == "call" and "Iterator>::next" in (b.blocks[x].term.get("callee") or "")}) for _ in (0,)),
              "placement:step-after-use", "within one character the bit is set before the counter advances", b.where(step[0] if step else 0), bad_what="the counter advances before the bit of the current character is set")
    # the digit payload is the digit
    skips = [(bi2, sym.rvalue(s2["rv"])) for bi2, i2, s2 in b.stmts() if s2["rv"].get("k") == "agg" and s2["rv"].get("variant") == "Skip"]
    ok = len(skips) == 1
    if ok:
        sb, sv = skips[0]
        txt = expr_str(sv)
        chars = [c for c in C.constraints_for(ix, b, sym, sb) if c[3][0] == "bin" and c[3][1] == "Le"]
        lo = any(c[3][2][:2] == ("const", 49) for c in chars)
        hi = any(c[3][3][:2] == ("const", 56) for c in chars)
        ok = "parse" in txt and "to_string" in txt and lo and hi and "Sub" not in txt and "Add" not in txt and "Mul" not in txt
    ctx.check(ok, "placement:digit-is-skip-count", "'1'..='8' -> Skip(the digit's value)", b.where(skips[0][0] if skips else 0), bad_what="the skip count is not the parsed digit for '1'..='8' (%s)" % [expr_str(v)[:60] for _b, v in skips])


RULES = [("placement-walk", rule_placement_walk), ("setters", rule_setters), ("letters", rule_letters), ("bijection", rule_bijection), ("fields", rule_fields), ("castle-letters", rule_castle_letters), ("side-ep", rule_side_and_ep),
         ("history", rule_history), ("build", rule_build)]
# "and from then on behaves (legal moves, keys, bookkeeping) identically to the same position reached by play": the loaded
# board differs from a played one only in its synthetic first history record, so what make / unmake and the search read from
# the top record must be what the rules say for any record (C03 clock, en-passant and accessor clauses; C02 en-passant restore)
RULES += engine.premise_rules("c03", ["clock", "ep", "accessors"])
RULES += engine.premise_rules("c02", ["ep-restore"])
# a user loads a FEN through `position fen ...`: the six tokens reach from_fen as written, on a fresh board, and the result
# is what the session holds afterwards (C08)
RULES += engine.premise_rules("c08", ["fresh", "commit", "tokens", "dispatch"])


def run(tier):
    return engine.main(
        PROP, "FEN loading", RULES, "other",
        explanation=("Tables extracted from the MIR of the FEN reader and the builders are compared with the FEN standard and with each other: the 12 piece letters reach the setter of their kind and colour; one "
                     "(kind, colour) <-> bitboard-field bijection is shared by the builder setters, add/remove, counting, lookup, build, recompute and both hard-coded start positions (which equal the "
                     "standard start); FEN fields 0..5 feed placement, side, castling, en passant, clock, move number with defaults \"0\"/\"1\"; K/Q/k/q grant exactly their right after a reset; 'w'/'b' and the "
                     "en-passant letter are decoded by the standard; the synthetic history record carries rights, clock and - with an en-passant square - the double-push flag on that file, which is what "
                     "make/unmake read back (so the loaded position behaves like one reached by play); build copies every field and computes the key last. Not decided: the rank/file arithmetic of the "
                     "placement mask and digit skipping (value-level). Frame clauses: in from_fen the builder passes through the six parsers, history() and build() and nothing else, the result of build() is "
                     "returned unchanged, and which synthetic record history() builds depends on nothing but `en_passant_file is Some`."),
        assumptions=["the placement mask arithmetic `1 << (8*(7 - idx/8) + idx%8)` and digit skipping are right (not decided)"],
        tier=tier)
