"""python3 -m rules.run <ID> [--tier quick|thorough]"""
import importlib
import os
import sys


def main(argv):
    if not argv:
        print("usage: check <property id> [--tier quick|thorough]")
        return 2
    prop = argv[0].upper()
    tier = os.environ.get("VERIF_TIER") or "quick"
    if "--tier" in argv:
        tier = argv[argv.index("--tier") + 1]
    if tier not in ("quick", "thorough"):
        print("unknown tier", tier)
        return 2
    try:
        mod = importlib.import_module("rules." + prop.lower())
    except ModuleNotFoundError:
        print("no check for property", prop)
        return 2
    return mod.run(tier)


if __name__ == "__main__":
    sys.exit(main(sys.argv[1:]))
