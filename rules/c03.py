"""C03  Game state bookkeeping follows the rules along any game  (DESIGN 3, C03)."""
from . import engine, mir
from . import common as C
from . import c02, c04
from .c02 import MAKE, UNMAKE, SWITCH_TURN, MOVE_PIECE, eff
from .c04 import CASTLE_CHECKS, status_of, KIND_FIELD
from .mir import expr_str, walk, callee_is, const_int, op_place, strip_generics, fields_of

PROP = "C03"

# FIDE: which right is lost by what.  (who, piece kind, colour, (rank, file) or None) -> set of fields
ORACLE = {
    ("mover", "King", "White", None): {"white_kingside", "white_queenside"},
    ("mover", "King", "Black", None): {"black_kingside", "black_queenside"},
    ("mover", "Rook", "White", (0, 0)): {"white_queenside"},
    ("mover", "Rook", "White", (0, 7)): {"white_kingside"},
    ("mover", "Rook", "Black", (7, 0)): {"black_queenside"},
    ("mover", "Rook", "Black", (7, 7)): {"black_kingside"},
    ("captured", "Rook", "White", (0, 0)): {"white_queenside"},
    ("captured", "Rook", "White", (0, 7)): {"white_kingside"},
    ("captured", "Rook", "Black", (7, 0)): {"black_queenside"},
    ("captured", "Rook", "Black", (7, 7)): {"black_kingside"},
}


def parse_row(cons, fld):
    """Turn the path constraints of one revocation into an oracle key; returns (key, leftovers)."""
    who = kind = colour = None
    rank = file = None
    left = []
    for text, vals, _d, e in cons:
        vals = set(vals)
        one = next(iter(vals)) if len(vals) == 1 else None
        if text == "discr(*new_move.piece)" and one is None:
            if vals != {"Pawn", "King", "Queen", "Rook", "Bishop", "Knight"}:
                left.append(("happens only when the moving piece is one of", sorted(map(str, vals))))
        elif text == "discr(*new_move.piece)":
            who, kind = "mover", one
        elif text.startswith("discr((*new_move.piece as ") and text.endswith(").0)"):
            colour = one
        elif text == "*new_move.start.rank":
            rank = one
        elif text == "*new_move.start.file":
            file = one
        elif text == "discr(*new_move.captured_piece)":
            if one == "Some":
                who = "captured"
            else:
                left.append((text, sorted(map(str, vals))))
        elif text == "discr((*new_move.captured_piece as Some).0)":
            kind = one
        elif text.startswith("discr(((*new_move.captured_piece as Some).0 as ") and text.endswith(").0)"):
            colour = one
        elif text == "*new_move.dest.rank":
            rank = one
        elif text == "*new_move.dest.file":
            file = one
        elif "castling_rights.%s" % fld in text and ("eq(" in text or text.startswith("discr(")):
            pass  # the `was Available` guard (C04.castle-pair), in call form or as the discriminant test
        elif text == "*new_move.is_castles":
            left.append((text, sorted(map(str, vals))))
        else:
            left.append((text, sorted(map(str, vals))))
    sq = (rank, file) if rank is not None or file is not None else None
    return (who, kind, colour, sq), left


RIGHTS = ("white_kingside", "white_queenside", "black_kingside", "black_queenside")
CORNERS = {(0, 0): "white_queenside", (0, 7): "white_kingside", (7, 0): "black_queenside", (7, 7): "black_kingside"}
CORNER_COLOUR = {(0, 0): "White", (0, 7): "White", (7, 0): "Black", (7, 7): "Black"}


def expected_revocations(mk, mc, ms, cap, cd):
    """FIDE: the rights lost by this move (if they are still there)."""
    out = set()
    if mk == "King":
        out |= {"%s_kingside" % mc.lower(), "%s_queenside" % mc.lower()}
    if mk == "Rook" and ms in CORNERS and CORNER_COLOUR[ms] == mc:
        out.add(CORNERS[ms])
    if cap is not None and cap[0] == "Rook" and cd in CORNERS and CORNER_COLOUR[cd] == cap[1]:
        out.add(CORNERS[cd])
    return out


def revocation_cases(ix, b):
    """What make_move_castling_checks sets to Unavailable for each (mover, start, captured, dest), read off by per-case
    constant propagation: {case: (set of right fields, anything else stored into the rights, undecided?)}."""
    from . import cases

    def sq(r, f):
        return ("agg", "board::square::Square", "Square", (("const", r, "u8"), ("const", f, "u8")), ("rank", "file"))

    def kind(k, c):
        return cases.enum_val(ix, "board::piece::Kind", k, [cases.enum_val(ix, "board::piece::Color", c)])
    from . import castlecases
    out = {}
    n_undecided = 0
    for (mk, mc, ms, cap, cd) in castlecases.all_cases(b):
        if n_undecided > 12:
            # the walk is not pinned down by the case (an unfamiliar way of passing the move record): give up, undecided
            out[(mk, mc, ms, cap, cd)] = (set(), set(), True, None)
            continue
        inp = castlecases.inputs(ix, (mk, mc, ms, cap, cd), None, b)
        pre = [k for k in inp if k.endswith(".piece")][0][:-len("piece")]
        run = cases.run(ix, b, inp)
        fields, other = set(), set()
        for p in run.paths:
            for e in p.events:
                if e[0] == "store" and "castling_rights." in e[2]:
                    f = e[2].split("castling_rights.")[-1]
                    if e[3][0] == "agg" and e[3][2] == "Unavailable":
                        fields.add(f)
                    else:
                        other.add((f, expr_str(e[3])[:30]))
        undecided = run.overflow or any(p.end not in ("return", "panic", "unreachable") for p in run.paths)
        # ... and with all four rights still there, which of them are lost on *every* way through: a
        # revocation guarded by anything but the presence of that very right is not one
        always = None
        for want_f in sorted(expected_revocations(mk, mc, ms, cap, cd)):
            # that right alone being there must be enough for it to be lost
            inp2 = dict(inp)
            for f in RIGHTS:
                inp2[pre + "castling_rights." + f] = cases.enum_val(ix, "board::ply::castling::CastlingStatus", "Available" if f == want_f else "Unavailable")
            run2 = cases.run(ix, b, inp2)
            lost = True
            for p in run2.paths:
                if p.end != "return":
                    continue
                if not any(e[0] == "store" and e[2].endswith("castling_rights." + want_f) and e[3][0] == "agg" and e[3][2] == "Unavailable" for e in p.events):
                    lost = False
            if run2.overflow or any(p.end not in ("return", "panic", "unreachable") for p in run2.paths):
                undecided = True
            always = (always or set()) | ({want_f} if lost else set())
        n_undecided += 1 if undecided else 0
        out[(mk, mc, ms, cap, cd)] = (fields, other, undecided, always)
    return out


def rule_revocation_table(ctx):
    """The relation {(mover, start, captured, dest) -> rights revoked} of make_move_castling_checks equals the FIDE table,
    case by case (960 cases: 6 kinds x 2 colours x 5 start squares x {no capture, 4 victims x 5 squares}), however the
    decision is spelt: a match with twelve arms, a helper per right, a lookup table of (piece, square) -> right."""
    ix = ctx.ix
    b = ctx.body(CASTLE_CHECKS)
    table = revocation_cases(ix, b)
    und = [k for k, v in table.items() if v[2]]
    ctx.check(not und, "revocation-cases-decided", "all %d cases of make_move_castling_checks were walked to the end" % len(table), b.where(0),
              bad_what="%d case(s) of make_move_castling_checks could not be walked (a loop over data, or too many paths), e.g. %s: cannot decide" % (len(und), und[:2]))
    missing, extra, other = {}, {}, []
    for (mk, mc, ms, cap, cd), (fields, oth, _u, always) in table.items():
        want = expected_revocations(mk, mc, ms, cap, cd)
        for f in (want - fields) | (want - always if always is not None else set()):
            # attribute the missing right to the oracle row responsible for it
            if mk == "King" and f.startswith(mc.lower()):
                row = ("mover", "King", mc, None)
            elif mk == "Rook" and ms in CORNERS and CORNERS[ms] == f and CORNER_COLOUR[ms] == mc:
                row = ("mover", "Rook", mc, ms)
            else:
                row = ("captured", "Rook", cap[1], cd)
            missing.setdefault(row, []).append((mk, mc, ms, cap, cd))
        for f in fields - want:
            extra.setdefault(f, []).append((mk, mc, ms, cap, cd))
        if oth:
            other.append(((mk, mc, ms, cap, cd), sorted(oth)))
    for key in sorted(ORACLE, key=str):
        label = "%s:%s:%s:%s" % (key[0], key[1], key[2], "any" if key[3] is None else "r%sf%s" % key[3])
        bad = missing.get(key, [])
        ctx.check(not bad, "row:" + label, "%s %s %s on %s loses %s in every case" % (key[0], key[2], key[1], "any square" if key[3] is None else "rank %s file %s" % key[3], sorted(ORACLE[key])), b.where(0),
                  bad_what="missing revocation: when the %s is a %s %s on %s the right(s) %s must be lost, but they are kept in %d case(s), e.g. (mover, colour, from, captured, on) = %s"
                  % (key[0], key[2], key[1], key[3], sorted(ORACLE[key]), len(bad), bad[:2]))
    ctx.check(not extra, "no-other-revocation", "no right is revoked in any other case", b.where(0),
              bad_what="rights revoked without cause: %s" % {f: v[:2] for f, v in extra.items()})
    ctx.check(not other, "rights-only-set-unavailable-here", "make_move_castling_checks only ever stores Unavailable into the rights", b.where(0),
              bad_what="make_move_castling_checks stores something else into the rights: %s" % other[:2])
    ctx.floor("revocation cases", len(table), 900)


def rule_rights_monotone(ctx):
    """Rights are never regained inside make_move: copied forward from the previous record, only ever set to Unavailable."""
    ix = ctx.ix
    reach = ix.reachable([MAKE])
    n = 0
    seen = {}
    for k in sorted(reach):
        b = ix.bodies[k]
        if b.kind not in ("fn", "closure"):
            continue
        sym = None
        for bi, i, s in b.stmts():
            fp = fields_of(s["lhs"])
            # a store into one of the four rights: by field path, or through a `&mut CastlingStatus` selected elsewhere
            through_ref = bool(s["lhs"]["p"]) and s["lhs"]["p"][0] == "*" and s["lhs"].get("ty", "").endswith("castling::CastlingStatus") and "castling_rights" not in fp
            # ... or into a field of a local copy of the rights (`let mut rights = m.castling_rights; rights.f = ..; m.castling_rights = rights`)
            local_copy = bool(fp) and fp[0] in RIGHTS and b.locals[s["lhs"]["l"]]["ty"].endswith("castling::CastlingRights")
            if local_copy:
                fp = ("castling_rights",) + fp
            if through_ref:
                fp = fp + ("<through a reference>",)
            if ("castling_rights" in fp and fp[-1] != "castling_rights") or through_ref:
                n += 1
                sym = sym or mir.Sym(b, ix)
                st = status_of(sym.rvalue(s["rv"]))
                ctx.functions.add(k)
                ctx.check(st == "Unavailable", c04.c15_dedup(seen, "%s:assign:%s" % (k, fp[-1])), "only `Unavailable` is assigned to castling_rights.%s on the make_move path" % fp[-1], b.where(bi),
                          bad_what="%s assigns %s to castling_rights.%s while a move is being made: a lost right can come back" % (C.short(k), st or expr_str(sym.rvalue(s["rv"])), fp[-1]))
    mk = ctx.body(MAKE)
    sym = ctx.sym(mk)
    whole = [(bi, s) for bi, i, s in mk.stmts() if fields_of(s["lhs"]) == ("castling_rights",)]
    ok = len(whole) == 1
    if ok:
        v = sym.rvalue(whole[0][1]["rv"])
        txt = expr_str(v)
        ok = v[0] == "field" and v[-1] == "castling_rights" and "last(" in txt and "history" in txt
    ctx.check(ok, "make_move:rights-copied-forward", "new_move.castling_rights = (top of history).castling_rights before the revocations", mk.where(whole[0][0] if whole else 0),
              bad_what="make_move does not start from the previous record's castling rights (assignments: %s)" % [expr_str(sym.rvalue(s["rv"])) for _, s in whole])
    # the revocations are applied to the record that is pushed
    cc = [(bi, t) for bi, t in mk.calls() if callee_is(t, CASTLE_CHECKS)]
    pushes = c02.calls_on_field(ix, mk, "history", "Vec::push")
    ok = len(cc) == 1 and len(pushes) == 1
    if ok:
        a = sym.operand(cc[0][1]["args"][1])
        ok = mir.strip_refs(mir.strip_copies(a)) == ("arg", mk.local_name(2)) and mk.dominates(cc[0][0], pushes[0][0]) and whole and mk.dominates(whole[0][0], cc[0][0])
        if ok and not cc[0][1]["args"][1].get("move", cc[0][1]["args"][1].get("copy", {})).get("ty", "&").startswith("&"):
            # the record goes in by value: what is pushed must be what the checks hand back
            pv = mir.strip_copies(sym.operand(pushes[0][1]["args"][1]))
            ok = pv[0] == "call" and pv[1] == CASTLE_CHECKS and C.returns_param(ix, CASTLE_CHECKS, ("castling_rights",)) is not None
    ctx.check(ok, "make_move:revocations-on-pushed-record", "rights are copied, then revoked on `new_move`, then `new_move` is pushed", mk.where(cc[0][0] if cc else 0),
              bad_what="the castling checks do not run on the record that is pushed, or not between the copy and the push")
    ctx.floor("castling-right assignments on the make_move path", n, 1)


def rule_clock(ctx):
    """halfmove_clock: 0 for pawn moves and captures, previous + 1 otherwise."""
    ix = ctx.ix
    mk = ctx.body(MAKE)
    sym = ctx.sym(mk)
    asg = [(bi, s) for bi, i, s in mk.stmts() if fields_of(s["lhs"]) == ("halfmove_clock",)]
    ctx.check(len(asg) == 1, "make_move:one-clock-write", "make_move writes the record's halfmove_clock once", mk.where(0), bad_what="%d halfmove_clock writes" % len(asg))
    if len(asg) != 1:
        return
    p = op_place(asg[0][1]["rv"].get("a", {}))
    defs = mk.defs().get(p["l"], []) if p is not None and mir.is_local(p) else []
    incs, zeros, others = [], [], []
    for (db, di, rv) in defs:
        v = sym.rvalue(rv)
        txt = expr_str(v)
        if v == ("const", 0, "u16"):
            zeros.append(db)
        elif "halfmove_clock" in txt and any(isinstance(x, tuple) and x[0] == "bin" and x[1].startswith("Add") and x[3] == ("const", 1, "u16") for x in walk(v)) and "last(" in txt:
            incs.append(db)
        else:
            others.append((db, txt))
    ctx.check(len(incs) == 1 and len(zeros) >= 1 and not others, "make_move:clock-values", "the clock is either 0 or (previous record's clock) + 1", mk.where(asg[0][0]),
              bad_what="halfmove_clock candidates: %d increment(s), %d reset(s), other: %s" % (len(incs), len(zeros), others))
    # the table (mover kind, capture?, castles?, promotion?) -> clock, read off by per-case constant propagation: 0 exactly for
    # pawn moves and captures, previous + 1 in every other case -- whatever the move's other flags are
    from . import cases
    col = ("arg", "COLOUR")
    wrong = []
    n_cases = 0
    for kind in ("Pawn", "Knight", "Bishop", "Rook", "Queen", "King"):
        for cap in ("None", "Some"):
            for castles in (0, 1):
                inp = {"new_move.piece": cases.enum_val(ix, "board::piece::Kind", kind, [col]),
                       "new_move.captured_piece": cases.option(cap, [("arg", "CAPTURED")] if cap == "Some" else ()),
                       "new_move.is_castles": ("const", castles, "bool")}
                c = cases.run(ix, mk, inp)
                vals = set()
                for p in c.paths:
                    stores = [e for e in p.events if e[0] == "store" and e[2].endswith("halfmove_clock")]
                    if p.end == "return" and len(stores) != 1:
                        vals.add("%d stores" % len(stores))
                    for e in stores:
                        v = e[3]
                        if v == ("const", 0, "u16"):
                            vals.add("0")
                        elif v[0] == "bin" and v[1].startswith("Add") and v[3] == ("const", 1, "u16") and "halfmove_clock" in expr_str(v[2]) and "last(" in expr_str(v[2]):
                            vals.add("prev+1")
                        else:
                            vals.add(expr_str(v)[:50])
                n_cases += 1
                want = {"0"} if (kind == "Pawn" or cap == "Some") else {"prev+1"}
                if c.overflow or vals != want:
                    wrong.append(("%s%s%s" % (kind, " capturing" if cap == "Some" else "", " castling" if castles else ""), sorted(vals)))
    ctx.check(not wrong, "make_move:clock-increment-condition", "the clock is 0 exactly for pawn moves and captures and previous+1 otherwise (%d cases: kind x capture x castling)" % n_cases, mk.where(asg[0][0]),
              bad_what="halfmove clock by case: %s (expected 0 exactly for pawn moves and captures, previous+1 otherwise)" % wrong[:6])


def rule_ep(ctx):
    """en_passant_file = Some(dest.file) iff the move is a double pawn push (make_move half of C02.ep-restore),
    and the flag's only setters are the two-square pawn push and the FEN loader."""
    ix = ctx.ix
    sub = engine.Ctx(ctx.prop, ix, ctx.config)
    sub.cur_rule = ctx.cur_rule
    c02.rule_ep_restore(sub)
    for i in sub.insts:
        if MAKE in i.key:
            ctx.insts.append(i)
    ctx.functions |= sub.functions
    setter = "board::ply::builder::Builder::double_pawn_push"
    callers = sorted(ix.callers(setter))
    want = ["<board::piece::pawn::Pawn as board::piece::Piece>::get_moveset", "board::serialize::history"]
    ctx.check(callers == want, "double_pawn_push:setters", "is_double_pawn_push is set only by the two-square pawn push and by the FEN history reconstruction", bad_what="double_pawn_push(..) is called from %s" % callers)
    # Ply literals with the flag set elsewhere?
    n_lit = 0
    for b in ix.fn_bodies():
        for bi, i, s in b.stmts():
            rv = s["rv"]
            if rv.get("k") == "agg" and rv.get("adt") == "board::ply::Ply":
                idx = rv["fields"].index("is_double_pawn_push")
                v = rv["ops"][idx]
                n_lit += 1
                ok = const_int(v) == 0 or b.key == "board::ply::builder::Builder::build" or b.key.startswith("<board::ply::Ply as")
                ctx.check(ok, "Ply-literal:%s" % b.key, "Ply literal in %s does not set is_double_pawn_push (or is the builder / a derive)" % C.short(b.key), b.where(bi),
                          bad_what="%s builds a Ply with is_double_pawn_push from `%s`" % (b.key, mir.opstr(v)))
    ctx.floor("Ply literals", n_lit, 2)


def rule_fullmove(ctx):
    """Full-move number: +1 after Black's move (predicate current_turn == White evaluated after switch_turn)."""
    sub = engine.Ctx(ctx.prop, ctx.ix, ctx.config)
    sub.cur_rule = ctx.cur_rule
    c02.rule_counter(sub)
    ctx.insts.extend(sub.insts)
    ctx.functions |= sub.functions
    ix = ctx.ix
    mk = ctx.body(MAKE)
    sw = [bi for bi, t in mk.calls() if callee_is(t, SWITCH_TURN)]
    ctx.check(c02.every_path_once(mk, sw), "make_move:one-switch_turn", "make_move switches the side to move exactly once on every path", mk.where(sw[0] if sw else 0),
              bad_what="make_move calls switch_turn %d time(s) / not on every path" % len(sw))


def rule_placement(ctx):
    """move_piece against the rules: quiet / capture / en-passant cases."""
    ix = ctx.ix
    mv, mb = c02.piece_cases(ix, MOVE_PIECE)
    ctx.functions.add(MOVE_PIECE)
    want = {
        "quiet": [("remove", "start", "moving_piece"), ("add", "dest", "Option::unwrap_or(promoted_to, moving_piece)")],
        "capture": [("remove", "start", "moving_piece"), ("remove", "dest", "(captured_piece as Some).0"), ("add", "dest", "Option::unwrap_or(promoted_to, moving_piece)")],
        "en-passant": [("remove", "start", "moving_piece"), ("remove", "square::Square::Square{start.rank, dest.file}", "(captured_piece as Some).0"), ("add", "dest", "Option::unwrap_or(promoted_to, moving_piece)")],
    }
    for name in sorted(want):
        got = mv.get(name)
        if isinstance(got, list):
            # the order of the two removals does not matter for the resulting placement; the addition comes last
            norm = sorted(got[:-1]) + got[-1:]
            wnorm = sorted(want[name][:-1]) + want[name][-1:]
        else:
            norm, wnorm = got, want[name]
        ctx.check(norm == wnorm, "move_piece:%s" % name, "%s: %s" % (name, got), mb.where(0),
                  bad_what="move_piece %s case does %s, the rules require %s" % (name, got, want[name]))
    ctx.check(mv.get("en-passant-without-victim") in ("panic",) or mv.get("en-passant-without-victim") == mv.get("quiet"), "move_piece:en-passant-without-victim",
              "an en-passant flag without a captured piece is refused (or treated as a quiet move)", mb.where(0),
              bad_what="move_piece with en_passant set and no captured piece does %s" % (mv.get("en-passant-without-victim"),))
    # castling rook squares (shared with C01.castle-moves)
    from . import c01tables
    c01tables.check_rook_tables(ctx)


def rule_history_record(ctx):
    """The engine remembers exactly the earlier positions: shared with C02.multiset and C02.stack."""
    sub = engine.Ctx(ctx.prop, ctx.ix, ctx.config)
    sub.cur_rule = ctx.cur_rule
    c02.rule_multiset(sub)
    ctx.insts.extend(sub.insts)
    ix = ctx.ix
    mk = ctx.body(MAKE)
    sym = ctx.sym(mk)
    ph = c02.calls_on_field(ix, mk, "position_history", "::push", "::insert")
    ok = len(ph) == 1 and c02.every_path_once(mk, [ph[0][0]])
    if ok:
        v = mir.strip_copies(sym.operand(ph[0][1]["args"][1]))
        ok = v[0] == "field" and v[-1] == "zkey" and mir.strip_refs(v[1]) == ("arg", mk.local_name(1))
        # recorded before anything changes the key
        first_mut = [bi for bi, t in mk.calls() if t.get("args") and op_place(t["args"][0]) is not None and "&mut board::Board" in op_place(t["args"][0]).get("ty", "")
                     or callee_is(t, "board::zkey::ZKey::change_en_passant")]
        ok = ok and all(mk.dominates(ph[0][0], x) and x != ph[0][0] for x in first_mut)
    ctx.check(ok, "make_move:records-current-key-first", "make_move records self.zkey of the position being left, before any update, once on every path", mk.where(ph[0][0] if ph else 0),
              bad_what="make_move does not record the key of the position being left exactly once before modifying the board")


def rule_accessors(ctx):
    """What the search reads is what the bookkeeping wrote: `position_reached(k)` is membership of k in the whole list of
    recorded keys, `get_halfmove_clock()` is the clock of the top history record."""
    ix = ctx.ix
    b = ctx.body("board::Board::position_reached")
    r = mir.strip_copies(ctx.sym(b).local(0))
    ok = False
    if r[0] == "call" and r[1].endswith("<impl [T]>::contains") and len(r[2]) == 2:
        hay, needle = expr_str(r[2][0]), mir.strip_refs(r[2][1])
        ok = "position_history" in hay and needle == ("arg", b.local_name(2)) and not any(
            isinstance(x, tuple) and x[0] in ("index", "subslice") or isinstance(x, tuple) and x[0] == "call" and x[1].split("::")[-1] in ("get", "split_at", "first", "last", "split_first", "split_last", "windows", "chunks")
            for x in walk(r[2][0]))
    elif r[0] == "call" and r[1].split("::")[-1] == "any" and "Iterator" in r[1] and len(r[2]) == 2:
        src = mir.strip_copies(r[2][0])
        # iter() (possibly reversed) over the whole vector, closure = `|k| *k == position`
        while src[0] == "call" and src[1].split("::")[-1] in ("rev", "copied", "cloned") and len(src[2]) == 1:
            src = mir.strip_copies(src[2][0])
        whole = src[0] == "call" and src[1].split("::")[-1] == "iter" and "position_history" in expr_str(src) and len(src[2]) == 1
        clo = r[2][1]
        eqc = False
        if clo[0] == "closure" and clo[1] in ix.bodies:
            cb = ix.bodies[clo[1]]
            cr = mir.strip_copies(mir.Sym(cb, ix).local(0))
            eqc = cr[0] == "call" and ("PartialEq" in cr[1] and cr[1].endswith("eq")) and len(cb.blocks) <= 3 and len(clo[2]) == 1 and mir.strip_refs(clo[2][0]) == ("arg", b.local_name(2))
            ctx.functions.add(clo[1])
        ok = whole and eqc
    ctx.check(ok, "position_reached:is-membership", "position_reached(k) = position_history contains k (the whole list)", b.where(0),
              bad_what="position_reached returns `%s`: not membership of its argument in the whole position_history (a window, a prefix or another key makes the search miss or invent repetitions)" % expr_str(r)[:160])
    g = ctx.body("board::Board::get_halfmove_clock")
    v = mir.strip_copies(ctx.sym(g).local(0))
    txt = expr_str(v)
    ok = v[0] == "field" and v[-1] == "halfmove_clock" and "::last(" in txt and "history" in txt and "position_history" not in txt and len([x for x in walk(v) if isinstance(x, tuple) and x[0] == "bin"]) == 0
    ctx.check(ok, "get_halfmove_clock:top-record", "get_halfmove_clock() = history.last().halfmove_clock", g.where(0),
              bad_what="get_halfmove_clock returns `%s`: not the clock of the top history record" % txt[:160])


RULES = [("accessors", rule_accessors), ("revocation-table", rule_revocation_table), ("rights-monotone", rule_rights_monotone), ("clock", rule_clock), ("ep", rule_ep),
         ("fullmove", rule_fullmove), ("placement", rule_placement), ("history-record", rule_history_record)]
# "remembers exactly the earlier positions" is about keys: the key recorded for a position must be the key of that position
# (C04 pairing rules), also after the make/unmake probes of move generation
RULES += engine.premise_rules("c04", ["clone", "piece-pair", "turn-pair", "ep-pair", "castle-pair", "castle-revert"])
# the bookkeeping reads the move's flags: the move record carries what the generator put into it
# keys stand for positions only as far as comparing two keys compares the whole word (C05.key-identity)
RULES += engine.premise_rules("c05", ["key-identity"])
RULES += engine.premise_rules("c01", ["ply-builder", "capture-src", "leaf-accessors"])
# "from the standard start or any valid FEN": the first history record (clock, rights) is what the FEN said
RULES += engine.premise_rules("c07", ["fields", "history", "build"])
# a user plays "a sequence of legal moves" through `position ... moves ...`: the board the engine then holds is the start /
# FEN position with exactly those moves made on it, whatever came before (C08: fresh scratch board, every token looked up
# and played as written, one commit)
RULES += engine.premise_rules("c08", ["fresh", "commit", "apply", "tokens", "dispatch"])


def run(tier):
    return engine.main(
        PROP, "game state bookkeeping", RULES, "other",
        explanation=("Decision tables extracted from the MIR of make_move and make_move_castling_checks (constraints on every path to each effect, independent of arm and test order) are compared "
                     "with the rules of chess: the 12 revocation sites form exactly the FIDE relation (king move -> both rights, rook leaving / captured on its corner -> that right) and rights are "
                     "copied forward and only ever set to Unavailable; the half-move clock is 0 for pawn moves and captures and previous+1 otherwise; the en-passant file is Some(dest.file) iff the "
                     "move is a double push and only the two-square push sets that flag; the full-move number is incremented after Black's move; move_piece removes/adds the right pieces on the right "
                     "squares in the quiet, capture and en-passant cases; the castling rook table is the standard one; the key of the position being left is recorded once per move in a "
                     "multiplicity-faithful container; position_reached is membership in the whole record and get_halfmove_clock the top record's clock. The revocation relation is read case by case "
                     "(mover, start, victim, square; each right alone present must be lost on every path). Not decided: the pseudo-legal generators themselves (C01/C06)."),
        assumptions=["moves fed to make_move are generated moves whose flags describe them truthfully (C01.pawn-table, C01.castle-moves)"],
        tier=tier)
