"""C05  Different positions get different keys  (DESIGN 3, C05).

Actual distinctness of the 64-bit words is a property of the generator's output and is not decided.
Decided: every component that matters for play contributes its own, own-indexed, freshly drawn word."""
import re

from . import engine, mir
from . import common as C
from . import c04
from .c06 import ceval
from .mir import expr_str, walk, callee_is, const_int, op_place, strip_generics, fields_of

PROP = "C05"
INIT = "board::zkey::ZTable::init"
ZTABLE = "board::zkey::ZTable"


def loop_range(sym, e):
    """(lo, hi) if e is the payload of `next()` on a constant Range, else None."""
    if not (isinstance(e, tuple) and e[0] == "field" and e[-1] == "0" and isinstance(e[1], tuple) and e[1][0] == "as" and e[1][2] == "Some"):
        return None
    nx = e[1][1]
    if not (isinstance(nx, tuple) and nx[0] == "call" and "Range<A>>::next" in nx[1]):
        return None
    it = nx[2][0]
    for x in walk(it):
        if isinstance(x, tuple) and x[0] == "var":
            it = sym.expand_var(x)
    for x in walk(it):
        if isinstance(x, tuple) and x[0] == "agg" and isinstance(x[1], str) and x[1].endswith("ops::Range") and len(x[3]) == 2:
            lo, hi = ceval(x[3][0]), ceval(x[3][1])
            if lo is not None and hi is not None:
                return lo, hi
    return None


def array_dims(ty):
    """[[[u64; 64]; 6]; 2] -> [2, 6, 64]"""
    dims = re.findall(r";\s*(\d+)\]", ty)
    return [int(d) for d in reversed(dims)] if dims else []


def rule_components(ctx):
    """The from-scratch key reads every component of the position (shared with C04.same-words) over all 64 squares."""
    ix = ctx.ix
    sub = engine.Ctx(ctx.prop, ix, ctx.config)
    sub.cur_rule = ctx.cur_rule
    c04.rule_same_words(sub, strict=True)
    n = 0
    for i in sub.insts:
        if ":From:" in i.key or "four-distinct-tables" in i.key or (":word" in i.key and "ZKey::" in i.key):
            ctx.insts.append(i)
            n += 1
    ctx.functions |= sub.functions
    b = ctx.body(c04.ZFROM)
    sym = ctx.sym(b)
    ws, _b, _s = c04.xor_words(ix, c04.ZFROM)
    ctx.floor("XOR sites of the from-scratch key", len(ws), 7)
    # the piece loop covers all 64 squares
    rng = None
    for fld, idx, bi in ws:
        if fld == "pieces":
            for x in walk(idx[2]):
                r = loop_range(sym, x) if isinstance(x, tuple) else None
                if r:
                    rng = r
    ctx.check(rng == (0, 64), "From:all-64-squares", "the piece loop of the from-scratch key runs over squares 0..64", b.where(0), bad_what="the piece loop of ZKey::from runs over %s (a square outside it is not hashed at all)" % (rng,))
    # get_piece is asked for the square being hashed
    ok = False
    for fld, idx, bi in ws:
        if fld == "pieces":
            pl = [x for x in walk(idx[1]) if isinstance(x, tuple) and x[0] == "call" and x[1] == "board::Board::get_piece"]
            ok = bool(pl) and loop_range(sym, next((y for y in walk(pl[0][2][1]) if isinstance(y, tuple) and y[0] == "field" and y[-1] == "0"), None)) == (0, 64)
    ctx.check(ok, "From:piece-of-that-square", "the hashed piece is board.get_piece(Square::from(square)) of the loop's square", b.where(0), bad_what="the piece hashed for a square is not read from that square")


def rule_dependence(ctx):
    """In each mutator the XOR-ed word's index depends on every parameter."""
    ix = ctx.ix
    want = {"add_or_remove_piece": {"pieces": ["piece", "piece", "square"]}, "change_castling_rights": {"castling": ["castling"]}, "change_en_passant": {"en_passant": ["file"]}}
    for m, spec in want.items():
        ws, b, sym = c04.xor_words(ix, c04.ZK + m)
        ctx.functions.add(c04.ZK + m)
        for fld, idx, bi in ws:
            params = spec.get(fld)
            got = []
            for e in idx:
                args = sorted({x[1] for x in walk(e) if isinstance(x, tuple) and x[0] == "arg"})
                got.append(args)
            ok = params is not None and len(got) == len(params) and all(g == [p] for g, p in zip(got, params))
            ctx.check(ok, "ZKey::%s:index-depends-on-parameters" % m, "TABLE.%s is indexed by %s" % (fld, got), b.where(bi),
                      bad_what="ZKey::%s indexes TABLE.%s with %s (expected one index per parameter %s): a constant or partly dependent index makes different %s share a word" % (m, fld, [expr_str(e) for e in idx], params, fld))
        ctx.check(len(ws) == 1, "ZKey::%s:one-word" % m, "one table word per call", b.where(0), bad_what="ZKey::%s XORs %d words" % (m, len(ws)))


def conv_table(ix, key):
    """{variant: returned constant} for a `match x { V => c, .. }` conversion."""
    b = ix.body(key)
    sym = mir.Sym(b, ix)
    out = {}
    for bi, i, s in b.stmts():
        if mir.is_local(s["lhs"]) and s["lhs"]["l"] == 0:
            v = ceval(sym.rvalue(s["rv"]))
            for c in C.constraints_for(ix, b, sym, bi):
                for val in c[1]:
                    out[val] = v
    return out, b


def conv_table_by_cases(ix, key):
    """The same table read off by walking the conversion once per variant (`kind as usize`, a lookup array, nested
    matches): {variant: the one constant returned}."""
    from . import cases
    b = ix.body(key)
    ty = b.locals[1]["ty"].lstrip("&").replace("mut ", "")
    adt = ix.adts.get(ty)
    out = {}
    if adt is None or adt["kind"] != "Enum":
        return out, b
    for v in adt["variants"]:
        payloads = [[]]
        for f in v["fields"]:
            fa = ix.adts.get(f["ty"])
            if fa is not None and fa["kind"] == "Enum" and all(not w["fields"] for w in fa["variants"]):
                payloads = [p + [cases.enum_val(ix, f["ty"], w["name"])] for p in payloads for w in fa["variants"]]
            else:
                payloads = [p + [("unknown", f["name"])] for p in payloads]
        got = set()
        for pl in payloads:
            run = cases.run(ix, b, {b.local_name(1): cases.enum_val(ix, ty, v["name"], pl)})
            rets = [p for p in run.paths if p.end == "return"]
            if run.overflow or len(rets) != 1 or any(p.end not in ("return", "panic", "unreachable") for p in run.paths):
                got.add(None)
                continue
            got.add(ceval(rets[0].ret))
        out[v["name"]] = next(iter(got)) if len(got) == 1 else None
    return out, b


def rule_injective(ctx):
    ix = ctx.ix
    adt = ix.adt(ZTABLE)
    dims = {f["name"]: array_dims(f["ty"]) for f in adt["variants"][0]["fields"]}
    ctx.check(dims.get("pieces") == [2, 6, 64] and dims.get("castling") == [4] and dims.get("en_passant") == [8] and dims.get("white_turn") == [], "ZTable:dimensions",
              "ZTable: pieces[2][6][64], castling[4], en_passant[8], white_turn", bad_what="ZTable dimensions are %s" % dims)
    for key, want in (("board::piece::<impl std::convert::From<board::piece::Kind> for usize>::from", 6),
                      ("board::ply::castling::<impl std::convert::From<board::ply::castling::CastlingKind> for usize>::from", 4),
                      ("board::piece::<impl std::convert::From<board::piece::Color> for usize>::from", 2)):
        t, b = conv_table(ix, key)
        if len(t) != want or any(v is None for v in t.values()):
            t, b = conv_table_by_cases(ix, key)
        ctx.functions.add(key)
        vals = sorted(v for v in t.values() if v is not None)
        ctx.check(len(t) == want and vals == list(range(want)), "%s:injective-onto-range" % key.split("From<")[1].split(">")[0].split("::")[-1],
                  "%s maps its %d variants one-to-one onto 0..%d (%s)" % (C.short(key), want, want, t), b.where(0),
                  bad_what="%s maps %s: two variants share an index or an index is out of range, so two different components share a table word" % (key, t))
    cadt = ix.adt("board::piece::Color")
    disc = {v["name"]: int(v["discr"]) for v in cadt["variants"]}
    t, _b = conv_table(ix, "board::piece::<impl std::convert::From<board::piece::Color> for usize>::from")
    ctx.check(disc == {"White": 0, "Black": 1} and t == {"White": 0, "Black": 1}, "Color:as-usize-agrees-with-From", "`Color as usize` (used by init) and usize::from(Color) (used by the key) agree", bad_what="Color discriminants %s vs From<Color> %s" % (disc, t))
    # en-passant file is 0..8: the FEN reader produces char - 'a' for 'a'..='h' (C07.ep) and make_move copies dest.file (< 8 for generated moves)


def iter_mut_target(b, sym, lhs, table_local):
    """For a store `*entry = v`: the field F when `entry` is the item of `for entry in &mut table.F` (the loop visits every
    element of the array exactly once), else None."""
    e = sym.local(lhs["l"])
    if not (e[0] == "field" and e[-1] == "0" and e[1][0] == "as" and e[1][2] == "Some"):
        return None
    nx = e[1][1]
    if not (nx[0] == "call" and isinstance(nx[1], str) and nx[1].endswith("::next") and "IterMut" in nx[1]):
        return None
    it = nx[2][0]
    for x in walk(it):
        if isinstance(x, tuple) and x[0] == "var":
            it = sym.expand_var(x)
    it = mir.strip_refs(it)
    if it[0] == "call" and it[1].endswith("::into_iter") and "IntoIterator" in it[1]:
        it = mir.strip_refs(it[2][0])
    elif it[0] == "call" and it[1].endswith("::iter_mut"):
        it = mir.strip_refs(it[2][0])
    else:
        return None
    if it[0] == "field" and len(it) == 3 and it[1] == ("var", b.local_name(table_local)):
        return it[2]
    return None


def rule_init(ctx):
    """ZTable::init gives every table element and white_turn its own freshly drawn word."""
    ix = ctx.ix
    b = ctx.body(INIT)
    sym = ctx.sym(b)
    tab = [l for l in range(len(b.locals)) if b.local_name(l) == "table"]
    ctx.check(len(tab) == 1, "init:table-variable", "ZTable::init fills one table", b.where(0), bad_what="cannot find the `table` variable")
    if not tab:
        return
    uses = {}
    for bi, t in b.calls():
        if callee_is(t, "*RngCore>::next_u64", "*::next_u64"):
            uses[t["dest"]["l"]] = 0
    writes = {}
    for bi, i, s in b.stmts():
        lhs = s["lhs"]
        whole = iter_mut_target(b, sym, lhs, tab[0]) if lhs["p"] == ["*"] else None
        if whole is None and (lhs["l"] != tab[0] or not lhs["p"]):
            continue
        if whole is not None:
            # `for entry in &mut table.castling { *entry = .. }`: every element of that array, in order
            fld = whole
            idx = [("all",)]
        else:
            fld = lhs["p"][0]["n"]
            idx = [sym.local(e["i"]) for e in lhs["p"][1:] if isinstance(e, dict) and "i" in e]
        p = op_place(s["rv"].get("a", {})) if s["rv"].get("k") == "use" else None
        fresh = p is not None and mir.is_local(p) and p["l"] in uses
        if fresh:
            uses[p["l"]] += 1
        writes.setdefault(fld, []).append((bi, idx, fresh, expr_str(sym.rvalue(s["rv"]))[:60]))
    for fld, ws in sorted(writes.items()):
        for bi, idx, fresh, txt in ws:
            ctx.check(fresh, c04.c15_dedup(ctx.__dict__.setdefault("_seen05", {}), "init:%s:fresh-word" % fld), "table.%s element is assigned directly from its own rng.next_u64() call" % fld, b.where(bi),
                      bad_what="table.%s is assigned `%s`, not a freshly drawn word: elements share a value or stay constant" % (fld, txt))
    ctx.check(all(v == 1 for v in uses.values()) and len(uses) >= 5, "init:each-draw-used-once", "each of the %d next_u64() call sites feeds exactly one assignment" % len(uses), b.where(0), bad_what="next_u64 results are reused or dropped: %s" % uses)
    # index coverage
    pw = writes.get("pieces", [])
    cols = sorted(ceval(i[0]) for _b, i, _f, _t in pw if len(i) == 3 and ceval(i[0]) is not None)
    rngs = {(loop_range(sym, i[1]), loop_range(sym, i[2])) for _b, i, _f, _t in pw if len(i) == 3}
    ctx.check(cols == [0, 1] and rngs == {((0, 6), (0, 64))}, "init:pieces-coverage", "pieces[0 and 1][0..6][0..64] are all assigned", b.where(0), bad_what="pieces is filled for colours %s over index ranges %s" % (cols, rngs))
    for fld, n in (("castling", 4), ("en_passant", 8)):
        w = writes.get(fld, [])
        r = {(0, n) if i[0] == ("all",) else loop_range(sym, i[0]) for _b, i, _f, _t in w if len(i) == 1}
        ctx.check(len(w) == 1 and r == {(0, n)}, "init:%s-coverage" % fld, "%s[0..%d] all assigned" % (fld, n), b.where(0), bad_what="%s is filled over %s" % (fld, r))
    ctx.check(len(writes.get("white_turn", [])) == 1, "init:white_turn-assigned", "white_turn is assigned", b.where(0), bad_what="white_turn is not assigned exactly once (it stays 0: side to move is not hashed)")
    seeds = [t for bi, t in b.calls() if callee_is(t, "*::seed_from_u64")]
    ctx.check(len(seeds) == 1 and const_int(seeds[0]["args"][0]) is not None, "init:seeded-from-constant", "one generator, seeded from a constant", b.where(0), bad_what="the generator is not seeded once from a constant")
    # the table used by the key is this table
    ctx.check(any(callee_is(t, "std::sync::OnceLock::get_or_init") and any((a.get("const") or {}).get("fn") == INIT for a in t["args"]) for bb in ix.fn_bodies() for _b, t in bb.calls() if bb.key.startswith("board::zkey") or "ZKey" in bb.key),
              "TABLE:initialised-by-init", "TABLE.get_or_init(ZTable::init) is what the key functions use", bad_what="the key functions do not initialise TABLE with ZTable::init")



def rule_key_identity(ctx):
    """"Different keys" is what the cache and the repetition record see only if comparing and hashing a key look at the whole
    word: `ZKey == ZKey` compares the two u64 (the derive, or a manual impl that does the same) and `Hash` feeds the hasher
    that very word."""
    ix = ctx.ix
    eqb = ctx.body("<board::zkey::ZKey as std::cmp::PartialEq>::eq")
    r = mir.strip_copies(ctx.sym(eqb).local(0))

    def word(e, who):
        e = mir.strip_copies(e)
        return e[0] == "field" and e[2:] == ("0",) and mir.strip_copies(e[1]) in (("deref", ("arg", who)), ("arg", who))
    a, o = eqb.local_name(1), eqb.local_name(2)
    ok = r[0] == "bin" and r[1] == "Eq" and ((word(r[2], a) and word(r[3], o)) or (word(r[2], o) and word(r[3], a))) and not list(eqb.calls())
    ctx.check(ok, "ZKey:eq-compares-the-whole-word", "ZKey == ZKey is `self.0 == other.0`", eqb.where(0),
              bad_what="ZKey equality is `%s`: two different keys can compare equal, so the repetition record and the position cache confuse the positions they stand for" % expr_str(r)[:100])
    ne = ix.bodies.get("<board::zkey::ZKey as std::cmp::PartialEq>::ne")
    ctx.check(ne is None, "ZKey:ne-is-not-eq", "`!=` is the provided negation of `==`", eqb.where(0), bad_what="ZKey defines its own `ne`; cannot decide that it is !eq")
    hb = ctx.body("<board::zkey::ZKey as std::hash::Hash>::hash")
    hs = ctx.sym(hb)
    writes = [(bi, t) for bi, t in hb.calls()]
    okh = len(writes) == 1 and (writes[0][1].get("callee") or "").endswith("Hasher::write_u64") and word(hs.operand(writes[0][1]["args"][1]), hb.local_name(1))
    if not okh and len(writes) == 1 and (writes[0][1].get("callee") or "").endswith("Hash for u64>::hash"):
        # the derive: `self.0.hash(state)`
        okh = word(mir.strip_refs(hs.operand(writes[0][1]["args"][0])), hb.local_name(1))
    ctx.check(okh, "ZKey:hash-feeds-the-whole-word", "Hash for ZKey writes self.0 (one write_u64) to the hasher", hb.where(0),
              bad_what="ZKey's Hash does not feed exactly its u64 to the hasher (%s)" % [C.short(t.get("callee") or "?") for _b, t in writes])


RULES = [("key-identity", rule_key_identity), ("components", rule_components), ("dependence", rule_dependence), ("injective", rule_injective), ("init", rule_init)]
# two different positions can only be told apart by their keys if the key the board carries IS the key of its position:
# the incremental-update pairing rules of C04 are decided here too (a stale or stray word makes distinct positions share a key)
RULES += engine.premise_rules("c04", ["clone", "writers", "piece-pair", "turn-pair", "ep-pair", "castle-pair", "castle-revert", "ctor"])
# the colour index of a piece word is usize(Kind::get_color(piece))
RULES += engine.premise_rules("c01", ["leaf-accessors"])


def run(tier):
    return engine.main(
        PROP, "every component contributes its own word", RULES, "other",
        explanation=("Whether two 64-bit words (or XOR combinations) happen to coincide is a property of the ChaCha8 output; deciding it would mean running the generator, so actual distinctness over explored "
                     "positions is NOT decided. Decided is exactly the failure the property's rationale names - a component that is not hashed, or hashed with a shared word: the from-scratch key reads every "
                     "component (all 64 squares' pieces, each of the four castling rights, the en-passant file, the side to move) and XORs one word for each; in every mutator the word's index depends on every "
                     "parameter; the index maps (kind, castling kind, colour, square) are injective onto the table dimensions; ZTable::init assigns every element of every table and white_turn from its own fresh "
                     "next_u64() draw of one constant-seeded generator; the four component kinds use four different tables."),
        assumptions=["distinct draws of the generator are distinct 64-bit words and no XOR combination of them cancels (not decided)"],
        tier=tier)
