"""Tables shared by C01 and C03: the castling rook relocation."""
from . import mir
from . import common as C
from .mir import expr_str, walk, callee_is

ROOK_ORACLE = {(0, 6): ("h1", "f1"), (0, 2): ("a1", "d1"), (7, 6): ("h8", "f8"), (7, 2): ("a8", "d8")}


def square_name(x):
    """'h1' for Square::from("h1") or for the literal Square { rank: 0, file: 7 } (also inside a named constant)."""
    x = mir.strip_copies(x)
    if x[0] == "call" and x[1].endswith("From<&str>>::from") and x[2] and x[2][0][0] == "const" and isinstance(x[2][0][1], str):
        return x[2][0][1]
    if x[0] == "agg" and isinstance(x[1], str) and x[1].endswith("square::Square") and len(x) > 4:
        f = dict(zip(x[4], x[3]))
        r, fl = f.get("rank"), f.get("file")
        if r and fl and r[0] == "const" and fl[0] == "const" and isinstance(r[1], int) and isinstance(fl[1], int) and 0 <= r[1] < 8 and 0 <= fl[1] < 8:
            return "abcdefgh"[fl[1]] + str(r[1] + 1)
    return None


def rook_table(ix, key):
    """{(king dest rank, file): (rook from, rook to)} read off the match on the king's destination."""
    b = ix.body(key)
    sym = mir.Sym(b, ix)
    out = {}
    for bi, i, s in b.stmts():
        rv = s["rv"]
        if not (rv.get("k") == "agg" and rv.get("agg") == "tuple" and len(rv["ops"]) == 2) and not (rv.get("k") == "use" and "const" in rv["a"]):
            continue
        v = sym.rvalue(rv)
        if not (v[0] == "agg" and v[1] == "tuple" and len(v[3]) == 2):
            continue
        names = [square_name(x) for x in v[3]]
        if None in names:
            continue
        rank = file = None
        for text, vals, _d, e in C.constraints_for(ix, b, sym, bi):
            if text.endswith("dest.rank") and len(vals) == 1:
                rank = next(iter(vals))
            if text.endswith("dest.file") and len(vals) == 1:
                file = next(iter(vals))
        out[(rank, file)] = tuple(names)
    return out, b


def check_rook_tables(ctx):
    ix = ctx.ix
    for key in ("board::Board::make_move_castling_checks", "board::Board::unmake_move"):
        t, b = rook_table(ix, key)
        ctx.functions.add(key)
        for k in sorted(set(ROOK_ORACLE) | set(t), key=str):
            ctx.check(t.get(k) == ROOK_ORACLE.get(k), "%s:castling-rook:king-to-r%sf%s" % (key, k[0], k[1]),
                      "king to rank %s file %s moves the rook %s" % (k[0], k[1], t.get(k)), b.where(0),
                      bad_what="%s: for the king arriving on rank %s file %s the rook goes %s, the rules say %s" % (C.short(key), k[0], k[1], t.get(k), ROOK_ORACLE.get(k)))
