"""Tables shared by C01 and C03: the castling rook relocation."""
from . import mir
from . import common as C
from .mir import expr_str, walk, callee_is

ROOK_ORACLE = {(0, 6): ("h1", "f1"), (0, 2): ("a1", "d1"), (7, 6): ("h8", "f8"), (7, 2): ("a8", "d8")}


def square_name(x):
    """'h1' for Square::from("h1") or for the literal Square { rank: 0, file: 7 } (also inside a named constant)."""
    x = mir.strip_copies(x)
    if x[0] == "call" and x[1].endswith("From<&str>>::from") and x[2] and x[2][0][0] == "const" and isinstance(x[2][0][1], str):
        return x[2][0][1]
    if x[0] == "agg" and isinstance(x[1], str) and x[1].endswith("square::Square") and len(x) > 4:
        f = dict(zip(x[4], x[3]))
        r, fl = f.get("rank"), f.get("file")
        if r and fl and r[0] == "const" and fl[0] == "const" and isinstance(r[1], int) and isinstance(fl[1], int) and 0 <= r[1] < 8 and 0 <= fl[1] < 8:
            return "abcdefgh"[fl[1]] + str(r[1] + 1)
    return None


def _pair_order(b, sym, lhs):
    """For a tuple local holding two square names: (component that becomes the rook's origin, component that becomes its
    destination), read off the one struct literal `X { start: Square::from(pair.i), dest: Square::from(pair.j) }` that
    consumes the pair; None when the pair is used in any other way."""
    if lhs["p"]:
        return None
    name = b.local_name(lhs["l"])

    def comp(x):
        x = mir.strip_copies(x)
        if not (x[0] == "call" and x[1].endswith("Square as std::convert::From<&str>>::from") and len(x[2]) == 1):
            return None
        v = mir.strip_copies(x[2][0])
        while v[0] in ("deref", "ref"):
            v = mir.strip_copies(v[1])
        if v[0] == "field" and len(v) == 3 and mir.strip_copies(v[1]) == ("var", name) and v[2] in ("0", "1"):
            return int(v[2])
        return None
    found = []
    for bi, i, st in b.stmts():
        rv = st["rv"]
        if rv.get("k") == "agg" and rv.get("agg") == "adt" and len(rv["ops"]) == 2:
            v = sym.rvalue(rv)
            if len(v) > 4 and v[4] and len(v[4]) == 2:
                cs = [comp(x) for x in v[3]]
                if None in cs or sorted(cs) != [0, 1]:
                    continue
                fn = [str(x).lower() for x in v[4]]
                is_from = [any(w in x for w in ("start", "from", "origin", "src")) for x in fn]
                if is_from == [True, False]:
                    found.append((cs[0], cs[1]))
                elif is_from == [False, True]:
                    found.append((cs[1], cs[0]))
    return found[0] if len(found) == 1 else None


def rook_table(ix, key):
    """{(king dest rank, file): (rook from, rook to)} read off the match on the king's destination."""
    b = ix.body(key)
    sym = mir.Sym(b, ix)
    out = {}
    for bi, i, s in b.stmts():
        rv = s["rv"]
        if not (rv.get("k") == "agg" and rv.get("agg") in ("tuple", "adt") and len(rv["ops"]) == 2) and not (rv.get("k") == "use" and "const" in rv["a"]):
            continue
        v = sym.rvalue(rv)
        if not (v[0] == "agg" and len(v[3]) == 2):
            continue
        elems = list(v[3])
        if v[1] != "tuple":
            # a small struct instead of the pair (`RookHop { start, dest }`): which field is the origin is told by its name
            if str(v[1]).endswith("square::Square") or len(v) < 5 or not v[4] or len(v[4]) != 2:
                continue
            fn = [str(x).lower() for x in v[4]]
            is_from = [any(w in x for w in ("start", "from", "origin", "src")) for x in fn]
            is_to = [any(w in x for w in ("dest", "to", "end", "target")) for x in fn]
            if is_from == [False, True] and is_to == [True, False]:
                elems.reverse()
            elif not (is_from == [True, False] and is_to == [False, True]):
                continue
        names = [square_name(x) for x in elems]
        if None in names and all(mir.strip_copies(x)[0] == "const" and isinstance(mir.strip_copies(x)[1], str) and len(mir.strip_copies(x)[1]) == 2
                                 and mir.strip_copies(x)[1][0] in "abcdefgh" and mir.strip_copies(x)[1][1] in "12345678" for x in elems):
            # the pair of square names, turned into squares once behind the match: every reader of the pair must do just that
            order = _pair_order(b, sym, s["lhs"])
            if order is not None:
                lits = [mir.strip_copies(x)[1] for x in elems]
                names = [lits[order[0]], lits[order[1]]]
        if None in names:
            continue
        rank = file = None
        for text, vals, _d, e in C.constraints_for(ix, b, sym, bi):
            if text.endswith("dest.rank") and len(vals) == 1:
                rank = next(iter(vals))
            if text.endswith("dest.file") and len(vals) == 1:
                file = next(iter(vals))
        out[(rank, file)] = tuple(names)
    return out, b


def check_rook_tables(ctx):
    ix = ctx.ix
    for key in ("board::Board::make_move_castling_checks", "board::Board::unmake_move"):
        t, b = rook_table(ix, key)
        ctx.functions.add(key)
        for k in sorted(set(ROOK_ORACLE) | set(t), key=str):
            ctx.check(t.get(k) == ROOK_ORACLE.get(k), "%s:castling-rook:king-to-r%sf%s" % (key, k[0], k[1]),
                      "king to rank %s file %s moves the rook %s" % (k[0], k[1], t.get(k)), b.where(0),
                      bad_what="%s: for the king arriving on rank %s file %s the rook goes %s, the rules say %s" % (C.short(key), k[0], k[1], t.get(k), ROOK_ORACLE.get(k)))
