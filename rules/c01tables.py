"""Tables shared by C01 and C03: the castling rook relocation."""
from . import mir
from . import common as C
from .mir import expr_str, walk, callee_is

ROOK_ORACLE = {(0, 6): ("h1", "f1"), (0, 2): ("a1", "d1"), (7, 6): ("h8", "f8"), (7, 2): ("a8", "d8")}


def rook_table(ix, key):
    """{(king dest rank, file): (rook from, rook to)} read off the match on the king's destination."""
    b = ix.body(key)
    sym = mir.Sym(b, ix)
    out = {}
    for bi, i, s in b.stmts():
        rv = s["rv"]
        if rv.get("k") != "agg" or rv.get("agg") != "tuple" or len(rv["ops"]) != 2:
            continue
        v = sym.rvalue(rv)
        names = []
        for x in v[3]:
            if x[0] == "call" and x[1].endswith("From<&str>>::from") and x[2] and x[2][0][0] == "const":
                names.append(x[2][0][1])
        if len(names) != 2:
            continue
        rank = file = None
        for text, vals, _d, e in C.constraints_for(ix, b, sym, bi):
            if text.endswith("dest.rank") and len(vals) == 1:
                rank = next(iter(vals))
            if text.endswith("dest.file") and len(vals) == 1:
                file = next(iter(vals))
        out[(rank, file)] = tuple(names)
    return out, b


def check_rook_tables(ctx):
    ix = ctx.ix
    for key in ("board::Board::make_move_castling_checks", "board::Board::unmake_move"):
        t, b = rook_table(ix, key)
        ctx.functions.add(key)
        for k in sorted(set(ROOK_ORACLE) | set(t), key=str):
            ctx.check(t.get(k) == ROOK_ORACLE.get(k), "%s:castling-rook:king-to-r%sf%s" % (key, k[0], k[1]),
                      "king to rank %s file %s moves the rook %s" % (k[0], k[1], t.get(k)), b.where(0),
                      bad_what="%s: for the king arriving on rank %s file %s the rook goes %s, the rules say %s" % (C.short(key), k[0], k[1], t.get(k), ROOK_ORACLE.get(k)))
