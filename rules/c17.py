"""C17  Evaluation is colour-symmetric  (DESIGN 3, C17)."""
from . import engine, mir, tables
from . import common as C
from .mir import expr_str, walk, callee_is, const_int, op_place, strip_generics, fields_of

PROP = "C17"
EVAL_DECL = "evaluate::Evaluator::evaluate"
COUNT = "board::Board::get_piece_count"
BB_COUNT = "board::piece_bitboards::PieceBitboards::get_piece_count"


def evaluators(ix):
    return ix.impls_of_trait_method(EVAL_DECL)


def contributions(ix, b):
    """[(sign, rows, block)] for each accumulator update `acc = acc.saturating_{add,sub}(count(kind) * value)`;
    rows = [(variant, coeff, colour expr)].  Also returns the accumulator local, unrecognised updates and the initial values.

    The accumulator is whatever is returned: one variable updated in two loops, or a chain of variables each started from
    the finished previous one (`let own = ..sum..; let total = own - ..sum..`), which is what folds lower to."""
    sym = mir.Sym(b, ix)
    contribs, unknown, init = [], [], []
    chain = []          # accumulator locals, the returned one first
    todo = [0]
    reads = []          # (accumulator read as a start value, block of the read)
    firsts = []         # first operands of the updates: each must be an accumulator of the chain

    def update(t, db):
        sign = +1 if callee_is(t, "core::num::<impl i16>::saturating_add", "*::saturating_add", "*::wrapping_add", "*::checked_add") else \
            -1 if callee_is(t, "core::num::<impl i16>::saturating_sub", "*::saturating_sub", "*::wrapping_sub") else None
        if sign is None or len(t["args"]) != 2:
            return False
        rows = parse_term(sym.operand(t["args"][1]), sym)
        if rows is None:
            return False
        firsts.append((mir.strip_copies(sym.operand(t["args"][0])), db))
        contribs.append((sign, rows, db))
        return True

    while todo:
        v = todo.pop()
        if v in chain or len(chain) > 6:
            continue
        chain.append(v)
        for (db, di, rv) in b.defs().get(v, []):
            k = rv.get("k")
            if k == "use" and const_int(rv["a"]) is not None:
                init.append((const_int(rv["a"]), db))
            elif k == "use":
                p = op_place(rv["a"])
                if p is None or not mir.is_local(p):
                    unknown.append((expr_str(sym.rvalue(rv))[:120], db))
                    continue
                sd = b.single_def(p["l"])
                if sd and sd[2].get("k") == "call" and p["l"] not in b.names:
                    if not update(sd[2]["t"], db):
                        unknown.append((expr_str(sym.rvalue(rv))[:120], db))
                elif p["l"] > b.arg_count:
                    reads.append((p["l"], db))      # starts from another accumulator
                    todo.append(p["l"])
                else:
                    unknown.append((expr_str(sym.rvalue(rv))[:120], db))
            elif k == "call":
                if not update(rv["t"], db):
                    unknown.append((expr_str(("call", strip_generics(mir.callee_name(rv["t"])), tuple(sym.operand(a) for a in rv["t"]["args"])))[:120], db))
            elif k == "binop":
                unknown.append((expr_str(sym.rvalue(rv))[:120], db))
            else:
                unknown.append((str(k), db))
    names = {b.local_name(l) for l in chain}
    for e, db in firsts:
        if not (e[0] == "var" and e[1] in names):
            unknown.append(("update of %s, which is not the accumulator" % expr_str(e)[:60], db))
    # an accumulator read as a start value must be finished by then
    for l, rb in reads:
        later = [db for (db, di, rv) in b.defs().get(l, []) if db in b.reachable_from(rb)]
        if later:
            unknown.append(("%s is still updated after it was read as a start value" % b.local_name(l), rb))
    if not contribs and not init:
        folded = fold_contributions(ix, b, sym)
        if folded is not None:
            return folded
        return None, contribs, [("return value is not a single accumulator variable", 0)], init
    acc = chain[1] if len(chain) > 1 else chain[0]
    return acc, contribs, unknown, init


def fold_contributions(ix, b, sym):
    """The same sum written with iterator folds: `[rows..].into_iter().fold(INIT, |acc, (kind, value)| acc.saturating_add(
    count(kind) as i16 * value))`, nested or chained through variables.  Returns the tuple `contributions` returns, with the
    pseudo accumulator -1, or None when the returned value is not such a chain."""
    r = sym.local(0)
    contribs, unknown, init = [], [], []
    steps = 0
    while True:
        r = mir.strip_copies(r)
        if r[0] == "var":
            x = sym.expand_var(r)
            if x == r:
                return None
            r = x
            continue
        if r[0] == "const" and isinstance(r[1], int):
            init.append((r[1], 0))
            break
        if not (r[0] == "call" and isinstance(r[1], str) and r[1].endswith("::fold") and "Iterator" in r[1] and len(r[2]) == 3):
            return None
        it, ini, clo = r[2]
        arrays = [z for z in walk(it) if isinstance(z, tuple) and z[0] == "agg" and z[1] == "array"]
        if len(arrays) != 1 or not (clo[0] == "closure" and clo[1] in ix.bodies):
            return None
        cb = ix.bodies[clo[1]]
        csym = mir.Sym(cb, ix)
        cr = csym.local(0)
        sign = None
        if cr[0] == "call" and isinstance(cr[1], str) and len(cr[2]) == 2:
            sign = +1 if cr[1].endswith("saturating_add") else -1 if cr[1].endswith("saturating_sub") else None
        if sign is None or cb.arg_count != 3 or cr[2][0] != ("arg", cb.local_name(2)):
            unknown.append((expr_str(cr)[:120], 0))
            r = ini
            continue
        term = cr[2][1]
        mul = next((x for x in walk(term) if isinstance(x, tuple) and x[0] == "bin" and x[1].startswith("Mul")), None)
        item = cb.local_name(3)
        ok = False
        if mul is not None:
            sides = [mul[2], mul[3]]
            cnt = [s2 for s2 in sides if any(isinstance(y, tuple) and y[0] == "call" and y[1] == COUNT for y in walk(s2))]
            val = [s2 for s2 in sides if s2 not in cnt]
            if len(cnt) == 1 and len(val) == 1:
                kparts = [y for y in walk(cnt[0]) if isinstance(y, tuple) and y[0] == "field" and y[1] == ("arg", item)]
                vparts = [y for y in walk(val[0]) if isinstance(y, tuple) and y[0] == "field" and y[1] == ("arg", item)]
                ok = bool(kparts) and bool(vparts) and all(y[2:] == ("0",) for y in kparts) and all(y[2:] == ("1",) for y in vparts)
        if not ok:
            unknown.append((expr_str(cr)[:120], 0))
            r = ini
            continue
        rows = []
        for el in arrays[0][3]:
            if not (el[0] == "agg" and el[1] == "tuple" and len(el[3]) == 2):
                return None
            k, v = el[3]
            if not (k[0] == "agg" and isinstance(k[1], str) and k[1].endswith("piece::Kind") and v[0] == "const"):
                return None
            rows.append((k[2], v[1], k[3][0]))
        contribs.append((sign, rows, 0))
        steps += 1
        r = ini
        if steps > 8:
            return None
    if not contribs:
        return None
    return -1, contribs, unknown, init


def iter_source(e, sym):
    """The array a `next(&mut iter)` payload ranges over."""
    out = []
    for y in walk(e):
        if isinstance(y, tuple) and y[0] == "var":
            x = sym.expand_var(y)
            if x != y:
                out.extend(z for z in walk(x) if isinstance(z, tuple) and z[0] == "agg" and z[1] == "array")
        if isinstance(y, tuple) and y[0] == "agg" and y[1] == "array":
            out.append(y)
    return out


def parse_term(term, sym):
    """count(kind) * value where (kind, value) ranges over an array of (Kind::V(colour), const) tuples."""
    mul = None
    for x in walk(term):
        if isinstance(x, tuple) and x[0] == "bin" and x[1].startswith("Mul"):
            mul = x
            break
    if mul is None:
        return None
    sides = [mul[2], mul[3]]
    cnt = [s for s in sides if any(isinstance(y, tuple) and y[0] == "call" and y[1] == COUNT for y in walk(s))]
    val = [s for s in sides if s not in cnt]
    if len(cnt) != 1 or len(val) != 1:
        return None
    arrays = iter_source(cnt[0], sym)
    arrays_v = iter_source(val[0], sym)
    if len(arrays) < 1 or not arrays_v or arrays[0] != arrays_v[0]:
        # a single constant piece/value pair (no loop)
        kinds = [y for y in walk(cnt[0]) if isinstance(y, tuple) and y[0] == "agg" and isinstance(y[1], str) and y[1].endswith("piece::Kind")]
        if len(kinds) == 1 and val[0][0] == "const":
            return [(kinds[0][2], val[0][1], kinds[0][3][0])]
        return None
    # kind must be field 0 and value field 1 of the same element
    kf = field_index(cnt[0])
    vf = field_index(val[0])
    if kf != "0" or vf != "1":
        return None
    rows = []
    for el in arrays[0][3]:
        if not (el[0] == "agg" and el[1] == "tuple" and len(el[3]) == 2):
            return None
        k, v = el[3]
        if not (k[0] == "agg" and isinstance(k[1], str) and k[1].endswith("piece::Kind") and v[0] == "const"):
            return None
        rows.append((k[2], v[1], k[3][0]))
    return rows


def field_index(e):
    """The tuple field read from the iterator payload: (.. as Some).0.<k>"""
    for x in walk(e):
        if isinstance(x, tuple) and x[0] == "field" and isinstance(x[1], tuple) and x[1][0] == "as" and x[1][2] == "Some":
            names = x[2:]
            if len(names) == 2 and names[0] == "0":
                return names[1]
    return None


def rule_tables(ctx):
    ix = ctx.ix
    evs = evaluators(ix)
    ctx.check(len(evs) >= 1, "evaluators", "%d Evaluator implementation(s): %s" % (len(evs), [C.short(k) for k in evs]), bad_what="no implementation of Evaluator::evaluate found")
    for key in evs:
        b = ctx.body(key)
        acc, contribs, unknown, init = contributions(ix, b)
        plus = sorted((v, c) for sign, rows, _ in contribs if sign > 0 for (v, c, _col) in rows)
        minus = sorted((v, c) for sign, rows, _ in contribs if sign < 0 for (v, c, _col) in rows)
        ctx.check(plus == minus and plus, "%s:material-tables-equal" % key,
                  "mover's table %s equals the opponent's table (same kinds, same coefficients)" % plus, b.where(0),
                  bad_what="the material table added for one side %s differs from the one subtracted for the other %s: the evaluation is not colour-symmetric (e.g. a piece worth more for the mover than for the opponent)" % (plus, minus))
        for sign, rows, db in contribs:
            for (v, c, col) in rows:
                ctx.ok("%s:row:%s%s*%s" % (key, "+" if sign > 0 else "-", c, v), "%s %d x count(%s(%s))" % ("+" if sign > 0 else "-", c, v, expr_str(col)), b.where(db))
        ctx.floor("material rows of %s" % C.short(key), len(plus) + len(minus), 10)
        # the sums stay inside the score type: the symmetry argument is about integers, the code computes in i16 (saturating on
        # one side only would break "negation"); with at most 16 men a side, 15 of them of the most valuable kind
        coeffs = [c for (_v, c) in plus if isinstance(c, int)]
        worst = 15 * max(coeffs) if coeffs else None
        ctx.check(worst is not None and worst <= 32767, "%s:material-fits-the-score-type" % key,
                  "15 men of the most valuable kind (%s) stay below i16::MAX: %s <= 32767" % (max(coeffs) if coeffs else None, worst), b.where(0),
                  bad_what="with the piece values %s one side's material can reach %s > 32767 (i16::MAX) with 15 men: the mover's sum clips while the opponent's view subtracts in full, so eval(p) != -eval(p with the other side to move)" % (sorted(set(coeffs)), worst))


def rule_sides(ctx):
    ix = ctx.ix
    for key in evaluators(ix):
        b = ctx.body(key)
        acc, contribs, unknown, init = contributions(ix, b)
        board_arg = None
        for l in range(1, b.arg_count + 1):
            if "board::Board" in b.locals[l]["ty"]:
                board_arg = b.local_name(l)
        mover = ("field", ("deref", ("arg", board_arg)), "current_turn")
        for sign, rows, db in contribs:
            cols = {col for (_v, _c, col) in rows}
            if sign > 0:
                ok = cols == {mover}
                want = "board.current_turn"
            else:
                ok = len(cols) == 1 and next(iter(cols))[0] == "call" and next(iter(cols))[1].endswith("Color::opposite") and next(iter(cols))[2][0] == mover
                want = "board.current_turn.opposite()"
            ctx.check(ok, "%s:side:%s" % (key, "mover" if sign > 0 else "opponent"), "the %s terms all count pieces of %s" % ("added" if sign > 0 else "subtracted", want), b.where(db),
                      bad_what="the %s terms count pieces of %s (expected %s for every row)" % ("added" if sign > 0 else "subtracted", sorted(expr_str(c) for c in cols), want))
    from . import c04
    sub = engine.Ctx(ctx.prop, ix, ctx.config)
    sub.cur_rule = ctx.cur_rule
    c04.rule_turn_pair(sub)
    ctx.insts.extend(i for i in sub.insts if "Color::opposite" in i.key)


def rule_only(ctx):
    ix = ctx.ix
    allowed = ("::into_iter", "::next", COUNT, "::saturating_add", "::saturating_sub", "Color::opposite", "::iter", "::copied", "::cloned")
    for key in evaluators(ix):
        b = ctx.body(key)
        acc, contribs, unknown, init = contributions(ix, b)
        ctx.check(acc is not None and [v for v, _ in init] == [0], "%s:accumulator-starts-at-0" % key, "the returned accumulator is initialised to 0", b.where(0),
                  bad_what="the accumulator is initialised with %s" % [v for v, _ in init])
        ctx.check(not unknown, "%s:only-material-terms" % key, "the accumulator is modified only by the %d material contributions" % len(contribs), b.where(unknown[0][1] if unknown else 0),
                  bad_what="the accumulator is also modified by %s: a term outside the symmetric material sum" % [u for u, _ in unknown])
        other = []
        allowed_here = allowed + (("::fold",) if acc == -1 else ())
        for bb in [b] + ix.closures_of(key):
            for bi, t in bb.calls():
                c = strip_generics(t.get("callee") or "")
                if not any(c.endswith(a) or c == a for a in allowed_here):
                    other.append((C.short(c), t["line"]))
        ctx.check(not other, "%s:no-other-board-reads" % key, "evaluate calls nothing but the piece counter, Color::opposite and iterator plumbing", b.where(0),
                  bad_what="evaluate also calls %s: another input to the score that the symmetry argument does not cover" % other)
        # direct field reads of the board other than current_turn
        reads = set()
        for bi, i, s in b.stmts():
            for o in mir.rv_operands(s["rv"]):
                p = op_place(o)
                if p is not None and p["l"] != 0 and "board::Board" in b.locals[p["l"]]["ty"]:
                    reads |= set(fields_of(p)[:1])
        ctx.check(reads <= {"current_turn"}, "%s:reads-only-current_turn" % key, "the only Board field read directly is current_turn", b.where(0), bad_what="evaluate reads Board fields %s" % sorted(reads))


def rule_count(ctx):
    ix = ctx.ix
    b = ctx.body(COUNT)
    fw = [t for bi, t in b.calls() if callee_is(t, BB_COUNT)]
    sym = ctx.sym(b)
    ok = len(fw) == 1 and mir.strip_copies(sym.operand(fw[0]["args"][0]))[-1] == "bitboards" and sym.operand(fw[0]["args"][1]) == ("arg", b.local_name(2))
    ctx.check(ok, "Board::get_piece_count:forwards", "Board::get_piece_count forwards its kind to the bitboards", b.where(0), bad_what="Board::get_piece_count does not simply forward to PieceBitboards::get_piece_count")
    tables.check_kc_table(ctx, BB_COUNT, "get_piece_count")
    # the same bijection the board is maintained with
    tables.check_kc_table(ctx, "board::piece_bitboards::PieceBitboards::add_piece", "add_piece")
    tables.check_kc_table(ctx, "board::piece_bitboards::PieceBitboards::remove_piece", "remove_piece")
    bb = ctx.body(BB_COUNT)
    # per (kind, colour): the result is count_ones of a bitboard and nothing else is computed
    from . import cases
    kparam = [bb.local_name(l) for l in range(1, bb.arg_count + 1) if bb.locals[l]["ty"] == "board::piece::Kind"]
    bad = []
    for k in tables.KINDS:
        for c in tables.COLOURS:
            run = cases.run(ix, bb, {kparam[0]: cases.enum_val(ix, "board::piece::Kind", k, [cases.enum_val(ix, "board::piece::Color", c)])}) if kparam else None
            rets = [p for p in run.paths if p.end == "return"] if run else []
            ok = run is not None and not run.overflow and len(rets) == 1
            if ok:
                r = mir.strip_copies(rets[0].ret)
                calls = [e[2] for e in rets[0].events if e[0] == "call"]
                ok = r[0] == "call" and r[1] == "board::bitboard::Bitboard::count_ones" and calls == ["board::bitboard::Bitboard::count_ones"]
            if not ok:
                bad.append((k, c))
    ctx.check(not bad, "get_piece_count:popcount-only", "for each of the 12 pieces the result is count_ones of one bitboard and nothing else", bb.where(0), bad_what="get_piece_count is not a plain count_ones for %s" % bad[:4])


RULES = [("tables", rule_tables), ("sides", rule_sides), ("only", rule_only), ("count", rule_count)]
# the evaluation counts the pieces of the board as it is represented: the representation staying the real position under
# make/unmake (placement, the castling bookkeeping that decides whether a rook is put back, undo = reverse of do) is decided here too
RULES += engine.premise_rules("c03", ["revocation-table", "placement"])
RULES += engine.premise_rules("c02", ["writeset", "inverse-seq", "probe-pair"])
# the material count is count_ones of the board of the piece's own colour
RULES += engine.premise_rules("c01", ["leaf-accessors"])
# a position set up piece by piece or from a FEN has each piece on the board of its own kind and colour (C07.bijection)
RULES += engine.premise_rules("c07", ["bijection", "letters"])


def run(tier):
    return engine.main(
        PROP, "evaluation is colour-symmetric", RULES, "proof",
        explanation=("Summarises every Evaluator::evaluate implementation from MIR as a list of contributions (Kind variant, side, coefficient, sign): one per accumulator update, expanding the "
                     "`for (kind, value) in [..]` aggregates. Obligations: the multiset of (variant, coefficient) added equals the multiset subtracted; added terms count board.current_turn's pieces "
                     "and subtracted terms count current_turn.opposite()'s; Color::opposite is an involution; the accumulator starts at 0 and nothing else touches it or reads the board; "
                     "get_piece_count maps (kind, colour) to the bitboard that add_piece/remove_piece maintain for that pair. Then eval(p) = sum_K v_K (n(K, mover) - n(K, opponent)), which is invariant under "
                     "rank flip + colour swap + side swap and negated by a side swap alone."),
        assumptions=["no saturation/overflow of the i16 sum beyond what `material-fits-the-score-type` decides (at most 16 men a side)", "count_ones is the population count", "the piece bitboards hold what add_piece/remove_piece put there (C02/C07)"],
        trusted_base=["rustc nightly MIR construction", "/verif/engine/mirfacts driver", "/verif/rules symbolic slices (mir.Sym) and decision-table extraction"],
        tier=tier)
