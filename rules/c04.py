"""C04  Position key is a function of the position, however it was reached  (DESIGN 3, C04).

Inductive invariant I: board.zkey == ZKey::from(&board).  Base: constructors.  Step: every writer of a
hashed component toggles the matching table word in the same control region."""
from . import engine, mir, effects
from . import common as C
from .c02 import eff, MAKE, UNMAKE, SWITCH_TURN, BOARD, calls_on_field, every_path_once, turn_is_white_guard
from .mir import expr_str, walk, callee_is, const_int, op_place, strip_generics, fields_of

PROP = "C04"
ADD = "board::Board::add_piece"
REMOVE = "board::Board::remove_piece"
CASTLE_CHECKS = "board::Board::make_move_castling_checks"
CASTLE_STATUS = "board::Board::castle_status"
ZK = "board::zkey::ZKey::"
ZFROM = "<board::zkey::ZKey as std::convert::From<&board::Board>>::from"
BUILD = "board::boardbuilder::BoardBuilder::build"
DEFAULT = "<board::Board as std::default::Default>::default"
HASHED = ("zkey", "bitboards", "current_turn", "en_passant_file", "history")
KIND_FIELD = {"WhiteKingside": "white_kingside", "WhiteQueenside": "white_queenside", "BlackKingside": "black_kingside", "BlackQueenside": "black_queenside"}

ALLOWED_WRITERS = {
    "zkey": {ADD, REMOVE, SWITCH_TURN, MAKE, CASTLE_CHECKS, UNMAKE, DEFAULT, BUILD},
    "bitboards": {ADD, REMOVE},
    "current_turn": {SWITCH_TURN},
    "en_passant_file": {MAKE, UNMAKE},
    "history": {MAKE, UNMAKE},
}


def board_field_of_place(body, place):
    """If the place lies inside a board::Board value, the name of the Board field it is in."""
    cur = body.locals[place["l"]]["ty"]
    for e in place["p"]:
        base = cur.lstrip("&").replace("mut ", "").strip()
        if isinstance(e, dict) and "n" in e:
            if base == BOARD:
                return e["n"]
            cur = e.get("ty", "")
        elif e == "*":
            cur = base
        elif isinstance(e, dict) and ("i" in e or "ci" in e):
            # element of array / slice / Vec deref: strip one level
            if base.startswith("["):
                cur = base[1:].rsplit(";", 1)[0].rstrip("]")
    return None


def direct_board_writers(ix):
    """{Board field: {function: [how]}} for assignments into, and `&mut` borrows of, Board fields."""
    out = {}
    for b in ix.fn_bodies():
        for bi, i, s in b.stmts():
            f = board_field_of_place(b, s["lhs"])
            if f:
                out.setdefault(f, {}).setdefault(b.key, []).append(("assign", bi))
            rv = s["rv"]
            if rv.get("k") in ("ref", "rawptr") and (rv.get("mut") or rv.get("k") == "rawptr"):
                f = board_field_of_place(b, rv["p"])
                if f:
                    out.setdefault(f, {}).setdefault(b.key, []).append(("&mut", bi))
    return out


def rule_writers(ctx):
    """Only the functions whose pairing is checked below may write a hashed component of a Board."""
    ix = ctx.ix
    w = direct_board_writers(ix)
    n = 0
    for f in HASHED:
        for k, sites in sorted(w.get(f, {}).items()):
            n += 1
            ctx.functions.add(k)
            ctx.check(k in ALLOWED_WRITERS[f], "Board.%s:writer:%s" % (f, k), "%s writes Board.%s (pairing checked by the other C04 rules)" % (C.short(k), f), ix.bodies[k].where(sites[0][1]),
                      bad_what="%s writes Board.%s directly; no rule pairs this write with a key update (e.g. a null move or a turn flip outside switch_turn breaks key == from-scratch key)" % (k, f))
    ctx.floor("direct writers of hashed Board state", n, 12)
    # whole-Board overwrites (assigning a Board value) are constructors' results, fine; Board literals only in constructors
    lits = set()
    for b in ix.fn_bodies():
        for bi, i, s in b.stmts():
            rv = s["rv"]
            if rv.get("k") == "agg" and rv.get("adt") == BOARD:
                lits.add(b.key)
    lits.discard("<board::Board as std::clone::Clone>::clone")  # derived field-wise copy: preserves the invariant
    ctx.check(lits == {DEFAULT, BUILD}, "Board-literals", "Board { .. } is constructed only in Board::default and BoardBuilder::build (and the derived Clone)", bad_what="Board literals in %s" % sorted(lits))
    # PieceBitboards mutators have no other callers
    for k in ("board::piece_bitboards::PieceBitboards::add_piece", "board::piece_bitboards::PieceBitboards::remove_piece"):
        callers = sorted(ix.callers(k))
        want = [ADD] if k.endswith("add_piece") else [REMOVE]
        ctx.check(callers == want, "%s:callers" % k, "%s is called only from %s" % (C.short(k), C.short(want[0])), bad_what="%s is called from %s" % (k, callers))
    # ZKey mutators are only called from the allowed writers
    for m in ("add_or_remove_piece", "change_castling_rights", "change_en_passant", "change_turn"):
        callers = sorted(ix.callers(ZK + m))
        ctx.check(set(callers) <= ALLOWED_WRITERS["zkey"] and callers, "%s:callers" % m, "ZKey::%s is called from %s" % (m, [C.short(c) for c in callers]),
                  bad_what="ZKey::%s is called from %s" % (m, callers))


def rule_piece_pair(ctx):
    ix = ctx.ix
    for key, bbfn in ((ADD, "board::piece_bitboards::PieceBitboards::add_piece"), (REMOVE, "board::piece_bitboards::PieceBitboards::remove_piece")):
        b = ctx.body(key)
        sym = ctx.sym(b)
        zk = [(bi, t) for bi, t in b.calls() if callee_is(t, ZK + "add_or_remove_piece")]
        bb = [(bi, t) for bi, t in b.calls() if callee_is(t, bbfn)]
        ok = every_path_once(b, [x for x, _ in zk]) and every_path_once(b, [x for x, _ in bb])
        ctx.check(ok, "%s:toggle-and-bitboard-once-each" % key, "%s toggles the key and updates the bitboards exactly once on every path" % C.short(key), b.where(0),
                  bad_what="%s does not pair one key toggle with one bitboard update on every path (%d toggles, %d updates)" % (C.short(key), len(zk), len(bb)))
        if zk and bb:
            zp, zs = sym.operand(zk[0][1]["args"][1]), sym.operand(zk[0][1]["args"][2])
            bs, bp = sym.operand(bb[0][1]["args"][1]), sym.operand(bb[0][1]["args"][2])
            params = (("arg", b.local_name(2)), ("arg", b.local_name(3)))
            ctx.check(zp == bp and zs == bs and {zp, zs} == set(params), "%s:same-piece-and-square" % key, "both receive the function's own (square, piece) parameters", b.where(zk[0][0]),
                      bad_what="key toggle gets (%s, %s) but bitboard update gets (%s, %s)" % (expr_str(zp), expr_str(zs), expr_str(bp), expr_str(bs)))
            for t, nm in ((zk[0][1], "zkey"), (bb[0][1], "bitboards")):
                e = mir.strip_copies(sym.operand(t["args"][0]))
                ctx.check(e[0] == "field" and e[-1] == nm, "%s:on-self.%s" % (key, nm), "operates on self.%s" % nm, b.where(0), bad_what="operates on %s" % expr_str(e))


def rule_turn_pair(ctx):
    ix = ctx.ix
    b = ctx.body(SWITCH_TURN)
    sym = ctx.sym(b)
    tog = [bi for bi, t in b.calls() if callee_is(t, ZK + "change_turn")]
    asg = [(bi, s) for bi, i, s in b.stmts() if fields_of(s["lhs"]) == ("current_turn",)]
    ctx.check(every_path_once(b, tog) and len(asg) == 1 and every_path_once(b, [asg[0][0]]), "switch_turn:toggle-and-flip-once-each", "switch_turn toggles the side-to-move word and flips current_turn exactly once on every path", b.where(0),
              bad_what="switch_turn does not pair one change_turn with one colour flip (%d toggles, %d assignments)" % (len(tog), len(asg)))
    if asg:
        v = sym.rvalue(asg[0][1]["rv"])
        ctx.check(v[0] == "call" and v[1].endswith("Color::opposite") and "current_turn" in expr_str(v[2][0]), "switch_turn:flip-is-opposite", "current_turn = current_turn.opposite()", b.where(asg[0][0]),
                  bad_what="current_turn is assigned `%s`" % expr_str(v))
    # Color::opposite is an involution without fixed point
    ob = ctx.body("board::piece::Color::opposite")
    osym = ctx.sym(ob)
    table = {}
    for bi, i, s in ob.stmts():
        if mir.is_local(s["lhs"]) and s["lhs"]["l"] == 0:
            v = osym.rvalue(s["rv"])
            cons = C.constraints_for(ix, ob, osym, bi)
            for c in cons:
                for val in c[1]:
                    table[val] = v[2] if v[0] == "agg" else expr_str(v)
    ctx.check(table == {"White": "Black", "Black": "White"}, "Color::opposite:table", "opposite: White->Black, Black->White", ob.where(0), bad_what="Color::opposite maps %s" % table)


def rule_ep_pair(ctx):
    """make_move / unmake_move: the old file's word is toggled out iff there was one, before the field is
    overwritten; each `en_passant_file = Some(x)` is paired with change_en_passant(x)."""
    ix = ctx.ix
    for key in (MAKE, UNMAKE):
        b = ctx.body(key)
        sym = ctx.sym(b)
        toggles = [(bi, t) for bi, t in b.calls() if callee_is(t, ZK + "change_en_passant")]
        assigns = [(bi, s) for bi, i, s in b.stmts() if fields_of(s["lhs"]) == ("en_passant_file",)]
        ctx.check(len(toggles) == 2, "%s:two-ep-toggles" % key, "%s has two change_en_passant sites (clear old, set new)" % C.short(key), b.where(0),
                  bad_what="%s has %d change_en_passant site(s): the old file is not toggled out, or the new one not in" % (C.short(key), len(toggles)))
        first_assign_blocks = {bi for bi, _ in assigns}
        clear = None
        sets = []
        readback = []
        for bi, t in toggles:
            arg = sym.operand(t["args"][1])
            reads_field = any(isinstance(x, tuple) and x[0] == "field" and x[-1] == "en_passant_file" and mir.strip_refs(x[1]) == ("arg", b.local_name(1)) for x in walk(arg))
            # the `if let Some(file) = self.en_passant_file` form reads the payload
            if reads_field and first_assign_blocks and bi not in b.reachable_from(0, removed=first_assign_blocks, include_start=True):
                # ... after the field was overwritten: `self.ep = new; if let Some(f) = self.ep { toggle(f) }` toggles the new word in
                readback.append((bi, t, arg))
            elif reads_field:
                clear = (bi, t, arg)
            else:
                sets.append((bi, t, arg))
        ok = clear is not None
        if ok:
            cb = clear[0]
            # no assignment can precede the clearing toggle, and every assignment is preceded by the test that guards it
            before = b.reachable_from(0, removed={cb}, include_start=True)
            allc = C.constraints_for(ix, b, sym, cb)
            guards = [c for c in allc if "en_passant_file" in c[0]]
            others = [c for c in allc if "en_passant_file" not in c[0]]
            g_ok = bool(guards) and all(("Some" in g[1] or True in g[1]) for g in guards) and not others \
                and mir.EXIT not in b.reachable_from(0, removed={guards[-1][2]}, include_start=True)
            gb = guards[-1][2] if guards else None
            assign_after = all(gb is not None and b.dominates(gb, ab) and ab not in b.reachable_from(0, removed={gb}, include_start=True) for ab in first_assign_blocks)
            no_assign_before = not any(cb in b.reachable_from(ab, include_start=False) for ab in first_assign_blocks)
            ok = g_ok and assign_after and no_assign_before
        ctx.check(ok, "%s:clear-old-ep-word" % key, "the old en-passant word is toggled out exactly when en_passant_file was Some, before the field is overwritten", b.where(clear[0] if clear else 0),
                  bad_what="%s does not toggle the previous en-passant file out of the key before overwriting en_passant_file (stale word stays in the key)" % C.short(key))
        some_assigns = []
        for ab, s in assigns:
            v = sym.rvalue(s["rv"])
            if v[0] == "agg" and v[2] == "Some":
                some_assigns.append((ab, v[3][0]))
        if len(readback) == 1 and not sets:
            rb = readback[0][0]
            allc = C.constraints_for(ix, b, sym, rb)
            guards = [c for c in allc if "en_passant_file" in c[0] and c[2] not in b.reachable_from(0, removed=first_assign_blocks, include_start=True)]
            others = [c for c in allc if c not in guards and not (clear is not None and c in C.constraints_for(ix, b, sym, clear[0]))]
            gb = guards[-1][2] if guards else None
            ok_rb = bool(guards) and all(("Some" in g[1] or True in g[1]) for g in guards) and not others \
                and all(ab == gb or mir.EXIT not in b.reachable_from(ab, removed={gb}) for ab in first_assign_blocks) \
                and not any(ab in b.reachable_from(gb) for ab in first_assign_blocks)
            ctx.check(ok_rb, "%s:set-new-ep-word" % key, "after en_passant_file is overwritten, its word is toggled in exactly when the new value is Some (read back from the field)", b.where(rb),
                      bad_what="the toggle that reads the new en_passant_file back is not guarded by just `en_passant_file is Some` on every path after the store (other conditions: %s)" % [c[0][:60] for c in others])
            continue
        for ab, x in some_assigns:
            paired = [(bi, a) for bi, t, a in sets if a == x and b.control_equivalent(min(ab, bi), max(ab, bi)) or (a == x and same_region(b, ab, bi))]
            ctx.check(len(paired) == 1, "%s:set-new-ep-word" % key, "en_passant_file = Some(x) is paired with exactly one change_en_passant(x) in the same control region", b.where(ab),
                      bad_what="en_passant_file = Some(%s) is not paired with change_en_passant of the same value in the same control region (toggle args: %s)" % (expr_str(x), [expr_str(a) for _, _, a in sets]))
        ctx.check(len(sets) == len(some_assigns), "%s:no-unpaired-toggle" % key, "no change_en_passant without a matching Some assignment", b.where(0),
                  bad_what="%d set-toggle(s) for %d Some-assignment(s)" % (len(sets), len(some_assigns)))


def same_region(b, x, y):
    """x and y execute together: each is reached exactly when the other is (straight-line chain)."""
    a, c = (x, y) if b.dominates(x, y) else (y, x)
    return b.dominates(a, c) and b.postdominates(c, a)


def kind_of(e):
    """CastlingKind variant named by an expression (aggregate)."""
    for x in walk(e):
        if isinstance(x, tuple) and x[0] == "agg" and isinstance(x[1], str) and x[1].endswith("CastlingKind"):
            return x[2]
    return None


def status_of(e):
    for x in walk(e):
        if isinstance(x, tuple) and x[0] == "agg" and isinstance(x[1], str) and x[1].endswith("CastlingStatus"):
            return x[2]
    return None


def rule_castle_pair(ctx):
    """Each revocation `castling_rights.F = Unavailable` is paired with exactly one
    change_castling_rights(K), field(K) == F, inside a guard `F was Available`."""
    ix = ctx.ix
    b = ctx.body(CASTLE_CHECKS)
    sym = ctx.sym(b)
    toggles = [(bi, t, kind_of(sym.operand(t["args"][1]))) for bi, t in b.calls() if callee_is(t, ZK + "change_castling_rights")]
    assigns = []
    for bi, i, s in b.stmts():
        fp = fields_of(s["lhs"])
        if len(fp) >= 2 and fp[-2] == "castling_rights":
            assigns.append((bi, fp[-1], status_of(sym.rvalue(s["rv"]))))
    used = set()
    seen = {}
    # the same clause decided case by case when the function is not twelve guarded sites (a revocation helper taking the
    # kind found by a lookup, ...): every case, with all / none / exactly one of the rights there
    readable = len(assigns) >= 12 and all(k for _b, _t, k in toggles)
    if not readable:
        from . import castlecases
        n, bad, und = castlecases.pairing(ix, b)
        if n >= 1260 * 6 and not und:
            ctx.check(not bad, "%s:pairing-by-cases" % CASTLE_CHECKS,
                      "in each of %d cases (mover, start, victim, square; all / none / exactly one right there) every path toggles exactly the castling words of the rights it takes away" % n, b.where(0),
                      bad_what="toggles and revocations diverge in %d case(s), e.g. (case, rights there, rights taken away, words toggled) = %s" % (len(bad), bad[:2]))
            return
    for ab, fld, st in assigns:
        cons = C.constraints_for(ix, b, sym, ab)
        key = c15_dedup(seen, "%s:revoke:%s" % (CASTLE_CHECKS, fld))
        if st != "Unavailable":
            ctx.bad(key, "castling_rights.%s is assigned %s inside make_move (rights can only be lost)" % (fld, st), b.where(ab))
            continue
        mates = [(bi, k) for bi, t, k in toggles if same_region(b, ab, bi)]
        guard = [c for c in cons if "castling_rights.%s" % fld in c[0] and "eq(" in c[0] and status_of(c[3]) == "Available" and True in c[1]]
        ok = len(mates) == 1 and KIND_FIELD.get(mates[0][1]) == fld and len(guard) >= 1
        if mates:
            used.add(mates[0][0])
        ctx.check(ok, key, "castling_rights.%s = Unavailable is paired with change_castling_rights(%s) under the guard `%s == Available`" % (fld, mates[0][1] if mates else "?", fld), b.where(ab),
                  bad_what="revocation of %s: paired toggles %s, guard on `%s == Available` %s -- the key and the rights can diverge (toggle missing, wrong word, or toggled when the right was already gone)"
                  % (fld, [k for _, k in mates], fld, "present" if guard else "MISSING"))
    stray = [k for bi, t, k in toggles if bi not in used]
    ctx.check(not stray, "%s:no-stray-toggle" % CASTLE_CHECKS, "every change_castling_rights in make_move_castling_checks belongs to a revocation", b.where(0),
              bad_what="change_castling_rights(%s) without a revocation of the matching right" % stray)
    ctx.floor("revocation sites", len(assigns), 12)


def c15_dedup(seen, key):
    n = seen.get(key, 0) + 1
    seen[key] = n
    return key if n == 1 else "%s#%d" % (key, n)


def rule_castle_revert(ctx):
    """unmake_move: for each K, change_castling_rights(K) iff popped.castling_rights.field(K) != castle_status(K)."""
    ix = ctx.ix
    b = ctx.body(UNMAKE)
    sym = ctx.sym(b)
    toggles = [(bi, t, kind_of(sym.operand(t["args"][1]))) for bi, t in b.calls() if callee_is(t, ZK + "change_castling_rights")]
    kinds = sorted(k for _, _, k in toggles if k)
    ctx.check(kinds == sorted(KIND_FIELD), "unmake_move:four-reverts", "unmake_move has one revert toggle per castling kind", b.where(0),
              bad_what="unmake_move revert toggles: %s (expected one for each of the four kinds)" % kinds)
    pops = calls_on_field(ix, b, "history", "Vec::pop")
    for bi, t, k in toggles:
        cons = C.constraints_for(ix, b, sym, bi)
        ok = False
        detail = None
        the_test = None
        for c in cons:
            e = c[3]
            if e[0] == "call" and (e[1].endswith("PartialEq::ne") or e[1].endswith("PartialEq>::ne") or e[1].endswith("PartialEq>::eq") or e[1].endswith("PartialEq::eq")):
                the_test = c
                want_true = e[1].endswith("ne")
                a0, a1 = mir.strip_copies(e[2][0]), mir.strip_copies(e[2][1])
                sides = [a0, a1]
                fld = [x[-1] for x in sides if x[0] == "field" and len(x) >= 3 and x[-2] == "castling_rights"]
                stat = [kind_of(x) for x in sides if x[0] == "call" and x[1] == CASTLE_STATUS]
                detail = (fld, stat)
                if fld and stat and KIND_FIELD.get(k) == fld[0] and stat[0] == k and (want_true in c[1]):
                    ok = True
        ctx.check(ok, "unmake_move:revert:%s" % k, "change_castling_rights(%s) iff popped.%s differs from the restored castle_status(%s)" % (k, KIND_FIELD.get(k), k), b.where(bi),
                  bad_what="the revert toggle for %s is not guarded by `popped.castling_rights.%s != castle_status(%s)` (found %s)" % (k, KIND_FIELD.get(k), k, detail))
        # "iff": nothing but that comparison decides whether the toggle runs, and the comparison runs on every path
        extra = [(c[0][:60], sorted(map(str, c[1]))) for c in cons if c is not the_test]
        always = the_test is not None and mir.EXIT not in b.reachable_from(0, removed={the_test[2]}, include_start=True)
        ctx.check(not extra and always, "unmake_move:revert-iff:%s" % k, "the revert toggle for %s depends on nothing but that comparison, which is evaluated on every path" % k, b.where(bi),
                  bad_what="the revert toggle for %s is additionally conditioned on %s%s: when the right changed but this extra condition is false (e.g. a bishop, knight, queen or pawn captured the rook on its corner) the castling word stays toggled and key != from-scratch key after unmake"
                  % (k, extra, "" if always else " (and the comparison is not evaluated on every path)"))
        if pops:
            ctx.check(b.dominates(pops[0][0], bi), "unmake_move:revert-after-pop:%s" % k, "the comparison is made after the record was popped (castle_status reads the restored top)", b.where(bi),
                      bad_what="the castling revert for %s runs before history.pop()" % k)
    # castle_status' own table
    cs = ctx.body(CASTLE_STATUS)
    csym = ctx.sym(cs)
    table = {}
    for bi, i, s in cs.stmts():
        if mir.is_local(s["lhs"]) and s["lhs"]["l"] == 0:
            v = csym.rvalue(s["rv"])
            fld = v[-1] if v[0] == "field" else expr_str(v)
            for c in C.constraints_for(ix, cs, csym, bi):
                for val in c[1]:
                    table[val] = fld
    if table != KIND_FIELD:
        # the same table read by walking castle_status once per kind (`rights[kind]` through an Index impl, a helper, ...):
        # the value returned is a field of the top record's castling_rights
        from . import cases
        kp = [cs.local_name(l) for l in range(1, cs.arg_count + 1) if cs.locals[l]["ty"].lstrip("&").endswith("CastlingKind")]
        by_cases = {}
        for k in KIND_FIELD if len(kp) == 1 else ():
            run = cases.run(ix, cs, {kp[0]: cases.enum_val(ix, "board::ply::castling::CastlingKind", k)})
            rets = {mir.strip_copies(mir.strip_refs(p.ret)) for p in run.paths if p.end == "return" and p.ret is not None}
            if run.overflow or len(rets) != 1:
                by_cases = {}
                break
            v = next(iter(rets))
            while v[0] == "deref":
                v = mir.strip_copies(mir.strip_refs(v[1]))
            top = "last" in expr_str(v) and "history" in expr_str(v)
            by_cases[k] = v[-1] if v[0] == "field" and len(v) >= 3 and v[-2] == "castling_rights" and top else expr_str(v)[:60]
        if by_cases:
            table = by_cases
    ctx.check(table == KIND_FIELD, "castle_status:table", "castle_status maps each kind to its own field", cs.where(0), bad_what="castle_status maps %s" % table)


def rule_ctor(ctx):
    """Constructors: zkey = ZKey::from(&output) is the last write to the new Board."""
    ix = ctx.ix
    for key in (DEFAULT, BUILD):
        b = ctx.body(key)
        sym = ctx.sym(b)
        lit = [(bi, i, s) for bi, i, s in b.stmts() if s["rv"].get("k") == "agg" and s["rv"].get("adt") == BOARD]
        ctx.check(len(lit) == 1, "%s:one-literal" % key, "one Board literal", b.where(0), bad_what="%d Board literals" % len(lit))
        if len(lit) != 1:
            continue
        out_local = lit[0][2]["lhs"]["l"]
        zk = [(bi, i, s) for bi, i, s in b.stmts() if s["lhs"]["l"] == out_local and fields_of(s["lhs"]) == ("zkey",)]
        ok = len(zk) == 1
        if ok:
            zb, zi, zs = zk[0]
            v = sym.rvalue(zs["rv"])
            from_out = v[0] == "call" and v[1] == ZFROM and mir.strip_refs(v[2][0]) == ("var", b.local_name(out_local))
            later = []
            for bi, i, s in b.stmts():
                if s["lhs"]["l"] == out_local and s["lhs"]["p"] and (bi in b.reachable_from(zb) or (bi == zb and i > zi)):
                    later.append(bi)
            for bi, t in b.calls():
                if bi in b.reachable_from(zb) or bi == zb:
                    for a in t.get("args", []):
                        p = op_place(a)
                        if p is not None and mir.is_local(p):
                            sd = b.single_def(p["l"])
                            if sd and sd[2].get("k") == "ref" and sd[2].get("mut") and sd[2]["p"]["l"] == out_local:
                                later.append(bi)
            ok = from_out and not later and b.dominates(lit[0][0], zb)
        ctx.check(ok, "%s:key-computed-last" % key, "`output.zkey = ZKey::from(&output)` is the last write to the new Board on the way to return", b.where(zk[0][0] if zk else 0),
                  bad_what="the constructor does not finish with zkey = ZKey::from(&output) (or modifies the board afterwards): the base case of key == from-scratch key fails")


def xor_words(ix, key):
    """Table words a function XORs into a key: [(table field, (index exprs...), block)]."""
    b = ix.body(key)
    sym = mir.Sym(b, ix)
    out = []
    for bi, i, s in b.stmts():
        rv = s["rv"]
        if rv.get("k") == "binop" and rv["op"] == "BitXor":
            for o in (rv["a"], rv["b"]):
                e = sym.operand(o)
                idx = []
                x = e
                while isinstance(x, tuple) and x[0] == "index":
                    idx.insert(0, x[2])
                    x = x[1]
                if isinstance(x, tuple) and x[0] == "field" and "TABLE" in expr_str(x[1]):
                    out.append((x[-1], tuple(idx), bi))
    return out, b, sym


def idx_shape(e):
    """Shape of an index expression: which conversion applied to what kind of value."""
    e = mir.strip_copies(e)
    if e[0] == "call":
        inner = idx_shape(e[2][0]) if e[2] else ""
        c = e[1]
        if "From<board::piece::Color> for usize" in c:
            return "usize(colour:%s)" % inner
        if "From<board::piece::Kind> for usize" in c:
            return "usize(kind:%s)" % inner
        if "From<board::square::Square> for usize" in c:
            return "usize(square:%s)" % inner
        if "From<board::ply::castling::CastlingKind> for usize" in c:
            return "usize(castling:%s)" % inner
        if c.endswith("From<u8> for usize>::from"):
            return "usize(u8:%s)" % inner
        if c == "<board::square::Square as std::convert::From<u8>>::from":
            return "square_of(%s)" % inner
        if c.endswith("Kind::get_color"):
            return "get_color(%s)" % inner
        return "%s(%s)" % (mir.short(c), inner)
    if e[0] == "cast":
        return "cast(%s)" % idx_shape(e[1])
    if e[0] == "agg" and e[2]:
        return e[2]
    if e[0] in ("arg", "var"):
        return "v"
    if e[0] == "field":
        return "payload" if (isinstance(e[1], tuple) and e[1][0] == "as") else "field"
    if e[0] == "const":
        return "const"
    return e[0]


def norm_shape(sh):
    """Make mutator-side and from-scratch-side index shapes comparable: the value variable and the Option payload are the
    same thing, and Square -> usize equals u8 -> usize of the square index (checked by `square-index-maps`)."""
    import re
    sh = re.sub(r"\b(v|payload)\b", "x", sh)
    # usize::from(Square::from(i)) is usize::from(i): the two conversions are inverse on 0..64 (`square-index-maps`)
    sh = re.sub(r"usize\(square:square_of\(([^()]*)\)\)", r"usize(sq:\1)", sh)
    return sh.replace("usize(square:", "usize(sq:").replace("usize(u8:", "usize(sq:")


def rule_same_words(ctx, strict=False):
    """From<&Board> and the incremental mutators use the same table field with the same index maps.
    (strict=True, used by C05, additionally requires the index maps to be the known injective conversions.)"""
    ix = ctx.ix
    want = {
        "add_or_remove_piece": ("pieces", ("usize(colour:get_color(v))", "usize(kind:v)", "usize(square:v)")),
        "change_castling_rights": ("castling", ("usize(castling:v)",)),
        "change_en_passant": ("en_passant", ("usize(u8:v)",)),
        "change_turn": ("white_turn", ()),
    }
    got_fields = set()
    mut_shapes = {}
    for m, (fld, shapes) in want.items():
        ws, b, sym = xor_words(ix, ZK + m)
        ctx.functions.add(ZK + m)
        got = tuple(idx_shape(x) for x in ws[0][1]) if len(ws) == 1 else None
        ok = len(ws) == 1 and ws[0][0] == fld and (got == shapes if strict else len(got) == len(shapes))
        got_fields.add(ws[0][0] if ws else None)
        mut_shapes[fld] = got
        ctx.check(ok, "ZKey::%s:word" % m, "ZKey::%s XORs TABLE.%s%s" % (m, fld, "".join("[%s]" % s for s in (got or ()))), b.where(ws[0][2] if ws else 0),
                  bad_what="ZKey::%s XORs %s%s" % (m, [(w[0], [idx_shape(x) for x in w[1]]) for w in ws], " (expected the plain conversions %s: any other index map may send two components to one word)" % (shapes,) if strict else ""))
    ctx.check(len(got_fields) == 4, "four-distinct-tables", "the four mutators use four different ZTable fields", bad_what="mutators share a table field: %s" % got_fields)
    ws, fb, fsym = xor_words(ix, ZFROM)
    ctx.functions.add(ZFROM)
    by_field = {}
    for fld, idx, bi in ws:
        by_field.setdefault(fld, []).append((idx, bi))
    # pieces
    p = by_field.get("pieces", [])
    fshape = tuple(idx_shape(x) for x in p[0][0]) if len(p) == 1 else None
    same = fshape is not None and mut_shapes.get("pieces") is not None and tuple(map(norm_shape, fshape)) == tuple(map(norm_shape, mut_shapes["pieces"]))
    ok = same and (not strict or fshape in (("usize(colour:get_color(payload))", "usize(kind:payload)", "usize(u8:payload)"),
                                            ("usize(colour:get_color(payload))", "usize(kind:payload)", "usize(square:square_of(payload))")))
    ctx.check(ok, "From:pieces-word", "from-scratch: pieces[colour of piece][piece][square index] for the piece found on that square, the same index maps as add_or_remove_piece", fb.where(p[0][1] if p else 0),
              bad_what="from-scratch piece word is indexed %s but the incremental one %s" % (fshape, mut_shapes.get("pieces")))
    # castling: four words, each under castle_status(K) == Available with the same K
    c = by_field.get("castling", [])
    kinds = []
    for idx, bi in c:
        k = kind_of(idx[0])
        cons = C.constraints_for(ix, fb, fsym, bi)
        g = [x for x in cons if x[3][0] == "call" and "eq" in x[3][1] and any(isinstance(y, tuple) and y[0] == "call" and y[1] == CASTLE_STATUS and kind_of(y) == k for y in walk(x[3])) and status_of(x[3]) == "Available" and True in x[1]]
        ctx.check(bool(g), "From:castling-word:%s" % k, "castling[usize(%s)] is XORed iff castle_status(%s) == Available" % (k, k), fb.where(bi),
                  bad_what="the from-scratch castling word for %s is not guarded by castle_status(%s) == Available" % (k, k))
        kinds.append(k)
    ctx.check(sorted(kinds) == sorted(KIND_FIELD), "From:castling-four-kinds", "all four castling kinds contribute", fb.where(0), bad_what="from-scratch castling words: %s" % kinds)
    e = by_field.get("en_passant", [])
    eshape = idx_shape(e[0][0][0]) if len(e) == 1 else None
    ok = eshape is not None and mut_shapes.get("en_passant") is not None and norm_shape(eshape) == norm_shape(mut_shapes["en_passant"][0]) and (not strict or eshape == "usize(u8:payload)")
    if ok:
        cons = C.constraints_for(ix, fb, fsym, e[0][1])
        ok = any("en_passant_file" in x[0] and "Some" in x[1] for x in cons)
    ctx.check(ok, "From:en-passant-word", "en_passant[<same index map as change_en_passant>(file)] is XORed iff board.en_passant_file is Some(file)", fb.where(e[0][1] if e else 0),
              bad_what="from-scratch en-passant word is indexed `%s` (incremental: %s)%s" % (eshape, mut_shapes.get("en_passant"), "; expected the plain usize::from(file)" if strict else ""))
    t = by_field.get("white_turn", [])
    ok = len(t) == 1
    if ok:
        g = turn_is_white_guard(ix, fb, fsym, t[0][1])
        ok = g is not None and g[1] == "White" and g[2] is True
    ctx.check(ok, "From:turn-word", "white_turn is XORed iff current_turn == White (one toggle per switch_turn keeps the parity)", fb.where(t[0][1] if t else 0), bad_what="from-scratch side-to-move word is not guarded by current_turn == White")
    # conversions agree: Square -> usize is rank*8+file and Square::from(u8) is its inverse
    sq = ctx.body("<board::square::Square as std::convert::From<u8>>::from")
    s8 = ctx.body("board::square::<impl std::convert::From<board::square::Square> for u8>::from")
    ssym, s8sym = ctx.sym(sq), ctx.sym(s8)
    r0 = s8sym.local(0)
    v = ssym.local(0)
    # decided by evaluating both expression trees over their whole domain: any spelling of rank*8+file / (v/8, v%8) passes
    ok8 = all(mir.eval_expr(r0, {"value.rank": r, "value.file": f}) == r * 8 + f for r in range(8) for f in range(8))
    if not ok8 and s8.arg_count == 1:
        # through helpers (`value.u8()`): the same 64 evaluations by walking the function with the square fixed
        from . import cases

        def walked(r, f):
            run = cases.run(ix, s8, {s8.local_name(1): ("agg", "board::square::Square", "Square", (("const", r, "u8"), ("const", f, "u8")), ("rank", "file"))})
            rets = {p.ret for p in run.paths if p.end == "return"}
            return next(iter(rets))[1] if len(rets) == 1 and next(iter(rets))[0] == "const" and not run.overflow else None
        ok8 = all(walked(r, f) == r * 8 + f for r in range(8) for f in range(8))
    oksq = v[0] == "agg" and len(v[3]) == 2 and tuple(v[4]) == ("rank", "file") and all(
        (mir.eval_expr(v[3][0], {"value": n}), mir.eval_expr(v[3][1], {"value": n})) == (n // 8, n % 8) for n in range(64))
    ctx.check(ok8 and oksq, "square-index-maps", "Square -> u8 is rank*8+file and u8 -> Square is (v>>3, v%8): the loop index of From and the mutators' square index agree", s8.where(0),
              bad_what="square <-> index maps changed: %s / %s" % (expr_str(r0), expr_str(v)))



def rule_clone(ctx):
    """The search, the legality probe of the UCI layer and every `go` work on a copy of the board: `Board::clone` is a
    field-for-field copy (the derive, or a hand-written impl that does the same), so the copy carries the same placement,
    rights, en-passant file, history, remembered positions and key as the original."""
    ix = ctx.ix
    key = "<board::Board as std::clone::Clone>::clone"
    b = ctx.body(key)
    sym = ctx.sym(b)
    r = mir.strip_copies(sym.local(0))
    a = ix.adts.get("board::Board")
    want = [f["name"] for f in a["variants"][0]["fields"]] if a else []
    ok = r[0] == "agg" and str(r[1]) == "board::Board" and len(r) > 4 and list(r[4]) == want and len(want) >= 5
    ctx.check(ok, "Board::clone:builds-a-board", "clone returns one Board literal with all %d fields" % len(want), b.where(0), bad_what="Board::clone returns `%s`" % expr_str(r)[:100])
    if not ok:
        return
    for name, v in zip(r[4], r[3]):
        v = mir.strip_copies(v)
        while v[0] == "call" and v[1].endswith("::clone") and len(v[2]) == 1:
            v = mir.strip_copies(mir.strip_refs(v[2][0]))
        while v[0] == "ref":
            v = mir.strip_copies(v[1])
        same = v[0] == "field" and v[2:] == (name,) and mir.strip_copies(v[1]) in (("deref", ("arg", b.local_name(1))), ("arg", b.local_name(1)))
        ctx.check(same, "Board::clone:field:%s" % name, "the copy's %s is a copy of the original's" % name, b.where(0),
                  bad_what="the copy's `%s` is `%s`, not a copy of the original's %s: a board that was cloned (every `go`, every probe) is no longer the same position" % (name, expr_str(v)[:80], name))


RULES = [("clone", rule_clone), ("writers", rule_writers), ("piece-pair", rule_piece_pair), ("turn-pair", rule_turn_pair), ("ep-pair", rule_ep_pair),
         ("castle-pair", rule_castle_pair), ("castle-revert", rule_castle_revert), ("ctor", rule_ctor), ("same-words", rule_same_words)]
# "two games that arrive at the same position have the same key, and loading it from FEN gives that key too": the position a
# game arrives at and the position a FEN loads must be the same engine state (en-passant file exactly after a double push as
# the generator flagged it; the FEN's fields stored as they are)
RULES += engine.premise_rules("c03", ["ep"])
RULES += engine.premise_rules("c01", ["ply-builder", "capture-src", "leaf-accessors"])
RULES += engine.premise_rules("c07", ["fields", "side-ep", "history"])


def run(tier):
    return engine.main(
        PROP, "incremental key equals from-scratch key", RULES, "other",
        explanation=("Proves the inductive step of the invariant board.zkey == ZKey::from(&board) structurally, for every history: only a fixed set of functions may write a hashed component "
                     "(type-resolved who-may-write, so a write from search.rs or uci.rs is caught); in each, every write of a component is control-equivalent with the toggle of the matching "
                     "table word with the same arguments (piece/square, side, en-passant old-out/new-in, each of the 12 castling revocations under an `was Available` guard with the right kind, "
                     "the four reverts in unmake guarded by popped != restored); constructors compute the key last; the from-scratch function and the mutators index the same table fields with "
                     "the same index maps. 'Same key from FEN' follows from the constructor rule plus C07. Not decided: well-formedness of the moves fed to make_move (C01.capture-src)."),
        assumptions=["XOR toggling: a word is in the key iff it was toggled an odd number of times", "moves fed to make_move are generated moves"],
        tier=tier)
