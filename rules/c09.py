"""C09  Every go is answered by exactly one legal bestmove, whatever the limits  (DESIGN 3, C09)."""
from . import engine, mir
from . import common as C
from . import c10, c14, c15
from .mir import expr_str, walk, callee_is, const_int, op_place, strip_generics, fields_of

PROP = "C09"
UCI_GO = "uci::Uci::go"
EXEC = "uci::Uci::execute_command"


def all_bestmove_sites(ix):
    out = []
    for b in ix.fn_bodies():
        for bi in c10.bestmove_emits(ix, b):
            out.append((b, bi))
    return out


def exactly_once_on_every_path(b, sites):
    """(at_least_once, at_most_once) for a set of blocks on the normal paths entry -> EXIT."""
    sites = set(sites)
    at_least = mir.EXIT not in b.reachable_from(0, removed=sites, include_start=True)
    at_most = True
    for s in sites:
        t = b.blocks[s].term
        nxt = [x for x in b.succ(s)]
        for x in nxt:
            if b.reachable_from(x, include_start=True) & sites:
                at_most = False
    return at_least, at_most


def rule_one_site(ctx):
    """Exactly one bestmove line per search thread: the only emission sites are in iter_deep, every path
    through iter_deep passes exactly one of them, search() calls iter_deep exactly once on every path,
    the thread closure calls search() exactly once, and Uci::go spawns exactly one thread."""
    ix = ctx.ix
    sites = all_bestmove_sites(ix)
    fns = sorted({b.key for b, _ in sites})
    ctx.check(fns == [C.ITER_DEEP], "bestmove-sites", "bestmove is emitted only from iter_deep (%d site(s))" % len(sites),
              bad_what="bestmove is emitted from %s" % fns)
    it = ctx.body(C.ITER_DEEP)
    blocks = [bi for b, bi in sites if b.key == C.ITER_DEEP]
    al, am = exactly_once_on_every_path(it, blocks)
    ctx.check(al, "%s:bestmove-on-every-path" % C.ITER_DEEP, "every normal path through iter_deep prints bestmove", it.where(blocks[0] if blocks else 0),
              bad_what="iter_deep can return without printing bestmove")
    ctx.check(am and not any(it.in_loop(x) for x in blocks), "%s:bestmove-at-most-once" % C.ITER_DEEP, "no path prints bestmove twice (not in the loop, no site follows another)", it.where(blocks[0] if blocks else 0),
              bad_what="iter_deep can print bestmove more than once")
    chain = [(C.SEARCH, C.ITER_DEEP)]
    spawn = c10.spawn_sites(ix)
    for (gb, gbi, gt, clo) in spawn:
        if clo:
            chain.append((clo, C.SEARCH))
    for caller, callee in chain:
        cb = ctx.body(caller)
        cs = [bi for bi, t in cb.calls() if callee in ix.call_targets(t)]
        al, am = exactly_once_on_every_path(cb, cs)
        ctx.check(len(cs) == 1 and al and am and not cb.in_loop(cs[0]), "%s:calls-%s-exactly-once" % (caller, C.short(callee)),
                  "%s calls %s exactly once on every path" % (C.short(caller), C.short(callee)), cb.where(cs[0] if cs else 0),
                  bad_what="%s does not call %s exactly once on every path (%d site(s))" % (C.short(caller), C.short(callee), len(cs)))
    ctx.check(len(spawn) == 1 and spawn[0][0].key == UCI_GO, "one-spawn-in-Uci::go", "one thread::spawn in the crate, in Uci::go",
              bad_what="thread::spawn sites: %s" % [b.key for b, _, _, _ in spawn])
    # other callers of search()/iter_deep outside bench would print a second bestmove
    callers = sorted(k for k in ix.callers(C.SEARCH))
    ctx.check(set(callers) <= {spawn[0][3] if spawn else None, "bench::bench"}, "search-callers", "Search::search is called from the go thread and from bench only (%s)" % callers,
              bad_what="Search::search has other callers: %s" % callers)


def spine_bodies(ix):
    spawn = c10.spawn_sites(ix)
    keys = [C.SEARCH, C.ITER_DEEP]
    for (_b, _bi, _t, clo) in spawn:
        if clo:
            keys.append(clo)
    out = []
    for k in keys:
        b = ix.body(k)
        out.append(b)
        out.extend(ix.closures_of(k))
    return out


def rule_spine_panics(ctx):
    """No panic site between thread entry and the bestmove line in the spine {go closure, search, iter_deep}."""
    bodies = spine_bodies(ctx.ix)
    for b in bodies:
        ctx.functions.add(b.key)
    n = c15.audit_index(ctx, bodies)
    n += c15.audit_arith(ctx, bodies)
    n += c15.audit_diverging(ctx, bodies)
    n += c15.audit_may_panic(ctx, bodies)
    ctx.check(True, "spine-sites-enumerated", "%d panic-capable site(s) enumerated over %d spine bodies" % (n, len(bodies)))
    ctx.floor("spine bodies", len(bodies), 3)
    ctx.note("beyond-spine", "index sites of the tree walk are decided by C09.tree-index; its ply-counter and depth arithmetic and lock poisoning need value reasoning and are not decided")


GO_KEYWORDS = {"wtime": "white_time", "btime": "black_time", "winc": "white_increment", "binc": "black_increment",
               "depth": "depth", "nodes": "nodes", "movetime": "movetime"}
LIMITS = "search::limits::SearchLimits::"


def _expand(b, sym, e, depth=0, seen=None):
    seen = seen if seen is not None else set()
    out = [e]
    if depth > 5:
        return out
    for x in _value_leaves(e):
        if isinstance(x, tuple) and x[0] == "var" and x[1] not in seen:
            seen.add(x[1])
            for l in range(len(b.locals)):
                if b.local_name(l) == x[1]:
                    for (db, di, rv) in b.defs().get(l, []):
                        if rv.get("k") == "partial":
                            continue
                        v = sym.rvalue(rv) if rv.get("k") != "call" else ("call", strip_generics(mir.callee_name(rv["t"])), tuple(sym.operand(a) for a in rv["t"]["args"]))
                        out.extend(_expand(b, sym, v, depth + 1, seen))
    return out


def _value_leaves(e):
    """Variables the value is made of; the cursor used as the index of get / index only says which token is read."""
    out = []

    def rec(x):
        if not isinstance(x, tuple) or not x:
            return
        if x[0] == "call" and isinstance(x[1], str) and (x[1].endswith("]>::get") or x[1].endswith("::index")) and len(x[2]) == 2:
            rec(x[2][0])
            return
        if x[0] == "index" and len(x) == 3:
            rec(x[1])
            return
        if x[0] == "var":
            out.append(x)
        for y in x[1:]:
            if isinstance(y, tuple):
                if y and isinstance(y[0], str):
                    rec(y)
                else:
                    for z in y:
                        rec(z)
    rec(e)
    return out


def _value_arith(e):
    """Arithmetic applied to a value, not counting the computation of *which* token is read (the index argument of
    get / index) and comparisons."""
    out = []

    def rec(x):
        if not isinstance(x, tuple) or not x:
            return
        if x[0] == "call" and isinstance(x[1], str) and (x[1].endswith("]>::get") or x[1].endswith("::index")) and len(x[2]) == 2:
            rec(x[2][0])
            return
        if x[0] == "index" and len(x) == 3:
            rec(x[1])
            return
        if x[0] in ("un", "cast") or (x[0] == "bin" and x[1] not in ("Lt", "Le", "Ge", "Gt", "Eq", "Ne")):
            out.append(x)
        for y in x[1:]:
            if isinstance(y, tuple):
                if y and isinstance(y[0], str):
                    rec(y)
                else:
                    for z in y:
                        rec(z)
    rec(e)
    return out


def rule_go_keywords(ctx):
    """The limits the search obeys are the ones the GUI sent: each `go` keyword feeds the parsed number that follows it,
    unchanged, to the setter of its own limit; each setter stores its argument in its own field; Search::new takes the limits
    as they are.  (A swapped keyword or a clamped value makes the engine budget from the wrong clock or stop at the wrong depth.)"""
    ix = ctx.ix
    b = ctx.body("uci::uci_command::UCICommand::parse_go")
    sym = ctx.sym(b)
    table = {}
    allowed = ("::branch", "::map_err", "::parse", "::ok_or", "::ok_or_else", "]>::get", "::deref", "::index", "::copied", "::from_residual", "::as_str", "::trim",
               "Iterator>::next", "Iterator::next", "]>::iter", "::copied", "::cloned", "::peekable", "::peek", "::skip", "::into_iter")
    errs = ("fmt::format", "Arguments::new", "Argument::new_display", "hint::must_use", "::to_string", "String::from", "::from", "::into", "Arguments::from_str", "from_str_nonconst", "::to_owned")
    for bi, t in b.calls():
        c = strip_generics(t.get("callee") or "")
        if not c.startswith(LIMITS) or c.endswith("::new") or len(t["args"]) != 2:
            continue
        cons = C.constraints_for(ix, b, sym, bi)
        kws = []
        for x in cons:
            e = x[3]
            if e[0] == "call" and e[1].endswith("for str>::eq") and set(x[1]) == {True}:
                lit = [a for a in e[2] if a[0] == "const" and isinstance(a[1], str)]
                if lit:
                    kws.append(lit[0][1])
        v = sym.operand(t["args"][1])
        # everything the value is made of, through variables (an extracted `value_at(args, idx)?` helper leaves its result
        # in a variable assigned on its Ok and Err exits)
        parts = _expand(b, sym, v)
        calls = [y[1] for e in parts for y in walk(e) if isinstance(y, tuple) and y[0] == "call" and isinstance(y[1], str)]
        arith = [y for e in parts for y in _value_arith(e)]
        exact = (v[0] == "agg" and v[2] == "Some" and any(cn.endswith("::parse") for cn in calls) and all(cn.endswith(allowed + errs) for cn in calls) and not arith
                 and any("args" in expr_str(e) for e in parts))
        table[kws[-1] if kws else None] = (c.split("::")[-1], exact)
    for kw, setter in sorted(GO_KEYWORDS.items()):
        got = table.get(kw)
        ctx.check(got == (setter, True), "go-keyword:%s" % kw, "`%s <n>` sets %s to Some(n), n being the parsed token itself" % (kw, setter), b.where(0),
                  bad_what="`go %s` feeds %s (%s)" % (kw, got[0] if got else None, "value as parsed" if got and got[1] else "value transformed on the way, or not the parsed token"))
    extra = sorted(str(k) for k in table if k not in GO_KEYWORDS)
    ctx.check(not extra, "go-keywords:no-other-setter-call", "no other keyword sets a limit", b.where(0), bad_what="limits are also set under %s" % extra)
    for kw, setter in sorted(GO_KEYWORDS.items()):
        sb = ctx.body(LIMITS + setter)
        ssym = ctx.sym(sb)
        asg = [(bi, st) for bi, i, st in sb.stmts() if st["lhs"]["l"] == 1 and st["lhs"]["p"]]
        ok = len(asg) == 1 and fields_of(asg[0][1]["lhs"]) == (setter,) and mir.strip_copies(ssym.rvalue(asg[0][1]["rv"])) == ("arg", sb.local_name(2)) and not list(sb.calls())
        ctx.check(ok, "limits-setter:%s" % setter, "SearchLimits::%s stores its argument in self.%s and does nothing else" % (setter, setter), sb.where(0),
                  bad_what="SearchLimits::%s is not the plain store of its argument" % setter)
    nb = ctx.body("search::Search::new")
    r = ctx.sym(nb).local(0)
    lim = None
    if r[0] == "agg" and len(r) > 4 and "limits" in r[4]:
        lim = mir.strip_copies(r[3][list(r[4]).index("limits")])
    ok = lim is not None and lim[0] == "call" and lim[1].endswith("Option::unwrap_or_default") and mir.strip_copies(lim[2][0]) == ("arg", "limits")
    ctx.check(ok, "Search::new:limits-as-given", "Search::new keeps the limits it is given (default only when there are none)", nb.where(0),
              bad_what="Search::new initialises limits with `%s`" % (expr_str(lim)[:80] if lim else None))


TREE = (C.ALPHA_BETA_START, C.ALPHA_BETA, C.QUIESCENCE, "search::Search::get_pv", "search::Search::log_uci_info")


def rule_tree_index(ctx):
    """No index in the tree walk can be out of bounds: a panic anywhere below iter_deep kills the search thread before the
    bestmove line (defect D11: `moves[0]` on the empty pseudo-legal list of a fully blocked side).  Every bounds check /
    Index call in alpha_beta_start, alpha_beta, quiescence, get_pv, store_killers and log_uci_info is implied by a
    dominating length test that is still valid, by a constant index into a longer array, or by the index being a u8
    widened to usize into an array of 256."""
    ix = ctx.ix
    bodies = [ctx.body(k) for k in TREE]
    # ... and whatever other method of Search the walk calls (store_killers today; a helper moved onto another type is
    # expanded into its caller and audited there)
    for k in sorted(ix.reachable([C.ITER_DEEP])):
        if k.startswith("search::Search::") and k not in TREE and k != C.ITER_DEEP and k in ix.bodies and ix.bodies[k].kind == "fn":
            bodies.append(ix.bodies[k])
    for b in bodies:
        ctx.functions.add(b.key)
    n = c15.audit_index(ctx, bodies)
    ctx.floor("index sites in the tree walk", n, 4)
    ctx.note("tree-walk-other-panics", "lock poisoning (`expect` on the cache lock: only after another thread panicked while holding it), the consistency assert of get_pv (decided by C02) and the ply-counter / node-counter arithmetic are not decided")


def rule_nonblocking(ctx):
    """The Go arm and Uci::go return without waiting for the search."""
    ix = ctx.ix
    for key in (UCI_GO, EXEC):
        b = ctx.body(key)
        bad = []
        for bi, t in b.calls():
            c = strip_generics(t.get("callee") or "")
            if any(c.endswith(m) or m in c for m in c15.BLOCKING):
                bad.append((bi, c))
        ctx.check(not bad, "%s:no-blocking-call" % key, "%s contains no join / receive / lock / sleep" % C.short(key), b.where(0),
                  bad_what="%s blocks on %s: the input loop cannot process `stop` while the search runs" % (C.short(key), [C.short(c) for _, c in bad]))


def rule_legal_src(ctx):
    """Where the printed move comes from."""
    ix = ctx.ix
    it = ctx.body(C.ITER_DEEP)
    sym = ctx.sym(it)
    # "no result yet" is how a search starts: iter_deep's fall-back to a legal move depends on it
    ib = ctx.body("search::info::Info::new")
    v = mir.strip_copies(ctx.sym(ib).local(0))
    start = {}
    if v[0] == "agg" and len(v) > 4 and v[4]:
        start = dict(zip(v[4], v[3]))
    none = all(n in start and mir.strip_copies(start[n])[0] == "agg" and mir.strip_copies(start[n])[2] == "None" for n in ("best_move", "best_score"))
    ctx.check(none, "Info::new:no-result-yet", "a search starts with best_move = None and best_score = None", ib.where(0),
              bad_what="Info::new starts with best_move = `%s`, best_score = `%s`: a search cut short before its first iteration prints that move instead of falling back to a legal one"
              % (expr_str(start.get("best_move", ("?",)))[:50], expr_str(start.get("best_score", ("?",)))[:50]))
    # the fall-back when no iteration completed: any legal move *of the root position* (self.board may be a move ahead: the
    # root's abort path returns without taking its move back)
    glm = []
    wrong = []
    for cb in [it] + ix.closures_of(C.ITER_DEEP):
        csym = sym if cb is it else mir.Sym(cb, ix)
        for bi, t in cb.calls():
            if mir.callee_is(t, "board::Board::get_legal_moves"):
                glm.append((bi, t))
                recv = mir.strip_copies(mir.strip_refs(csym.operand(t["args"][0])))
                if cb is not it:
                    # what the closure captured: field k of its environment is operand k of the closure value built in iter_deep
                    caps = [s2["rv"]["ops"] for _b2, _i2, s2 in it.stmts() if s2["rv"].get("k") == "agg" and s2["rv"].get("closure") == cb.key]
                    for x in list(walk(recv)):
                        if isinstance(x, tuple) and x[0] == "field" and mir.strip_refs(x[1])[0] == "arg" and x[-1].isdigit() and caps and int(x[-1]) < len(caps[0]):
                            recv = mir.strip_copies(mir.strip_refs(sym.operand(caps[0][int(x[-1])])))
                if not any(isinstance(x, tuple) and x[0] == "field" and x[-1] == "original_board" for x in walk(recv)) or any(
                        isinstance(x, tuple) and x[0] == "field" and x[-1] == "board" for x in walk(recv)):
                    wrong.append(expr_str(recv)[:60])
    ctx.check(len(glm) >= 1, "%s:fallback-exists" % C.ITER_DEEP, "when no iteration completed, iter_deep asks the root position for a legal move (%d site(s))" % len(glm), it.where(glm[0][0] if glm else 0),
              bad_what="iter_deep has no fall-back to a legal move: a search cut short before its first iteration ends answers `bestmove 0000` although legal moves exist")
    ctx.check(not wrong, "%s:fallback-from-the-root-position" % C.ITER_DEEP, "iter_deep takes its fall-back move from original_board.get_legal_moves() (%d site(s))" % len(glm), it.where(glm[0][0] if glm else 0),
              bad_what="iter_deep asks `%s` for legal moves: not the root position (the walked board can be one move ahead after an aborted search, so this is a move of the other side)" % wrong)
    emits = c10.bestmove_emits(ix, it)
    ok_sources = 0
    seen = {}
    for eb in emits:
        t = it.blocks[eb].term
        e = ("call", "", tuple(sym.operand(a) for a in t["args"]))
        reads_best = any(c14.mentions_field(x, "info", "best_move") for x in C.depends_on(it, sym, e))
        ctx.check(reads_best, "%s:prints-info.best_move" % C.ITER_DEEP, "the printed move derives from info.best_move", it.where(eb), bad_what="the bestmove line is not built from info.best_move")
        # fallback closure(s): must take the move from get_legal_moves of the root copy
        for x in walk(e):
            if isinstance(x, tuple) and x[0] == "closure" and x[1] in ix.bodies:
                cb = ix.bodies[x[1]]
                calls = [strip_generics(t2.get("callee") or "") for _b, t2 in cb.calls()]
                if any(c == "board::Board::get_legal_moves" for c in calls):
                    csym = mir.Sym(cb, ix)
                    for _b, t2 in cb.calls():
                        if callee_is(t2, "board::Board::get_legal_moves"):
                            recv = csym.operand(t2["args"][0])
                            # the closure captured &mut self.original_board
                            ok_sources += 1
                            ctx.ok("%s:fallback-from-legal-moves" % C.ITER_DEEP, "when no iteration completed the move is taken from get_legal_moves() (legal by construction) of the captured board", cb.where(_b))
                            ctx.functions.add(cb.key)
                elif any("get_all_moves" in c for c in calls):
                    ctx.bad("%s:fallback-from-pseudo-legal-moves" % C.ITER_DEEP, "the fallback move is taken from the pseudo-legal list", cb.where(0))
    # ... and from nowhere else: the text printed depends on info.best_move, on the fall-back list, and on no other state
    # (a table entry, a remembered move of an earlier search, ...) whose legality in this position nothing establishes
    allowed_calls = ("board::Board::get_legal_moves", "<board::ply::Ply as std::fmt::Display>::fmt", "board::ply::Ply::to_notation", "search::Search::log", "search::Search::stop")
    foreign = []
    for eb in emits:
        t = it.blocks[eb].term
        e = ("call", "", tuple(sym.operand(a) for a in t["args"]))
        todo = [(it, x) for x in C.depends_on(it, sym, e)]
        seen_cl = set()
        while todo:
            body_, x0 = todo.pop()
            for x in walk(x0):
                if not isinstance(x, tuple) or not x:
                    continue
                if x[0] == "static":
                    foreign.append("static %s" % x[1])
                elif x[0] == "call" and isinstance(x[1], str) and strip_generics(x[1]) in ix.bodies and strip_generics(x[1]) not in allowed_calls and ix.bodies[strip_generics(x[1])].kind != "closure":
                    foreign.append("%s()" % C.short(x[1]))
                elif x[0] == "field" and mir.strip_refs(mir.strip_copies(x[1]))[0] == "deref" and mir.strip_refs(mir.strip_copies(x[1]))[1] == ("arg", "self") and body_ is it:
                    if tuple(x[2:4]) not in (("info", "best_move"),) and x[2] not in ("original_board",):
                        foreign.append("self.%s" % ".".join(x[2:]))
                elif x[0] == "closure" and x[1] in ix.bodies and x[1] not in seen_cl:
                    seen_cl.add(x[1])
                    cb = ix.bodies[x[1]]
                    csym = mir.Sym(cb, ix)
                    for _b, t2 in cb.calls():
                        todo.append((cb, ("call", t2.get("callee") or "?", tuple(csym.operand(a) for a in t2["args"]))))
                    todo.append((cb, csym.local(0)))
    foreign = sorted(set(foreign))
    ctx.check(not foreign, "%s:printed-move-has-no-other-source" % C.ITER_DEEP, "the bestmove text depends on info.best_move and the root's legal-move list only", it.where(emits[0] if emits else 0),
              bad_what="the bestmove text also depends on %s: a move taken from there is not known to be legal in the searched position" % ", ".join(foreign[:4]))
    # writers of info.best_move
    n_w = 0
    for b in ix.fn_bodies():
        bsym = None
        for bi, i, s in b.stmts():
            if fields_of(s["lhs"])[-2:] != ("info", "best_move"):
                continue
            n_w += 1
            ctx.functions.add(b.key)
            bsym = bsym or mir.Sym(b, ix)
            v = bsym.rvalue(s["rv"])
            names = [x[1] for x in walk(v) if isinstance(x, tuple) and x[0] == "var"]
            if v[0] == "agg" and v[2] == "None":
                continue
            if not names:
                ctx.bad("%s:best_move<-%s" % (b.key, expr_str(v)[:40]), "info.best_move is assigned `%s`, whose legality is not established (cannot decide)" % expr_str(v)[:80], b.where(bi))
                continue
            for nm in names:
                l = [k for k in range(len(b.locals)) if b.local_name(k) == nm]
                if not l:
                    continue
                pseudo = []
                for (db, di, rv) in b.defs().get(l[0], []):
                    dv = bsym.rvalue(rv) if rv.get("k") != "call" else ("call",)
                    if is_legal_checked(ix, b, bsym, db, dv):
                        ctx.ok(c15.dedup(seen, "%s:best_move<-%s:legality-checked" % (b.key, nm)), "`%s` is assigned from a move that passed is_legal_move in the same loop iteration" % nm, b.where(db))
                    else:
                        pseudo.append((db, expr_str(dv)))
                if not pseudo:
                    continue
                # `nm` may still hold its pseudo-legal initial value: the store must be unreachable in that state
                why = alpha_raised_evidence(ix, b, bsym, bi, nm)
                key = c15.dedup(seen, "%s:store-of-%s-needs-a-searched-move" % (b.key, nm))
                if why:
                    ctx.ok(key, "`%s` starts as a pseudo-legal move (%s) but this store is only reached after a legal move raised alpha (%s)" % (nm, pseudo[0][1][:50], why), b.where(bi))
                else:
                    ctx.bad(key, ("info.best_move = Some(%s) is reachable while `%s` still holds its initial value `%s`, which comes from the pseudo-legal list and was never legality-checked: "
                                  "if the search is cut before any move raised alpha, an illegal move (e.g. one leaving the king in check) is reported as bestmove") % (nm, nm, pseudo[0][1][:70]), b.where(bi))
    ctx.floor("writers of info.best_move", n_w, 2)


def alpha_raised_evidence(ix, b, sym, store_block, nm):
    """Why, at `store_block`, the variable `nm` cannot still hold its pseudo-legal initial value."""
    # premise shared by both arguments: alpha and `nm` are updated together, from a legality-checked move, under score > alpha,
    # alpha starts at i16::MIN
    al = [l for l in range(len(b.locals)) if b.local_name(l) == "alpha"]
    bp = [l for l in range(len(b.locals)) if b.local_name(l) == nm]
    if not al or not bp:
        return None
    adefs = b.defs().get(al[0], [])
    init = [d for d in adefs if sym.rvalue(d[2]) == ("const", -32768, "i16")]
    upd = [d for d in adefs if d not in init]
    if len(init) != 1 or not upd:
        return None
    for (db, di, rv) in upd:
        v = sym.rvalue(rv)
        cons = C.constraints_for(ix, b, sym, db)
        if not any(c[3][0] == "bin" and c[3][1] == "Gt" and c[3][2] == v and c[3][3] == ("var", "alpha") and True in c[1] for c in cons):
            return None
        # the same block assigns nm from a legality-checked move
        same = [d for d in b.defs().get(bp[0], []) if d[0] == db and is_legal_checked(ix, b, sym, db, sym.rvalue(d[2]))]
        if not same:
            return None
    cons = C.constraints_for(ix, b, sym, store_block)
    for c in cons:
        e = c[3]
        if e[0] == "bin" and e[1] == "Gt" and e[2] == ("var", "alpha") and True in c[1]:
            return "guard alpha > %s, and alpha only exceeds i16::MIN after such an update" % expr_str(e[3])
        if e[0] == "call" and e[1].endswith("Option::is_some_and") and True in c[1] and len(e[2]) == 2 and e[2][1][0] == "closure":
            cb = ix.bodies.get(e[2][1][1])
            caps = e[2][1][2]
            if cb is not None and caps and mir.strip_refs(caps[0]) == ("var", "alpha"):
                r = mir.Sym(cb, ix).local(0)
                if r[0] == "bin" and r[1] == "Gt" and "0" in expr_str(r[2]) and mir.strip_copies(r[2])[0] == "field" and r[3][0] == "arg":
                    return "guard best_score.is_some_and(|s| alpha > s), and alpha only exceeds i16::MIN after such an update"
    # final store: at least one legal move was searched to completion and every score exceeds i16::MIN
    tl = [c for c in cons if c[3][0] == "bin" and c[3][1] == "Eq" and c[3][2] == ("var", "total_legal_moves") and c[3][3][0] == "const" and c[3][3][1] == 0 and False in c[1]]
    if tl:
        sc = [l for l in range(len(b.locals)) if b.local_name(l) == "score"]
        sdefs = [rv for (_db, _di, rv) in b.defs().get(sc[0], [])] if sc else []
        negs = sdefs and all((rv.get("k") == "call" and callee_is(rv["t"], "core::num::<impl i16>::saturating_neg")) or
                             (rv.get("k") != "call" and sym.rvalue(rv)[0] == "call" and sym.rvalue(rv)[1].endswith("saturating_neg")) for rv in sdefs)
        # from the counting of a legal move, the next iteration is reached only through the `score > alpha` test
        tlm = [l for l in range(len(b.locals)) if b.local_name(l) == "total_legal_moves"]
        incs = [db for (db, di, rv) in b.defs().get(tlm[0], []) if sym.rvalue(rv) != ("const", 0, "i32")] if tlm else []
        nexts = [bi for bi, t in b.calls() if "MoveOrderer as std::iter::Iterator>::next" in (t.get("callee") or "")]
        tests = set()
        for blk in b.blocks:
            if blk.term["k"] == "switch":
                scn = C.switch_cond(b, sym, blk.idx)
                if scn and scn[0][0] == "bin" and scn[0][1] == "Gt" and scn[0][2] == ("var", "score") and scn[0][3] == ("var", "alpha"):
                    tests.add(blk.idx)
        through = bool(incs) and bool(nexts) and bool(tests) and all(nexts[0] not in b.reachable_from(x, removed=tests, include_start=False) for x in incs)
        if negs and through:
            return "total_legal_moves != 0, every counted move reaches the `score > alpha` test before the next iteration, alpha starts at i16::MIN and every score is a saturating_neg (>= MIN+1)"
    return None


def is_legal_checked(ix, b, sym, db, dv):
    """The value assigned in block db is the loop's `mv`, and db is dominated by the false edge of is_err(is_legal_move(mv))."""
    for blk in b.blocks:
        if blk.term["k"] != "switch" or not b.dominates(blk.idx, db):
            continue
        sc = C.switch_cond(b, sym, blk.idx)
        if not sc:
            continue
        e, neg = sc
        if e[0] == "call" and e[1] in ("std::result::Result::is_err", "std::result::Result::is_ok"):
            inner = mir.strip_copies(e[2][0])
            if inner[0] == "call" and inner[1] == "board::Board::is_legal_move" and inner[2][1] == dv:
                f, tr = C.switch_edges(blk.term)
                illegal = tr if (e[1].endswith("is_err") != neg) else f
                if not any(db in b.reachable_from(x, removed={blk.idx}, include_start=True) for x in illegal):
                    return True
    return False


def rule_time_budget(ctx):
    """The per-move clock budget is derived from the side to move's own clock and increment."""
    ix = ctx.ix
    b = ctx.body(C.SEARCH)
    sym = ctx.sym(b)
    # per side to move (per-case constant propagation): what is stored into limits.time_management_timer
    from . import cases
    rows = {}
    for c in ("White", "Black"):
        run = cases.run(ix, b, {"*self.board.current_turn": cases.enum_val(ix, "board::piece::Color", c)})
        vals = []
        for p in run.paths:
            for e in p.events:
                if e[0] == "store" and e[2].endswith("limits.time_management_timer"):
                    vals.append(e[3])
        if run.overflow or not vals:
            rows[c] = None
            continue
        flds = sorted({x[-1] for v in vals for x in walk(v) if isinstance(x, tuple) and x[0] == "field" and len(x) >= 3 and x[-2] == "limits"})
        shape_ok = True
        for v in vals:
            inner = mir.strip_copies(v)
            if inner[0] == "agg" and inner[2] == "Some" and inner[3]:
                inner = mir.strip_copies(inner[3][0])
            if inner[0] == "call" and inner[1].endswith("::into") and inner[2]:
                inner = mir.strip_copies(inner[2][0])
            divs = [x[3][1] for x in walk(inner) if isinstance(x, tuple) and x[0] == "bin" and x[1] == "Div" and x[3][0] == "const"]
            shape_ok = shape_ok and inner[0] == "bin" and inner[1].startswith("Add") and all(isinstance(y, tuple) and y[0] == "bin" and y[1] == "Div" for y in (inner[2], inner[3])) and all(d >= 1 for d in divs) and len(divs) == 2
        rows[c] = (flds, shape_ok)
    want = {"White": ["white_increment", "white_time"], "Black": ["black_increment", "black_time"]}
    for c in ("White", "Black"):
        got = rows.get(c)
        ctx.check(got is not None and got[0] == want[c] and got[1], "search:time-budget:%s" % c, "%s to move: budget = %s / k1 + %s / k2 (own clock and increment, each divided by a constant >= 1)" % (c, want[c][1], want[c][0]), b.where(0),
                  bad_what="with %s to move the clock budget is computed from %s: the engine must budget from the mover's own clock and increment, or it overruns the time the limits allow" % (c, got))
    # and it is stored where limits_exceeded reads it
    asg = [bi for bi, i, s in b.stmts() if fields_of(s["lhs"])[-2:] == ("limits", "time_management_timer")]
    its = [bi for bi, t in b.calls() if C.ITER_DEEP in ix.call_targets(t)]
    ctx.check(len(asg) == 1 and its and b.dominates(asg[0], its[0]), "search:time-budget:set-before-search", "limits.time_management_timer is set once, before iter_deep", b.where(asg[0] if asg else 0),
              bad_what="the time-management budget is not assigned (once) before the search starts")
    le = ctx.body(C.LIMITS_EXCEEDED)
    lsym = ctx.sym(le)
    reads = any(isinstance(x, tuple) and x[0] == "field" and x[-1] == "time_management_timer" for bi, i, s in le.stmts() for x in walk(lsym.rvalue(s["rv"])))
    # ... whenever the GUI sent any clock parameter: all four (wtime, btime, winc, binc) switch the budget on
    clock_fields = {x[-1] for bi, i, st in le.stmts() for x in walk(lsym.rvalue(st["rv"])) if isinstance(x, tuple) and x[0] == "field" and "limits" in x and x[-1] in ("white_time", "black_time", "white_increment", "black_increment")}
    clock_fields |= {x[-1] for bi, t in le.calls() for a in t["args"] for x in walk(lsym.operand(a)) if isinstance(x, tuple) and x[0] == "field" and "limits" in x and x[-1] in ("white_time", "black_time", "white_increment", "black_increment")}
    ctx.check(clock_fields == {"white_time", "black_time", "white_increment", "black_increment"}, "limits_exceeded:every-clock-parameter-counts", "the clock budget applies when any of wtime, btime, winc, binc was given", le.where(0),
              bad_what="limits_exceeded looks at %s only: a `go` carrying just the other clock parameter(s) has no limit at all and is never answered" % sorted(clock_fields))
    # the budget reaches the limits: the setter search() calls stores its argument in limits.time_management_timer
    setters = [k for k in ix.bodies if k.startswith(LIMITS) and k.endswith("::time_management_timer")]
    st_ok = False
    for k in setters:
        sb = ix.bodies[k]
        ssym = mir.Sym(sb, ix)
        for bi, i, stt in sb.stmts():
            if fields_of(stt["lhs"])[-1:] == ("time_management_timer",) and mir.strip_copies(ssym.rvalue(stt["rv"]))[0] == "arg" and mir.strip_copies(ssym.rvalue(stt["rv"]))[1] != sb.local_name(1):
                st_ok = True
                ctx.functions.add(k)
    direct = any(fields_of(stt["lhs"])[-1:] == ("time_management_timer",) for bi, i, stt in b.stmts())
    ctx.check(st_ok or direct, "search:time-budget:stored", "the computed budget is stored in limits.time_management_timer (the setter keeps its argument)", b.where(0),
              bad_what="the time budget computed in search() never reaches limits.time_management_timer (the setter drops its argument): a clocked `go` has no limit")
    ctx.check(reads, "limits_exceeded:reads-time-budget", "limits_exceeded compares the elapsed time with limits.time_management_timer", le.where(0), bad_what="limits_exceeded never reads the time-management budget")


def rule_poll(ctx):
    c10.rule_poll(ctx)
    # `go nodes N` ends because the node counter grows: every function of the tree walk counts the node it visits
    ix = ctx.ix
    for key in (C.ALPHA_BETA_START, C.ALPHA_BETA, C.QUIESCENCE):
        b = ctx.body(key)
        sym = ctx.sym(b)
        incs = []
        for bi, i, st in b.stmts():
            if fields_of(st["lhs"])[-2:] == ("info", "nodes"):
                v = mir.strip_copies(sym.rvalue(st["rv"]))
                if v[0] == "bin" and v[1].startswith("Add") and v[3] == ("const", 1, "u64") and mir.strip_copies(v[2])[0] == "field" and mir.strip_copies(v[2])[-2:] == ("info", "nodes"):
                    incs.append(bi)
        ctx.check(len(incs) >= 1, "%s:counts-its-nodes" % key, "%s adds 1 to info.nodes for the nodes it visits (%d site(s))" % (C.short(key), len(incs)), b.where(incs[0] if incs else 0),
                  bad_what="%s never increments info.nodes: a node budget (`go nodes N`) is not consumed by the nodes it visits, and the search overruns it or never ends" % C.short(key))


def rule_depth_units(ctx):
    c14.rule_depth_units(ctx)


RULES = [("one-site", rule_one_site), ("spine-panics", rule_spine_panics), ("tree-index", rule_tree_index), ("go-keywords", rule_go_keywords), ("poll", rule_poll), ("time-budget", rule_time_budget), ("nonblocking", rule_nonblocking),
         ("depth-units", rule_depth_units), ("legal-src", rule_legal_src)]
# "legal" in "exactly one legal bestmove" rests on the legality filter
RULES += engine.movegen_premises()
# the position searched was loaded by `position`: a valid FEN must load (the parser's alphabet is exactly the valid one,
# C07), and the counters make_move steps in the tree must be wide enough for any game (C15.counter-widths)
RULES += engine.premise_rules("c07", ["letters", "side-ep", "castle-letters", "fields"])
# what a cut child hands back is a dummy: it becomes neither a cache entry nor alpha / the best move (C13)
RULES += engine.premise_rules("c13", ["guard", "child-score"])
# the search walks a copy of the board: the copy is the same position (C04.clone)
RULES += engine.premise_rules("c04", ["clone"])
RULES += engine.premise_rules("c15", ["counter-widths"])
# "legal in the position the GUI set up": the board the search is started on is the one the last `position` command
# describes, whatever came before it in the session (C08)
RULES += engine.premise_rules("c08", ["fresh", "commit", "apply", "tokens", "dispatch"])
# get_pv runs on the search thread before the bestmove line and asserts that it restored its scratch board: the line is
# printed only if the walk takes back exactly the moves it played (C14.pv-legal)
RULES += engine.premise_rules("c14", ["pv-legal", "move-text"])   # and the move is printed the way `position .. moves` reads it back


def run(tier):
    return engine.main(
        PROP, "every go answered by exactly one bestmove", RULES, "other",
        explanation=("Decides the structural clauses for every position and every limit combination at once: exactly one bestmove emission on every path of the search "
                     "thread (one site in iter_deep outside the loop, search() calls iter_deep once, the thread closure calls search() once, one spawn per go); no panic site "
                     "on the spine between thread entry and the emission (bounds, arithmetic, explicit panics, unwrap/expect audited as in C15) so that tiny budgets which cut the "
                     "first iteration still reach the print; the printed text depends on info.best_move and the root's legal-move list and on no other state (no table entry, no remembered move); the abort test dominates every recursive call and is repeated after every child (overshoot bounded by one node); "
                     "the Go arm does not wait for the search; the depth limit bounds iterations only; the printed move comes from a legality-checked move or from get_legal_moves(). "
                     "Not decided: wall-clock adherence, panic-freedom of the tree walk beyond the spine, legality of the initial pseudo-legal best_ply by value."),
        assumptions=["println! does not fail", "Board::get_legal_moves / is_legal_move are exact (C01)"],
        tier=tier)
