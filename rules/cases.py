"""Per-case constant propagation over one body (DESIGN App. A, "decision tables").

Several properties are tables: for each castling kind a mask, for each (captured?, en passant?) a list of placement
edits, for each (kind, side to move) accept / refuse.  The code may spell a table as a `match`, as nested `if`s, as a
lookup into a local first, with `==` on an enum or with `matches!`.  Instead of recognising each spelling, the table is
read off by propagating constants through the control-flow graph with some inputs fixed to one value of their finite
type (a *case*):

  * values are the symbolic expressions of mir.Sym; an input fixed by the case is a constant or a constant aggregate;
  * a switch whose operand folds to a constant follows its one edge; a switch on an unknown value forks, and the
    condition is recorded on the path;
  * calls are not entered: a call is an *event* (callee, argument values) and its result is the symbolic call
    expression -- except for the derived `==` on field-less enums, `Option::is_some/is_none` and a few std
    constructors, which fold when their operands are known;
  * stores through references are events too, and are remembered so that a later read of the same place sees them;
  * loops are cut after the second visit of a block on one path (the tables this is used for have no loops).

Nothing is executed and no solver is involved: this is conditional constant propagation with a case split over finite
enum inputs.  The result is, per case, the list of paths with their events -- what the function does in that case.
"""
from . import mir
from .mir import expr_str, strip_generics, callee_name, op_place

MAX_PATHS = 4000
MAX_STEPS = 60000      # blocks walked in one run: a case that is not pinned down by its inputs fans out and is given up


_PRIM = {"u8": (1, False), "i8": (1, True), "u16": (2, False), "i16": (2, True), "u32": (4, False), "i32": (4, True), "u64": (8, False), "i64": (8, True),
         "usize": (8, False), "isize": (8, True), "bool": (1, False)}


def _decode(ix, ty, raw):
    """The value of type `ty` stored (little-endian) in `raw`: an integer / bool, a struct of such (by the layout the
    compiler chose), or a field-less enum stored in one byte; None when the type is not one this reader decodes."""
    if ty in _PRIM:
        size, signed = _PRIM[ty]
        if len(raw) < size:
            return None
        return ("const", int.from_bytes(raw[:size], "little", signed=signed), ty)
    a = ix.adts.get(ty)
    if a is None:
        return None
    lay = a.get("layout")
    if a["kind"] == "Struct" and lay and len(a["variants"]) == 1:
        fs = a["variants"][0]["fields"]
        vals = []
        for f, off in zip(fs, lay["offsets"]):
            v = _decode(ix, f["ty"], raw[off:])
            if v is None:
                return None
            vals.append(v)
        return ("agg", ty, a["variants"][0]["name"], tuple(vals), tuple(f["name"] for f in fs))
    return None


def _sizeof(ix, ty):
    if ty in _PRIM:
        return _PRIM[ty][0]
    a = ix.adts.get(ty)
    if a is not None and a.get("layout"):
        return a["layout"]["size"]
    return None


def decode_const_elem(ix, path, idx):
    """Element `idx` of the crate's `const path: [T; N]`, decoded from the bytes the compiler evaluated it to."""
    c = ix.consts.get(path)
    if c is None or "bytes" not in c:
        return None
    import re
    m = re.match(r"^\[(.+); (\d+)\]$", c.get("ty") or "")
    if not m:
        return None
    ety, n = m.group(1), int(m.group(2))
    size = _sizeof(ix, ety)
    raw = bytes.fromhex(c["bytes"])
    if size is None or not (0 <= idx < n) or len(raw) != size * n:
        return None
    return _decode(ix, ety, raw[idx * size:(idx + 1) * size])


def enum_val(ix, adt, variant, payload=()):
    a = ix.adts[adt]
    fields = ()
    for v in a["variants"]:
        if v["name"] == variant:
            fields = tuple(f["name"] for f in v["fields"])
    return ("agg", adt, variant, tuple(payload), fields)


def option(variant, payload=()):
    return ("agg", "std::option::Option", variant, tuple(payload), ("0",) if payload else ())


def const(n, ty):
    return ("const", n, ty)


def is_known(e):
    """A value without symbolic leaves."""
    if e[0] == "const":
        return True
    if e[0] == "agg":
        return all(is_known(x) for x in e[3])
    if e[0] == "ref":
        return is_known(e[1])
    if e[0] == "iterval":
        return True
    return False


class Path:
    __slots__ = ("events", "conds", "ret", "end", "blocks")

    def __init__(self):
        self.events = []
        self.conds = []
        self.ret = None
        self.end = None
        self.blocks = []

    def calls(self, *suffixes):
        return [e for e in self.events if e[0] == "call" and any(e[2].endswith(s) for s in suffixes)]

    def stores(self):
        return [e for e in self.events if e[0] == "store"]


class Cases:
    def __init__(self, ix, body, inputs=None):
        self.ix = ix
        self.body = body
        self.inputs = dict(inputs or {})
        self.sym = mir.Sym(body, ix)
        self.paths = []
        self.overflow = False
        self.steps = 0
        self.depth = 0

    # ------------------------------------------------------------------------------ evaluation
    def _variant_index(self, e):
        """Discriminant of a known aggregate."""
        if e[0] != "agg" or e[2] is None:
            return None
        adt = e[1]
        head = adt.split("<")[0]
        if head in ("std::option::Option", "core::option::Option"):
            return {"None": 0, "Some": 1}.get(e[2])
        if head in ("std::result::Result", "core::result::Result"):
            return {"Ok": 0, "Err": 1}.get(e[2])
        a = self.ix.adts.get(head)
        if a is None:
            return None
        for i, v in enumerate(a["variants"]):
            if v["name"] == e[2]:
                return int(v["discr"]) if v["discr"] is not None else i
        return None

    def _inp(self, e):
        t = expr_str(e)
        if t in self.inputs:
            return self.inputs[t]
        return e

    def local(self, st, l):
        if l in st["loc"]:
            return st["loc"][l]
        if 1 <= l <= self.body.arg_count:
            return self._inp(("arg", self.body.local_name(l)))
        return ("var", self.body.local_name(l))

    def place(self, st, p):
        e = self.local(st, p["l"])
        for el in p["p"]:
            e = self.project(st, e, el)
        return e

    def project(self, st, e, el, as_place=False):
        if el == "*":
            if e[0] == "ref":
                # a reference remembers the place it was taken of next to the value seen then: reading through it reads
                # the place as it is now, storing through it stores into the place
                e = e[2] if len(e) >= 3 else e[1]
            else:
                e = ("deref", e)
        elif isinstance(el, str):
            return e
        elif "n" in el:
            n = el["n"]
            if e[0] == "upd":
                hit = [ov for (fn, ov) in e[2] if fn == n]
                if hit:
                    return hit[-1]
                e = e[1]
            if e[0] == "agg":
                names = e[4] if len(e) > 4 and e[4] else tuple(str(i) for i in range(len(e[3])))
                if n in names and names.index(n) < len(e[3]):
                    e = e[3][names.index(n)]
                elif n.isdigit() and int(n) < len(e[3]):
                    e = e[3][int(n)]
                else:
                    e = ("field", e, n)
            elif e[0] == "bin" and e[1].endswith("WithOverflow") and n == "0":
                e = self.fold(("bin", e[1][:-len("WithOverflow")], e[2], e[3]))
            elif e[0] == "bin" and e[1].endswith("WithOverflow") and n == "1":
                e = ("const", 0, "bool") if is_known(self.fold(("bin", e[1][:-len("WithOverflow")], e[2], e[3]))) else ("field", e, n)
            elif e[0] == "field":
                e = e + (n,)
            elif e[0] in ("arg", "var") or e[0] == "deref" and e[1][0] in ("arg", "var"):
                e = ("field", e, n)
            else:
                e = ("field", e, n)
        elif "d" in el:
            if e[0] == "agg" and e[2] == el["d"]:
                pass
            else:
                e = ("as", e, el["d"])
        elif "i" in el or "ci" in el:
            ix_ = self.local(st, el["i"]) if "i" in el else ("const", el["ci"], "usize")
            if e[0] == "agg" and e[1] == "array" and ix_[0] == "const" and isinstance(ix_[1], int) and 0 <= ix_[1] < len(e[3]):
                e = e[3][ix_[1]]  # a table built in this case, read at a known slot
            elif e[0] == "item" and ix_[0] == "const" and isinstance(ix_[1], int) and decode_const_elem(self.ix, e[1], ix_[1]) is not None:
                e = decode_const_elem(self.ix, e[1], ix_[1])   # a `const TABLE: [T; N]` of the crate, read at a known slot
            else:
                e = ("index", e, ix_)
        elif "sub" in el:
            e = ("subslice", e, el["sub"], el["to"])
        if as_place:
            return e  # naming a place to store into: neither the case's inputs nor remembered stores apply
        if e[0] in ("agg", "const", "call", "bin", "un", "cast", "closure", "fn", "iterval"):
            return e  # a value, not a place: nothing was stored "there" and no input is named like it
        t = expr_str(e)
        if t in st["mem"]:
            return st["mem"][t]   # what this walk stored there last
        e = self._inp(e)
        t = expr_str(e)
        if t in st["mem"]:
            return st["mem"][t]
        return e

    def place_of(self, st, p):
        """The place itself (for a reference to it): no substitution of the case's inputs or of remembered stores."""
        l = p["l"]
        if l in st["loc"] and p["p"] and p["p"][0] == "*" and st["loc"][l][0] == "ref":
            e = st["loc"][l]
        elif 1 <= l <= self.body.arg_count:
            e = ("arg", self.body.local_name(l))
        elif l in st["loc"] and p["p"] and p["p"][0] == "*":
            e = st["loc"][l]
        else:
            e = ("var", self.body.local_name(l))
        for el in p["p"]:
            e = self.project(st, e, el, as_place=True)
        return e

    def operand(self, st, op):
        if op is None:
            return ("unknown", "none")
        if "const" in op:
            return self.sym.const(op["const"])
        p = op_place(op)
        if p is not None:
            return self.place(st, p)
        return ("unknown", str(op)[:40])

    def fold(self, e):
        """Constant folding of one node whose children are already folded."""
        k = e[0]
        if k == "bin":
            a, b = e[2], e[3]
            if a[0] == "const" and b[0] == "const" and isinstance(a[1], int) and isinstance(b[1], int):
                v = mir.eval_expr(("bin", e[1], a, b), {})
                op = e[1]
                cmpv = {"Eq": a[1] == b[1], "Ne": a[1] != b[1], "Lt": a[1] < b[1], "Le": a[1] <= b[1], "Gt": a[1] > b[1], "Ge": a[1] >= b[1]}.get(op)
                if cmpv is not None:
                    return ("const", int(cmpv), "bool")
                if v is not None and not op.endswith("WithOverflow"):
                    return ("const", v, a[2])
            return e
        if k == "un":
            a = e[2]
            if a[0] == "const" and isinstance(a[1], int):
                if e[1] == "Not" and a[2] == "bool":
                    return ("const", 0 if a[1] else 1, "bool")
            return e
        if k == "discr":
            vi = self._variant_index(e[1]) if e[1][0] == "agg" else None
            if vi is not None:
                return ("const", vi, "isize")
            return e
        if k == "cast":
            if e[1][0] == "const" and isinstance(e[1][1], int):
                return ("const", e[1][1], e[2])
            return e
        return e

    def rvalue(self, st, rv):
        k = rv["k"]
        if k == "use":
            return self.operand(st, rv["a"])
        if k in ("ref", "rawptr"):
            v = self.place(st, rv["p"])
            q = rv["p"]
            if not (1 <= q["l"] <= self.body.arg_count or "*" in q["p"]):
                return ("ref", v)       # a local of this walk: its value is the state
            pl = self.place_of(st, q)
            return ("ref", v) if pl == v else ("ref", v, pl)
        if k == "binop":
            return self.fold(("bin", rv["op"], self.operand(st, rv["a"]), self.operand(st, rv["b"])))
        if k == "unop":
            if rv["op"] == "PtrMetadata":
                return ("len", self.operand(st, rv["a"]))
            return self.fold(("un", rv["op"], self.operand(st, rv["a"])))
        if k == "cast":
            return self.fold(("cast", self.operand(st, rv["a"]), rv["to"]))
        if k == "discr":
            return self.fold(("discr", self.place(st, rv["p"])))
        if k == "agg":
            ops = tuple(self.operand(st, o) for o in rv["ops"])
            if rv["agg"] == "adt":
                return ("agg", rv["adt"], rv["variant"], ops, tuple(rv.get("fields", [])))
            if rv["agg"] == "closure":
                return ("closure", rv["closure"], ops)
            return ("agg", rv["agg"], None, ops)
        if k == "repeat":
            return ("repeat", self.operand(st, rv["a"]), rv["n"])
        return ("unknown", rv.get("desc", k)[:80])

    @staticmethod
    def _as_list(e, by_ref):
        """Elements of a known array / slice value (through references and unsizing casts); as references when iterated by
        reference."""
        refd = False
        for _ in range(10):
            if e[0] == "ref":
                e = e[1]
                refd = True
            elif e[0] in ("cast", "copy", "move", "deref") and isinstance(e[1], tuple):
                e = e[1]
            else:
                break
        if e[0] == "agg" and e[1] == "array" and all(is_known(mir.strip_refs(x)) for x in e[3]):
            return tuple(("ref", x) if (by_ref or refd) else x for x in e[3])
        return None

    def _iter_value(self, callee, args):
        """Iterators over data this walk knows are values of the walk: ('iterval', remaining elements)."""
        name = callee.rsplit("::", 1)[-1]
        if not args:
            return None
        a0 = args[0]
        if name == "iter" and ("[T]" in callee or "slice" in callee or "array" in callee):
            els = self._as_list(a0, True)
            return ("iterval", els) if els is not None else None
        if name == "into_iter":
            if a0[0] == "iterval":
                return a0
            els = self._as_list(a0, False)
            return ("iterval", els) if els is not None else None
        if a0[0] != "iterval":
            return None
        if name == "chain" and len(args) == 2:
            b = args[1] if args[1][0] == "iterval" else None
            if b is None:
                els = self._as_list(args[1], False)
                b = ("iterval", els) if els is not None else None
            return ("iterval", a0[1] + b[1]) if b is not None else None
        if name in ("copied", "cloned"):
            return ("iterval", tuple(mir.strip_refs(x) for x in a0[1]))
        if name == "rev":
            return ("iterval", tuple(reversed(a0[1])))
        return None

    def call_result(self, callee, args):
        """Fold the few pure functions whose meaning is fixed: derived equality on field-less enums, Option tests."""
        from . import common as C
        if "iter" in callee.lower():
            it = self._iter_value(callee, [a if a[0] == "iterval" else a for a in args])
            if it is not None:
                return it
        d = C._derived_discr_eq(self.ix, callee)
        if d is not None and len(args) == 2:
            a, b = mir.strip_refs(args[0]), mir.strip_refs(args[1])
            ia, ib = (self._variant_index(a) if a[0] == "agg" else None), (self._variant_index(b) if b[0] == "agg" else None)
            if ia is not None and ib is not None:
                return ("const", int((ia == ib) != d[1]), "bool")
        if callee in ("std::option::Option::is_some", "std::option::Option::is_none") and len(args) == 1:
            a = mir.strip_refs(args[0])
            if a[0] == "agg" and a[2] in ("Some", "None"):
                return ("const", int((a[2] == "Some") == callee.endswith("is_some")), "bool")
        if callee in ("std::option::Option::unwrap", "std::option::Option::expect") and args:
            a = args[0]
            if a[0] == "agg" and a[2] == "Some" and a[3]:
                return a[3][0]
        # Option combinators on a known receiver: the closure is evaluated like any other pure function
        if callee.startswith("std::option::Option::") and args and args[0][0] == "agg" and args[0][2] in ("Some", "None") and self.depth < 3:
            name = callee.rsplit("::", 1)[-1]
            recv = args[0]
            if recv[2] == "None":
                if name in ("and_then", "map", "filter", "and", "copied", "cloned"):
                    return option("None")
                if name == "is_some_and":
                    return ("const", 0, "bool")
                if name == "is_none_or":
                    return ("const", 1, "bool")
                if name in ("unwrap_or",) and len(args) == 2:
                    return args[1]
                if name == "map_or" and len(args) == 3:
                    return args[1]
                if name in ("or",) and len(args) == 2:
                    return args[1]
            elif recv[3]:
                x = recv[3][0]
                if name in ("copied", "cloned"):
                    return recv
                if name in ("and_then", "map", "is_some_and", "is_none_or", "filter") and len(args) == 2:
                    r = self.pure_call(args[1], [x] if name != "filter" else [("ref", x)])
                    if r is not None:
                        if name == "and_then" or name in ("is_some_and", "is_none_or"):
                            return r
                        if name == "map":
                            return option("Some", [r])
                        if name == "filter" and r[0] == "const":
                            return recv if r[1] else option("None")
                if name == "map_or" and len(args) == 3:
                    r = self.pure_call(args[2], [x])
                    if r is not None:
                        return r
                if name in ("unwrap_or", "or") and len(args) == 2:
                    return x if name == "unwrap_or" else recv
        # `a != b` on a type that only defines `eq` (the derive): the provided `ne` is `!eq`
        if callee.endswith("std::cmp::PartialEq>::ne") and callee not in self.ix.bodies and self.depth < 3 and len(args) == 2:
            eqk = callee[:-2] + "eq"
            if eqk in self.ix.bodies and all(is_known(mir.strip_refs(a)) for a in args):
                r = self.pure_call(("fn", eqk), list(args))
                if r is not None and r[0] == "const" and r[1] in (0, 1):
                    return ("const", 1 - r[1], "bool")
        # a crate function (or closure) whose arguments are all known and which computes a value without touching anything
        if self.depth < 3 and callee in self.ix.bodies and args and all(is_known(mir.strip_refs(a)) for a in args):
            r = self.pure_call(("fn", callee), list(args))
            if r is not None:
                return r
        return ("call", callee, tuple(args))

    def pure_call(self, f, args):
        """Value of calling `f` (('fn', key) or a closure aggregate) on `args` when the callee, walked with those arguments
        fixed, has exactly one outcome: one returning path, a known value, no store and no call left unfolded."""
        if f[0] == "fn" and f[1] in self.ix.bodies:
            body = self.ix.bodies[f[1]]
            bound = list(args)
            env_val = None
        elif f[0] == "closure" and f[1] in self.ix.bodies:
            body = self.ix.bodies[f[1]]
            env_val = ("agg", "closure", None, tuple(f[2]))
            bound = [env_val] + list(args)
        else:
            return None
        if body.arg_count != len(bound) or len(body.blocks) > 200:
            return None
        # a reference to a known value is passed as that value: the caller's place means nothing in the callee
        bound = [("ref", v[1]) if isinstance(v, tuple) and v[0] == "ref" and len(v) == 3 and is_known(mir.strip_refs(v)) else v for v in bound]
        inputs = {}
        for i, v in enumerate(bound):
            inputs[body.local_name(i + 1)] = v
        sub = Cases(self.ix, body, inputs)
        sub.depth = self.depth + 1
        sub.run()
        if sub.overflow:
            return None
        rets = [p for p in sub.paths if p.end == "return"]
        others = [p for p in sub.paths if p.end not in ("return", "panic", "unreachable")]
        if len(rets) != 1 or others:
            return None
        p = rets[0]
        if p.conds or any(e[0] == "store" for e in p.events) or any(e[0] == "call" for e in p.events):
            return None
        return p.ret if p.ret is not None and is_known(mir.strip_refs(p.ret)) else None

    # ------------------------------------------------------------------------------ exploration
    def run(self):
        st0 = {"loc": {}, "mem": {}, "refsrc": {}}
        stack = [(0, st0, Path(), {})]
        while stack:
            bi, st, path, visits = stack.pop()
            if len(self.paths) > MAX_PATHS or self.steps > MAX_STEPS:
                self.overflow = True
                break
            while True:
                if bi < 0:
                    break
                self.steps += 1
                if self.steps > MAX_STEPS:
                    self.overflow = True
                    break
                n = visits.get(bi, 0)
                if n >= 2:
                    path.end = "cut"
                    self.paths.append(path)
                    break
                visits = dict(visits)
                visits[bi] = n + 1
                path.blocks.append(bi)
                blk = self.body.blocks[bi]
                for s in blk.stmts:
                    rv = s["rv"]
                    if rv.get("k") == "setdiscr":
                        continue
                    v = self.rvalue(st, rv)
                    self.assign(st, path, s["lhs"], v, bi)
                    if rv.get("k") == "ref" and not rv["p"]["p"] and not s["lhs"]["p"]:
                        st["refsrc"][s["lhs"]["l"]] = rv["p"]["l"]      # `&mut iter`: which local the reference is to
                    elif rv.get("k") == "ref" and rv["p"]["p"] == ["*"] and not s["lhs"]["p"] and rv["p"]["l"] in st["refsrc"]:
                        st["refsrc"][s["lhs"]["l"]] = st["refsrc"][rv["p"]["l"]]      # a reborrow `&mut *r`
                    elif rv.get("k") == "use" and not s["lhs"]["p"]:
                        q_ = op_place(rv["a"])
                        if q_ is not None and not q_["p"] and q_["l"] in st["refsrc"]:
                            st["refsrc"][s["lhs"]["l"]] = st["refsrc"][q_["l"]]       # the reference handed on
                t = blk.term
                k = t["k"]
                if k == "goto":
                    bi = t["target"]
                    continue
                if k in ("drop", "assert"):
                    bi = t["target"]
                    continue
                if k == "return":
                    path.ret = self.local(st, 0)
                    path.end = "return"
                    self.paths.append(path)
                    break
                if k in ("unreachable", "resume", "abort"):
                    path.end = "unreachable" if k == "unreachable" else "panic"
                    self.paths.append(path)
                    break
                if k == "call" or k == "tailcall":
                    args = [self.operand(st, a) for a in t["args"]]
                    callee = strip_generics(callee_name(t)) if "indirect" not in t else "<indirect>"
                    # `next` on an iterator over data this walk knows: hand out the next element and advance
                    if callee.endswith("::next") and len(t["args"]) == 1 and k == "call" and t.get("target") is not None:
                        rp = op_place(t["args"][0])
                        src = st["refsrc"].get(rp["l"]) if rp is not None and not rp["p"] else None
                        itv = st["loc"].get(src) if src is not None else None
                        if itv is not None and itv[0] == "iterval":
                            if itv[1]:
                                res = option("Some", [itv[1][0]])
                                st["loc"][src] = ("iterval", itv[1][1:])
                            else:
                                res = option("None")
                            self.assign(st, path, t["dest"], res, bi)
                            visits = {}     # the loop made progress: its blocks may be walked again
                            bi = t["target"]
                            continue
                    res = self.call_result(callee, args)
                    folded = not (res[0] == "call" and res[1] == callee and res[2] == tuple(args))
                    if not folded:
                        path.events.append(("call", bi, callee, tuple(args)))
                    if k == "tailcall" or t.get("target") is None:
                        path.end = "panic" if k == "call" else "return"
                        path.ret = res
                        self.paths.append(path)
                        break
                    self.assign(st, path, t["dest"], res, bi)
                    bi = t["target"]
                    continue
                if k == "switch":
                    d = self.operand(st, t["discr"])
                    if d[0] == "const" and isinstance(d[1], int):
                        tgt = t["otherwise"]
                        for a in t["arms"]:
                            if a[0] == d[1]:
                                tgt = a[1]
                        bi = tgt
                        continue
                    # fork
                    arms = [(a[0], a[1]) for a in t["arms"]] + [("otherwise", t["otherwise"])]
                    first = True
                    nxt = None
                    for v, tgt in arms:
                        if tgt >= 0 and self.body.blocks[tgt].term["k"] == "unreachable" and not self.body.blocks[tgt].stmts:
                            continue
                        cond = (expr_str(d), v if v != "otherwise" else ("not", tuple(a[0] for a in t["arms"])), bi, d)
                        if first:
                            first = False
                            nxt = (tgt, cond)
                        else:
                            p2 = Path()
                            p2.events = list(path.events)
                            p2.conds = list(path.conds) + [cond]
                            p2.blocks = list(path.blocks)
                            st2 = {"loc": dict(st["loc"]), "mem": dict(st["mem"]), "refsrc": dict(st["refsrc"])}
                            stack.append((tgt, st2, p2, visits))
                    if nxt is None:
                        path.end = "unreachable"
                        self.paths.append(path)
                        break
                    path.conds.append(nxt[1])
                    bi = nxt[0]
                    continue
                path.end = "other:" + k
                self.paths.append(path)
                break
        return self.paths

    def assign(self, st, path, lhs, v, bi):
        if not lhs["p"]:
            st["loc"][lhs["l"]] = v
            return
        # a store into part of a local aggregate, or through a reference
        root = self.local(st, lhs["l"])
        if lhs["p"][0] != "*" and root[0] == "agg":
            st["loc"][lhs["l"]] = self._update(root, lhs["p"], v)
            return
        if lhs["p"][0] != "*" and len(lhs["p"]) == 1 and isinstance(lhs["p"][0], dict) and "n" in lhs["p"][0] and not (1 <= lhs["l"] <= self.body.arg_count and lhs["l"] not in st["loc"]) \
                and root[0] in ("field", "upd", "deref", "index", "call", "as"):
            # a field of a local that holds a *copy* of something (`let mut r = m.rights; r.f = v;`): the copy changes, not
            # what it was copied from; the change reaches a place only when the local is stored there
            base, ovs = (root[1], root[2]) if root[0] == "upd" else (root, ())
            n = lhs["p"][0]["n"]
            st["loc"][lhs["l"]] = ("upd", base, tuple(x for x in ovs if x[0] != n) + ((n, v),))
            path.events.append(("store", bi, "%s.%s" % (self.body.local_name(lhs["l"]), n), v))
            return
        # the place itself (not its current value): inputs and remembered stores do not apply along the way, except that
        # a reference held in a local is followed to what it points to
        e = root
        if 1 <= lhs["l"] <= self.body.arg_count and lhs["l"] not in st["loc"]:
            e = ("arg", self.body.local_name(lhs["l"]))
        for el in lhs["p"]:
            e = self.project(st, e, el, as_place=True)
        t = expr_str(e)
        st["mem"][t] = v
        # forget remembered sub-places of the overwritten place
        for k in [k for k in st["mem"] if k != t and k.startswith(t + ".")]:
            del st["mem"][k]
        path.events.append(("store", bi, t, v))
        if v[0] == "upd":
            # a copy with some fields changed is written back: those fields of the place now hold the changed values
            st["mem"][t] = v[1]
            for n, ov in v[2]:
                st["mem"]["%s.%s" % (t, n)] = ov
                path.events.append(("store", bi, "%s.%s" % (t, n), ov))

    def _update(self, agg, proj, v):
        el = proj[0]
        if isinstance(el, dict) and "n" in el:
            names = agg[4] if len(agg) > 4 and agg[4] else tuple(str(i) for i in range(len(agg[3])))
            if el["n"] in names:
                i = names.index(el["n"])
            elif el["n"].isdigit() and int(el["n"]) < len(agg[3]):
                i = int(el["n"])
            else:
                return agg
            ops = list(agg[3])
            if len(proj) == 1:
                ops[i] = v
            elif ops[i][0] == "agg":
                ops[i] = self._update(ops[i], proj[1:], v)
            else:
                return agg
            return agg[:3] + (tuple(ops),) + agg[4:]
        if isinstance(el, dict) and "d" in el and len(proj) > 1:
            return self._update(agg, proj[1:], v)
        return agg


def cond_truth(cond):
    """(tested expression with Not wrappers stripped, its truth value or None) for a recorded path condition on a bool."""
    text, v, _bi, d = cond
    neg = False
    while isinstance(d, tuple) and d[0] == "un" and d[1] == "Not":
        d = d[2]
        neg = not neg
    if v == 0:
        t = False
    elif isinstance(v, int):
        t = True
    elif isinstance(v, tuple) and v[0] == "not" and set(v[1]) == {0}:
        t = True
    elif isinstance(v, tuple) and v[0] == "not" and set(v[1]) == {1}:
        t = False
    else:
        t = None
    if t is not None and neg:
        t = not t
    return d, t


def run(ix, body, inputs=None):
    c = Cases(ix, body, inputs)
    c.run()
    return c
