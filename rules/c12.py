"""C12  With caching on, short forced mates are found and avoidable ones avoided  (DESIGN 3, C12).

Finding / avoiding mates is value-level and not decided.  Decided: the bound discipline of the cache the
mechanism relies on (probe and store sites), over the MIR of alpha_beta / alpha_beta_start."""
from . import engine, mir
from . import common as C
from . import c13
from .mir import expr_str, walk, callee_is, const_int, op_place, strip_generics, fields_of

PROP = "C12"


def entry_reads(b, sym):
    """Blocks that read .score / .bound / .best_ply / .depth of a cache entry obtained from HashMap::get on the table."""
    out = []
    for bi, i, s in b.stmts():
        for o in mir.rv_operands(s["rv"]) + ([{"copy": s["rv"]["p"]}] if s["rv"].get("k") == "discr" else []):
            p = op_place(o)
            if p is None:
                continue
            fp = fields_of(p)
            if fp and fp[-1] in ("score", "bound", "best_ply", "depth") and "TTEntry" in b.locals[p["l"]]["ty"]:
                e = sym.place(p)
                if any(isinstance(x, tuple) and x[0] == "static" and x[1] == C.TT_STATIC for x in walk(e)):
                    out.append((bi, fp[-1], s))
    return out


def rule_probe(ctx):
    ix = ctx.ix
    b = ctx.body(C.ALPHA_BETA)
    sym = ctx.sym(b)
    reads = entry_reads(b, sym)
    ctx.floor("cache-entry field reads in alpha_beta", len(reads), 5)
    # the depth test
    tests = []
    for blk in b.blocks:
        if blk.term["k"] != "switch" or blk.cleanup:
            continue
        sc = C.switch_cond(b, sym, blk.idx)
        if not sc:
            continue
        e, neg = sc
        if e[0] == "bin" and e[1] in ("Ge", "Gt", "Le", "Lt", "Eq", "Ne"):
            l, r = e[2], e[3]
            le = l[0] == "field" and l[-1] == "depth" and "static" in str(l)
            re_ = r[0] == "field" and r[-1] == "depth" and "static" in str(r)
            if le or re_:
                other = r if le else l
                tests.append((blk.idx, e[1], le, other, neg))
    ctx.check(len(tests) == 1, "%s:one-depth-test" % C.ALPHA_BETA, "alpha_beta compares the entry's depth with the remaining depth at one place", b.where(tests[0][0] if tests else 0),
              bad_what="found %d comparisons of the cached depth (expected exactly one guarding every use of the entry)" % len(tests))
    if len(tests) != 1:
        return
    tb, op, entry_left, other, neg = tests[0]
    ctx.check(other == ("arg", "depth"), "%s:depth-test-against-remaining-depth" % C.ALPHA_BETA, "the cached depth is compared with the node's remaining depth", b.where(tb),
              bad_what="the cached depth is compared with `%s`" % expr_str(other))
    # which edge means "entry.depth >= depth (or >)" ?
    f, tr = C.switch_edges(b.blocks[tb].term)
    if not entry_left:
        op = {"Ge": "Le", "Gt": "Lt", "Le": "Ge", "Lt": "Gt"}.get(op, op)
    sufficient_on_true = op in ("Ge", "Gt")
    if op not in ("Ge", "Gt", "Lt", "Le"):
        ctx.bad("%s:depth-test-operator" % C.ALPHA_BETA, "the depth test uses `%s`, which does not imply entry.depth >= depth" % op, b.where(tb))
        return
    accept = tr if sufficient_on_true != neg else f
    reject = f if sufficient_on_true != neg else tr
    accept_reach = set()
    for x in accept:
        accept_reach |= b.reachable_from(x, removed={tb}, include_start=True)
    reject_reach = set()
    for x in reject:
        reject_reach |= b.reachable_from(x, removed={tb}, include_start=True)
    # every use of score/bound must be reachable only via the accept edge (i.e. not from the reject edge, and dominated by the test)
    uses = [(bi, fld) for bi, fld, s in reads if fld in ("score", "bound")]
    bad = [(bi, fld) for bi, fld in uses if not b.dominates(tb, bi) or bi in reject_reach_before_merge(b, reject, tb, accept)]
    ctx.check(not bad and uses, "%s:entry-used-only-if-deep-enough" % C.ALPHA_BETA,
              "every use of the cached score / bound (%d sites) is on the edge where entry.depth %s depth" % (len(uses), ">=" if op in ("Ge", "Le") else ">"), b.where(tb),
              bad_what="the cached score/bound is used on a path where the entry may be shallower than the remaining depth (lines %s): a shallow result replaces a deeper search, which loses forced mates" % [b.blocks[x].term["line"] for x, _ in bad])
    # bound table
    rows = {}
    for bi, i, s in b.stmts():
        lhs = s["lhs"]
        v = sym.rvalue(s["rv"])
        cons = C.constraints_for(ix, b, sym, bi)
        bound = [set(c[1]) for c in cons if c[0].startswith("discr(") and c[0].endswith(".bound)")]
        if not bound or len(bound[-1]) != 1:
            continue
        bd = next(iter(bound[-1]))
        if mir.is_local(lhs) and lhs["l"] == 0:
            rows.setdefault(bd, []).append(("return", expr_field(v)))
        elif mir.is_local(lhs) and b.local_name(lhs["l"]) in ("alpha", "beta"):
            rows.setdefault(bd, []).append((b.local_name(lhs["l"]), call_shape(v)))
    want = {"Exact": [("return", "entry.score")], "Lower": [("alpha", "max(alpha, entry.score)")], "Upper": [("beta", "min(beta, entry.score)")]}
    for bd in ("Exact", "Lower", "Upper"):
        got = rows.get(bd, [])
        ctx.check(got == want[bd], "%s:probe:%s" % (C.ALPHA_BETA, bd), "%s entry: %s" % (bd, got), b.where(tb),
                  bad_what="a cached %s bound is used as %s; sound use is %s (a lower bound may only raise alpha, an upper bound only lower beta, an exact score may be returned)" % (bd, got, want[bd]))
    # after narrowing: alpha >= beta -> return entry.score
    cut = None
    for bi, i, s in b.stmts():
        if mir.is_local(s["lhs"]) and s["lhs"]["l"] == 0 and expr_field(sym.rvalue(s["rv"])) == "entry.score":
            cons = C.constraints_for(ix, b, sym, bi)
            if any(c[3][0] == "bin" and c[3][1] in ("Ge", "Gt") and c[3][2] == ("var", "alpha") and c[3][3] == ("var", "beta") and True in c[1] for c in cons):
                cut = bi
    ctx.check(cut is not None, "%s:probe:window-closed" % C.ALPHA_BETA, "after narrowing, alpha >= beta returns the cached score", b.where(cut or tb),
              bad_what="no `alpha >= beta -> return entry.score` after the bounds were applied")


def reject_reach_before_merge(b, reject, tb, accept):
    """Blocks reachable from the reject edge but not via ... : uses located in blocks that the reject edge reaches
    *without* the accept edge also being required, i.e. blocks reachable from reject that are not dominated by an accept target."""
    out = set()
    for x in reject:
        for y in b.reachable_from(x, removed={tb}, include_start=True):
            if y >= 0 and not any(b.dominates(a, y) for a in accept):
                out.add(y)
    return out


def expr_field(v):
    if isinstance(v, tuple) and v[0] == "field" and "static" in str(v):
        return "entry." + v[-1]
    return expr_str(v)


def call_shape(v):
    if isinstance(v, tuple) and v[0] == "call" and v[1] in ("std::cmp::Ord::max", "std::cmp::Ord::min") and len(v[2]) == 2:
        return "%s(%s, %s)" % (v[1].split("::")[-1], expr_field(v[2][0]), expr_field(v[2][1]))
    return expr_str(v)[:80]


def is_loop_move(e):
    """The loop variable of `for mv in MoveOrderer::new(..)`: payload of MoveOrderer::next()."""
    return (isinstance(e, tuple) and e[0] == "field" and e[-1] == "0" and isinstance(e[1], tuple) and e[1][0] == "as" and e[1][2] == "Some"
            and isinstance(e[1][1], tuple) and e[1][1][0] == "call" and "MoveOrderer as std::iter::Iterator>::next" in e[1][1][1])


def entry_agg(ix, b, sym, w):
    """Fields of the TTEntry literal stored by a cache write: {field: expr}; the bound may be a two-armed temp."""
    t = w["term"]
    e = sym.operand(t["args"][2])
    if not (e[0] == "agg" and e[1].endswith("TTEntry")):
        return None
    names = list(e[4])
    return dict(zip(names, e[3]))


def bound_arms(ix, b, sym, e):
    """For a bound operand: {variant: constraints} -- either a constant aggregate or a two-armed temporary."""
    if e[0] == "agg" and e[1].endswith("Bounds"):
        return {e[2]: None}
    out = {}
    if e[0] == "var":
        for l in range(len(b.locals)):
            if b.local_name(l) == e[1]:
                for (db, di, rv) in b.defs().get(l, []):
                    if rv.get("k") == "agg" and rv.get("adt", "").endswith("Bounds"):
                        out[rv["variant"]] = C.constraints_for(ix, b, sym, db)
    return out


def rule_store(ctx):
    ix = ctx.ix
    n = 0
    for key in (C.ALPHA_BETA, C.ALPHA_BETA_START):
        b = ctx.body(key)
        sym = ctx.sym(b)
        for w in C.tt_stores(ix, b):
            n += 1
            f = entry_agg(ix, b, sym, w)
            wb = w["block"]
            if f is None:
                ctx.bad("%s:store:unreadable" % key, "a cache write does not store a TTEntry literal (cannot decide)", b.where(wb))
                continue
            keyexpr = mir.strip_copies(sym.operand(w["term"]["args"][1]))
            ctx.check(keyexpr[0] == "field" and keyexpr[-2:] == ("board", "zkey"), "%s:store:key" % key + ":%d" % n, "the entry is stored under the searched board's key", b.where(wb),
                      bad_what="the entry is stored under `%s`" % expr_str(keyexpr))
            arms = bound_arms(ix, b, sym, f["bound"])
            cons = C.constraints_for(ix, b, sym, wb)
            in_cut = [c for c in cons if c[3][0] == "bin" and c[3][1] in ("Ge", "Gt") and c[3][2] == ("var", "score") and c[3][3] == ("var", "beta") and True in c[1]]
            label = "|".join(sorted(arms))
            if in_cut:
                ok = set(arms) == {"Lower"} and f["score"] == ("var", "score") and is_loop_move(f["best_ply"]) and f["depth"] == ("arg", "depth")
                ctx.check(ok, "%s:store:cutoff" % key, "beta cut-off stores (score, depth, Lower, cutting move)", b.where(wb),
                          bad_what="the cut-off store writes bound=%s score=%s move=%s depth=%s; a fail-high is only a lower bound on the node's value and must carry the cutting score and move"
                          % (label, expr_str(f["score"]), expr_str(f["best_ply"]), expr_str(f["depth"])))
            elif key == C.ALPHA_BETA:
                ok = set(arms) == {"Upper", "Exact"} and f["score"] == ("var", "alpha") and f["best_ply"] == ("var", "best_ply") and f["depth"] == ("arg", "depth")
                # Upper iff alpha <= alpha_start (or ==)
                if ok:
                    up = arms["Upper"] or []
                    # (`alpha < alpha_start` never holds - alpha only grows - and would make every such entry Exact)
                    ok = any(c[3][0] == "bin" and c[3][1] in ("Le", "Eq") and c[3][2] == ("var", "alpha") and c[3][3] == ("arg", "alpha_start") and True in c[1] for c in up) or \
                        any(c[3][0] == "bin" and c[3][1] in ("Gt",) and c[3][2] == ("var", "alpha") and c[3][3] == ("arg", "alpha_start") and False in c[1] for c in up)
                ctx.check(ok, "%s:store:final" % key, "the final store writes alpha with Upper iff alpha was not raised above alpha_start, else Exact", b.where(wb),
                          bad_what="the final store writes bound=%s score=%s move=%s depth=%s; expected Upper iff alpha <= alpha_start else Exact, with score alpha"
                          % (label, expr_str(f["score"]), expr_str(f["best_ply"]), expr_str(f["depth"])))
            else:
                ok = set(arms) == {"Exact"} and f["score"] == ("var", "alpha") and f["best_ply"] == ("var", "best_ply") and f["depth"] == ("arg", "depth")
                ctx.check(ok, "%s:store:root" % key, "the root stores (alpha, depth, Exact, best move) (full window: the value is exact)", b.where(wb),
                          bad_what="the root store writes bound=%s score=%s move=%s depth=%s" % (label, expr_str(f["score"]), expr_str(f["best_ply"]), expr_str(f["depth"])))
    ctx.floor("cache stores", n, 3)
    # mate / stalemate scoring in the no-legal-move branch
    b = ctx.body(C.ALPHA_BETA)
    sym = ctx.sym(b)
    mate, stale = None, None
    for bi, i, s in b.stmts():
        if not (mir.is_local(s["lhs"]) and s["lhs"]["l"] == 0):
            continue
        cons = C.constraints_for(ix, b, sym, bi)
        no_moves = any(c[3][0] == "bin" and c[3][1] == "Eq" and c[3][2] == ("var", "total_legal_moves") and c[3][3][0] == "const" and c[3][3][1] == 0 and True in c[1] for c in cons)
        if not no_moves:
            continue
        chk = [c for c in cons if c[3][0] == "call" and c[3][1] == "board::Board::is_in_check"]
        v = sym.rvalue(s["rv"])
        if chk and True in chk[-1][1]:
            mate = (bi, v, chk[-1][3])
        elif chk and False in chk[-1][1]:
            stale = (bi, v)
    ok = mate is not None and "-32768" in expr_str(mate[1]) and "info.depth" in expr_str(mate[1]).replace("*self.", "") and "current_turn" in expr_str(mate[2])
    ctx.check(ok, "%s:mate-score" % C.ALPHA_BETA, "no legal move and in check: Score::MIN + ply distance (shorter mates score worse for the mated side)", b.where(mate[0] if mate else 0),
              bad_what="the checkmate branch returns `%s`" % (expr_str(mate[1]) if mate else None))
    ctx.check(stale is not None and stale[1] == ("const", 0, "i16"), "%s:stalemate-score" % C.ALPHA_BETA, "no legal move and not in check: 0", b.where(stale[0] if stale else 0),
              bad_what="the stalemate branch returns `%s`" % (expr_str(stale[1]) if stale else None))


def rule_writers(ctx):
    c13.rule_writers(ctx)


RULES = [("probe", rule_probe), ("store", rule_store), ("writers", rule_writers)]
# mate / check recognition rests on the legality filter and the check test
RULES += engine.movegen_premises(["check-mirror"])
# a forced mate is found only if the search is the full-width search the property describes: no pruning beyond
# alpha-beta / null-window re-search, the terminal scores, and a completed root search recording its result (C11 rules)
RULES += engine.premise_rules("c11", ["exits", "root-result", "windows", "cut", "terminal", "ply-counter", "permutation", "legal-children", "move-counter"])
# ... and the move found is announced only if the PV walk that runs before the announcement does not trip its own assertion
# keys stand for positions only as far as comparing two keys compares the whole word (C05.key-identity)
RULES += engine.premise_rules("c05", ["key-identity"])
# what a cut child hands back is a dummy: it becomes neither a cache entry nor alpha / the best move (C13)
RULES += engine.premise_rules("c13", ["guard", "child-score"])
RULES += engine.premise_rules("c14", ["pv-legal"])

# the mate positions reach the search as FEN strings: the position searched is the one the FEN describes (C07)
RULES += engine.premise_rules("c07", ["letters", "fields", "castle-letters", "side-ep", "history", "build"])

def run(tier):
    return engine.main(
        PROP, "cache bound discipline behind short mates", RULES, "other",
        explanation=("Finding mates in <=2 and avoiding mate-in-1 for all tactical positions is a statement about search values and is NOT decided by any static argument in reach. Decided instead is the "
                     "necessary bound discipline of the cache, whose violation is what breaks those mates with caching on: an entry is used only on the edge where entry.depth >= (or >) the remaining depth; "
                     "Exact is returned, Lower only raises alpha, Upper only lowers beta, then alpha >= beta returns; the cut-off store is (cutting score, depth, Lower, cutting move), the final store is "
                     "alpha with Upper iff alpha was not raised else Exact, the root store is Exact; entries are keyed by the searched board's key; mate is scored Score::MIN + ply and stalemate 0; "
                     "only the three search sites write the cache (bench clears it)."),
        assumptions=["the remaining-depth parameter is what the statement calls depth", "C13 (no aborted values are stored) and C04/C05 (keys identify positions)"],
        tier=tier)
