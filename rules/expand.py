"""Combinators with a new closure are the branch they abbreviate (DESIGN 6.7).

`cond.then(|| X)`, `opt.map(|v| X)`, `opt.is_some_and(|v| P)`, `opt.map_or_else(D, |v| X)`, `res.map_err(|e| X)` ... are how
a maintainer folds an `if` / `match` into one expression.  The rules read the control-flow graph, where the closure's body
would be somewhere else and its result an opaque call.  This pass rewrites such a call, on the facts, into the branch it
stands for, with the closure's body in place:

    _d = Option::map(move _o, move _c)      =>      switch discriminant(_o) { None => _d = None,
                                                                              Some => { x = (_o as Some).0; r = BODY_c(x); _d = Some(r) } }

Only calls whose closure is *new* are rewritten: closures of the reference tree are listed (by content, per enclosing
function) in `known_closures.json`, and the rules that know them keep seeing them as they were written.  `then_some`, which
has no closure, is rewritten wherever the reference tree had no such call in that function.
"""
import copy
import hashlib
import json
import os

from .inline import _splice, _live
from .mir import strip_generics

HERE = os.path.dirname(os.path.abspath(__file__))
KNOWN = os.path.join(HERE, "known_closures.json")

OPTION = "std::option::Option"
RESULT = "std::result::Result"

# callee suffix -> (receiver kind, per-variant plan)
#   plan items: ("none",) ("some", src) ("ok", src) ("err", src) ("raw", src) ("bool", 0|1) ("filter",)
#   src: ("call", closure_arg_index, passes) | ("payload",) | ("arg", index) | ("callfn", arg_index)
#   passes: "payload" (by value) | "ref" (by shared reference) | "none"
SPECS = {
    "core::bool::<impl bool>::then": ("bool", {1: ("some", ("call", 1, "none")), 0: ("none",)}),
    "core::bool::<impl bool>::then_some": ("bool", {1: ("some", ("arg", 1)), 0: ("none",)}),
    OPTION + "::map": ("option", {"Some": ("some", ("call", 1, "payload")), "None": ("none",)}),
    OPTION + "::and_then": ("option", {"Some": ("raw", ("call", 1, "payload")), "None": ("none",)}),
    OPTION + "::is_some_and": ("option", {"Some": ("raw", ("call", 1, "payload")), "None": ("bool", 0)}),
    OPTION + "::is_none_or": ("option", {"Some": ("raw", ("call", 1, "payload")), "None": ("bool", 1)}),
    OPTION + "::map_or": ("option", {"Some": ("raw", ("call", 2, "payload")), "None": ("raw", ("arg", 1))}),
    OPTION + "::map_or_else": ("option", {"Some": ("raw", ("call", 2, "payload")), "None": ("raw", ("call", 1, "none"))}),
    OPTION + "::unwrap_or_else": ("option", {"Some": ("raw", ("payload",)), "None": ("raw", ("call", 1, "none"))}),
    OPTION + "::or_else": ("option", {"Some": ("some", ("payload",)), "None": ("raw", ("call", 1, "none"))}),
    OPTION + "::ok_or_else": ("option", {"Some": ("ok", ("payload",)), "None": ("err", ("call", 1, "none"))}),
    OPTION + "::filter": ("option", {"Some": ("filter", ("call", 1, "ref")), "None": ("none",)}),
    RESULT + "::map": ("result", {"Ok": ("ok", ("call", 1, "payload")), "Err": ("err", ("payload",))}),
    RESULT + "::map_err": ("result", {"Ok": ("ok", ("payload",)), "Err": ("err", ("call", 1, "payload"))}),
    RESULT + "::and_then": ("result", {"Ok": ("raw", ("call", 1, "payload")), "Err": ("err", ("payload",))}),
    RESULT + "::unwrap_or_else": ("result", {"Ok": ("raw", ("payload",)), "Err": ("raw", ("call", 1, "payload"))}),
    RESULT + "::is_ok_and": ("result", {"Ok": ("raw", ("call", 1, "payload")), "Err": ("bool", 0)}),
    RESULT + "::is_err_and": ("result", {"Ok": ("bool", 0), "Err": ("raw", ("call", 1, "payload"))}),
    # `r?` on a Result that an expansion above turned into arms: Ok(v) continues with v, Err(e) breaks out with Err(e)
    "<" + RESULT + "<T, E> as std::ops::Try>::branch": ("result", {"Ok": ("cf_continue", ("payload",)), "Err": ("cf_break", ("payload",))}),
}
# variant predicates on a value the arms of an earlier expansion (or of a helper that was put in place) built: `is_break()` on
# the ControlFlow a `handle_line` helper returns, `is_ok()` on an Ok(..) / Err(..) chosen in arms.  They take `&self`.
PREDICATES = {"std::ops::ControlFlow::is_break": ("cf", "Break"), "std::ops::ControlFlow::is_continue": ("cf", "Continue"),
              OPTION + "::is_some": ("option", "Some"), OPTION + "::is_none": ("option", "None"),
              RESULT + "::is_ok": ("result", "Ok"), RESULT + "::is_err": ("result", "Err")}
SPECS["<" + OPTION + "<T> as std::ops::Try>::branch"] = ("option", {"Some": ("cf_continue", ("payload",)), "None": ("cf_break_none",)})
CONTROL_FLOW = "std::ops::ControlFlow"


def content_hash(body):
    """A closure's identity that survives renumbering and renaming of locals: its operations, the fields and variants it
    goes through, its callees and its constants, in order."""
    parts = []

    def place(p):
        out = []
        for e in p.get("p", []):
            if e == "*":
                out.append("*")
            elif isinstance(e, dict):
                out.append(str(e.get("n", e.get("d", "[]"))))
        return ".".join(out)

    def operand(o):
        if not isinstance(o, dict):
            return ""
        c = o.get("const")
        if c:
            return "c:" + str(c.get("int", c.get("str", c.get("item", c.get("fn", c.get("disp", ""))))))
        q = o.get("move") or o.get("copy")
        return "p:" + place(q) if q else ""

    for blk in body["blocks"]:
        if blk["cleanup"]:
            continue
        for s in blk["stmts"]:
            if "lhs" in s:
                rv = s["rv"]
                parts.append(place(s["lhs"]) + "=" + rv.get("k", "") + ":" + str(rv.get("op", rv.get("variant", ""))))
                for k in ("a", "b"):
                    if isinstance(rv.get(k), dict):
                        parts.append(operand(rv[k]))
                for o in rv.get("ops", []):
                    parts.append(operand(o))
                if isinstance(rv.get("p"), dict):
                    parts.append("p:" + place(rv["p"]))
        t = blk["term"]
        if t["k"] in ("assert", "drop"):
            continue    # overflow and pointer checks differ between build configurations
        parts.append(t["k"] + ":" + strip_generics(t.get("callee") or ""))
        for a in t.get("args", []):
            parts.append(operand(a))
    return hashlib.sha256("|".join(parts).encode()).hexdigest()[:16]


def reference_tables(facts):
    """What to freeze from the reference tree: closure hashes per parent, and closure-less combinator counts per function."""
    closures = {}
    plain = {}
    for j in facts["bodies"]:
        if j["kind"] == "closure":
            closures.setdefault(j.get("parent") or "", []).append(content_hash(j))
        if j["kind"] in ("fn", "closure"):
            for blk in j["blocks"]:
                t = blk["term"]
                c = strip_generics(t.get("callee") or "")
                if c.endswith("::then_some") or (c in SPECS and any("const" in a and "fn" in a["const"] for a in t.get("args", []))):
                    # closure-less combinators: `then_some`, and combinators handed a function by name (`is_some_and(Handle::is_busy)`)
                    plain.setdefault(j["key"], {}).setdefault(c, 0)
                    plain[j["key"]][c] += 1
    return {"closures": {k: sorted(v) for k, v in closures.items()}, "plain": plain}


def _known():
    try:
        with open(KNOWN) as f:
            return json.load(f)
    except OSError:
        return {"closures": {}, "plain": {}}


def _new_local(body, ty="?"):
    body["locals"].append({"ty": ty, "mut": True})
    return len(body["locals"]) - 1


def _pl(l, proj=None, ty="?"):
    return {"l": l, "p": list(proj or []), "ty": ty}


_VIDX = {"None": 0, "Some": 1, "Ok": 0, "Err": 1, "Continue": 0, "Break": 1}


def _agg(adt, variant, ops):
    return {"k": "agg", "agg": "adt", "adt": adt, "variant": variant, "vidx": _VIDX.get(variant, 0), "fields": ["0"] if ops else [], "ops": ops}


def _closure_of(body, defs, op, bodies):
    """(closure body, env operand) for an argument that is a closure aggregate built in this body, or a fn item."""
    if "const" in op and "fn" in op["const"]:
        return ("fn", op["const"]["fn"]), None
    p = op.get("move") or op.get("copy")
    if p is None or p["p"]:
        return None, None
    ds = defs.get(p["l"], [])
    if len(ds) != 1:
        return None, None
    rv = ds[0]
    if rv.get("k") == "agg" and rv.get("agg") == "closure" and rv.get("closure") in bodies:
        return ("closure", rv["closure"], rv["ops"]), op
    return None, None


def _defs(body, live):
    d = {}
    for b in live:
        blk = body["blocks"][b]
        if blk["cleanup"]:
            continue
        for s in blk["stmts"]:
            if "lhs" in s and not s["lhs"]["p"]:
                d.setdefault(s["lhs"]["l"], []).append(s["rv"])
        t = blk["term"]
        if t["k"] == "call" and not t["dest"]["p"]:
            d.setdefault(t["dest"]["l"], []).append({"k": "call"})
    return d


def _direct_closure_calls(body, bodies, known, log):
    """`let occupies = |b| ..; if occupies(x) ..`: a call of a local closure of this function is the closure's body."""
    done = 0
    for _attempt in range(60):
        live = _live(body)
        defs = _defs(body, live)
        hit = None
        for bi in sorted(live):
            blk = body["blocks"][bi]
            t = blk["term"]
            if blk["cleanup"] or t["k"] != "call" or t.get("target") is None or len(t.get("args", [])) != 2:
                continue
            if t.get("decl") not in ("std::ops::Fn::call", "std::ops::FnMut::call_mut", "std::ops::FnOnce::call_once"):
                continue
            key = t.get("callee")
            cb = bodies.get(key)
            if cb is None or cb["kind"] != "closure" or key == body["key"]:
                continue
            owner = body["key"] if body["kind"] == "fn" else (body.get("parent") or body["key"])
            if content_hash(cb) in known["closures"].get(cb.get("parent") or owner, []):
                continue
            # the closure value: through `&clo` / moves to the aggregate that built it
            q = t["args"][0].get("move") or t["args"][0].get("copy")
            captured = None
            for _ in range(4):
                if q is None or q["p"]:
                    break
                ds = defs.get(q["l"], [])
                if len(ds) != 1:
                    break
                rv = ds[0]
                if rv.get("k") == "agg" and rv.get("agg") == "closure" and rv.get("closure") == key:
                    captured = rv["ops"]
                    break
                if rv.get("k") == "ref":
                    q = rv["p"]
                elif rv.get("k") == "use":
                    q = rv["a"].get("move") or rv["a"].get("copy")
                else:
                    break
            tp = t["args"][1].get("move") or t["args"][1].get("copy")
            if captured is None or tp is None or tp["p"]:
                continue
            tds = defs.get(tp["l"], [])
            if len(tds) != 1 or tds[0].get("k") != "agg" or tds[0].get("agg") != "tuple":
                continue
            if cb.get("arg_count") != 1 + len(tds[0]["ops"]):
                continue
            hit = (bi, key, captured, tds[0]["ops"])
            break
        if hit is None:
            break
        bi, key, captured, ops = hit
        t = body["blocks"][bi]["term"]
        cb = bodies[key]
        env_ty = cb["locals"][1]["ty"] if len(cb["locals"]) > 1 else ""
        env = t["args"][0]
        if not env_ty.startswith("&"):
            # called by value (FnOnce): hand the closure itself over
            q = env.get("move") or env.get("copy")
            env = {"move": dict(q, p=list(q["p"]) + ["*"])} if body["locals"][q["l"]]["ty"].startswith("&") else env
        t["args"] = [env] + list(ops)
        base_l = len(body["locals"])
        base_b = len(body["blocks"])
        _splice(body, bi, cb, "%s@%s" % (key, t.get("line")))
        _bind_captures(body, base_l + 1, base_b, captured)
        log.append({"function": body["key"], "combinator": "call of a local closure", "closure": None})
        done += 1
    return done


def _option_residuals(body):
    """In code that was put in place: `None?` ends in `Option::from_residual(None)`, which is `None`."""
    n = 0
    for blk in body["blocks"]:
        t = blk["term"]
        if blk["cleanup"] or not blk.get("spliced") or t["k"] != "call" or t.get("target") is None:
            continue
        if strip_generics(t.get("callee") or "").startswith("<" + OPTION + "<T> as std::ops::FromResidual<" + OPTION):
            blk["stmts"].append({"lhs": t["dest"], "rv": _agg(OPTION, "None", []), "line": t.get("line"), "exp": False})
            blk["term"] = {"k": "goto", "target": t["target"], "line": t.get("line"), "exp": False}
            n += 1
    return n


def _predicates_on_built_values(body, log):
    """`v.is_break()` where v was built as Break(..) / Continue(..) in arms: a switch on v's discriminant yielding the constant."""
    n = 0
    for _attempt in range(20):
        live = _live(body)
        defs = _defs(body, live)
        hit = None
        for bi in sorted(live):
            blk = body["blocks"][bi]
            t = blk["term"]
            if blk["cleanup"] or t["k"] != "call" or t.get("target") is None or len(t.get("args", [])) != 1:
                continue
            spec = PREDICATES.get(strip_generics(t.get("callee") or ""))
            if spec is None:
                continue
            q = t["args"][0].get("move") or t["args"][0].get("copy")
            for _ in range(3):
                if q is None or q["p"]:
                    break
                ds = defs.get(q["l"], [])
                if len(ds) == 1 and ds[0].get("k") == "ref" and not ds[0]["p"]["p"]:
                    q = ds[0]["p"]
                    break
                if len(ds) == 1 and ds[0].get("k") == "use":
                    q = ds[0]["a"].get("move") or ds[0]["a"].get("copy")
                    continue
                q = None
            if q is None or q["p"]:
                continue
            adt = {"cf": CONTROL_FLOW, "option": OPTION, "result": RESULT}[spec[0]]
            ds = defs.get(q["l"], [])
            if len(ds) < 2 or not all(d.get("k") == "agg" and d.get("agg") == "adt" and d.get("adt") == adt for d in ds):
                continue
            hit = (bi, q["l"], adt, spec[1])
            break
        if hit is None:
            break
        bi, vl, adt, want = hit
        blocks = body["blocks"]
        blk = blocks[bi]
        t = blk["term"]
        line = t.get("line")
        variants = _STD_VARIANTS[adt]
        arms = []
        for name, idx in sorted(variants.items(), key=lambda kv: kv[1]):
            nb = len(blocks)
            v = int(name == want)
            blocks.append({"stmts": [{"lhs": t["dest"], "rv": {"k": "use", "a": {"const": {"ty": "bool", "disp": str(bool(v)).lower(), "bits": str(v), "size": 1, "int": v}}}, "line": line, "exp": False}],
                           "term": {"k": "goto", "target": t["target"], "line": line, "exp": False}, "cleanup": False, "spliced": blk.get("spliced")})
            arms.append([idx, nb])
        un = len(blocks)
        blocks.append({"stmts": [], "term": {"k": "unreachable", "line": line, "exp": False}, "cleanup": False})
        d = _new_local(body, "isize")
        blk["stmts"].append({"lhs": _pl(d, ty="isize"), "rv": {"k": "discr", "p": _pl(vl, ty=adt + "<?>")}, "line": line, "exp": False})
        blk["term"] = {"k": "switch", "discr": {"move": _pl(d, ty="isize")}, "discr_ty": "isize", "arms": arms, "otherwise": un, "line": line, "exp": False, "expanded_from": strip_generics(t.get("callee") or "")}
        log.append({"function": body["key"], "combinator": strip_generics(t.get("callee") or "").split("::")[-1] + " on a value built in arms", "closure": None})
        n += 1
    return n


def _result_residuals(body):
    """In code that was put in place: `Err(e)?` ends in `Result::from_residual(Err(e))`, which is an `Err` (of the converted
    error): the helper's `?` leaves through its Err exit."""
    n = 0
    for blk in body["blocks"]:
        t = blk["term"]
        if blk["cleanup"] or not blk.get("spliced") or t["k"] != "call" or t.get("target") is None or len(t.get("args", [])) != 1:
            continue
        if strip_generics(t.get("callee") or "").startswith("<" + RESULT + "<T, F> as std::ops::FromResidual<" + RESULT):
            q = t["args"][0].get("move") or t["args"][0].get("copy")
            if q is None:
                continue
            e = _new_local(body)
            blk["stmts"].append({"lhs": _pl(e), "rv": {"k": "use", "a": {"move": dict(q, p=list(q["p"]) + [{"d": "Err", "v": 1}, {"f": 0, "n": "0", "ty": "?"}])}}, "line": t.get("line"), "exp": False})
            blk["stmts"].append({"lhs": t["dest"], "rv": _agg(RESULT, "Err", [{"move": _pl(e)}]), "line": t.get("line"), "exp": False})
            blk["term"] = {"k": "goto", "target": t["target"], "line": t.get("line"), "exp": False, "was": "from_residual"}
            n += 1
    return n


def expand_body(body, bodies, known, log):
    n_done = _direct_closure_calls(body, bodies, known, log)
    _option_residuals(body)
    if _result_residuals(body):
        log.append({"function": body["key"], "combinator": "? inside a helper put in place", "closure": None})
    _predicates_on_built_values(body, log)
    for _attempt in range(40):
        live = _live(body)
        defs = _defs(body, live)
        site = None
        for bi in sorted(live):
            blk = body["blocks"][bi]
            t = blk["term"]
            if blk["cleanup"] or t["k"] != "call" or t.get("target") is None:
                continue
            c = strip_generics(t.get("callee") or "")
            spec = SPECS.get(c)
            if spec is None:
                continue
            kind, plans = spec
            recv = t["args"][0]
            rp = recv.get("move") or recv.get("copy")
            if rp is None or rp["p"]:
                continue
            # which closures / functions the plans call
            fns = {}
            ok = True
            is_new = False
            for plan in plans.values():
                src = plan[1] if len(plan) > 1 and isinstance(plan[1], tuple) else None
                if src and src[0] == "call":
                    ai = src[1]
                    if ai >= len(t["args"]):
                        ok = False
                        break
                    f, env = _closure_of(body, defs, t["args"][ai], bodies)
                    if f is None:
                        ok = False
                        break
                    fns[ai] = (f, env)
                    if f[0] == "closure":
                        cb = bodies[f[1]]
                        owner = body["key"] if body["kind"] == "fn" else (body.get("parent") or body["key"])
                        hashes = known["closures"].get(cb.get("parent") or owner, [])
                        if content_hash(cb) not in hashes:
                            is_new = True
            if not ok:
                continue
            if not any(f[0] == "closure" for f, _e in fns.values()):
                # no closure involved: new iff the reference tree had fewer such calls in this function
                ref_n = known["plain"].get(body["key"], {}).get(c, 0)
                now_n = sum(1 for b2 in live if strip_generics(body["blocks"][b2]["term"].get("callee") or "") == c)
                by_name = bool(fns) and all(f[0] == "fn" for f, _e in fns.values())
                if by_name:
                    now_n = sum(1 for b2 in live if strip_generics(body["blocks"][b2]["term"].get("callee") or "") == c
                                and any("const" in a and "fn" in a["const"] for a in body["blocks"][b2]["term"].get("args", [])))
                is_new = now_n > ref_n and (c.endswith("then_some") or by_name)
                if c.endswith("Try>::branch"):
                    # only where the operand was built by the arms of an earlier expansion (`x.map_err(f)?`)
                    ds = defs.get(rp["l"], [])
                    is_new = len(ds) >= 2 and all(d.get("k") == "agg" and d.get("agg") == "adt" and d.get("adt") in (RESULT, OPTION) for d in ds)
            if blk.get("spliced") and not is_new and not any(f[0] == "closure" for f, _e in fns.values()):
                # inside code that is itself new here (the body of a new closure or helper that was put in place): a
                # closure-less combinator (`?`, then_some) in it is new; one with a closure is judged by its closure as usual
                is_new = True
            if not is_new:
                continue
            site = (bi, c, kind, plans, fns)
            break
        if site is None:
            break
        _rewrite(body, bodies, *site)
        for f, _e in site[4].values():
            log.append({"function": body["key"], "combinator": site[1].split("::")[-1], "closure": f[1] if f[0] == "closure" else None})
        if not site[4]:
            log.append({"function": body["key"], "combinator": site[1].split("::")[-1], "closure": None})
        n_done += 1
    return n_done


def _rewrite(body, bodies, bi, callee, kind, plans, fns):
    blocks = body["blocks"]
    blk = blocks[bi]
    t = blk["term"]
    dest = t["dest"]
    cont = t["target"]
    line = t.get("line")
    recv = t["args"][0]
    rl = (recv.get("move") or recv.get("copy"))["l"]
    adt = OPTION if kind == "option" else RESULT
    variants = {"option": [("None", 0), ("Some", 1)], "result": [("Ok", 0), ("Err", 1)], "bool": [(0, 0), (1, 1)]}[kind]
    arm_blocks = {}
    pending_calls = []
    for vname, vidx in variants:
        plan = plans[vname]
        stmts = []
        nb = len(blocks)
        blocks.append({"stmts": stmts, "term": {"k": "goto", "target": cont, "line": line, "exp": False}, "cleanup": False})
        arm_blocks[vidx] = nb
        wrap = plan[0]
        if wrap == "none":
            stmts.append({"lhs": dest, "rv": _agg(OPTION, "None", []), "line": line, "exp": False})
            continue
        if wrap == "cf_break_none":
            e2 = _new_local(body)
            stmts.append({"lhs": _pl(e2), "rv": _agg(OPTION, "None", []), "line": line, "exp": False})
            stmts.append({"lhs": dest, "rv": _agg(CONTROL_FLOW, "Break", [{"move": _pl(e2)}]), "line": line, "exp": False})
            continue
        if wrap == "bool":
            stmts.append({"lhs": dest, "rv": {"k": "use", "a": {"const": {"ty": "bool", "int": plan[1]}}}, "line": line, "exp": False})
            continue
        src = plan[1]
        payload = None
        if kind != "bool":
            payload = _new_local(body)
            stmts.append({"lhs": _pl(payload), "rv": {"k": "use", "a": {"move": _pl(rl, [{"d": vname, "v": vidx}, {"f": 0, "n": "0", "ty": "?"}])}}, "line": line, "exp": False})
        value_op = None
        if src[0] == "payload":
            value_op = {"move": _pl(payload)}
        elif src[0] == "arg":
            value_op = t["args"][src[1]]
        elif src[0] == "call":
            f, env = fns[src[1]]
            r = _new_local(body)
            args = []
            if f[0] == "closure":
                cb = bodies[f[1]]
                env_ty = cb["locals"][1]["ty"] if len(cb["locals"]) > 1 else ""
                if env_ty.startswith("&"):
                    e = _new_local(body, env_ty)
                    envp = env.get("move") or env.get("copy")
                    stmts.append({"lhs": _pl(e, ty=env_ty), "rv": {"k": "ref", "mut": env_ty.startswith("&mut"), "bk": "Shared", "p": envp}, "line": line, "exp": False})
                    args.append({"move": _pl(e, ty=env_ty)})
                else:
                    args.append(env)
            if src[2] == "payload":
                args.append({"move": _pl(payload)})
            elif src[2] == "ref":
                rr = _new_local(body)
                stmts.append({"lhs": _pl(rr), "rv": {"k": "ref", "mut": False, "bk": "Shared", "p": _pl(payload)}, "line": line, "exp": False})
                args.append({"move": _pl(rr)})
            after = len(blocks)
            blocks.append({"stmts": [], "term": {"k": "goto", "target": cont, "line": line, "exp": False}, "cleanup": False})
            key = f[1]
            blocks[nb]["term"] = {"k": "call", "callee": key, "decl": key, "substs": [], "inst_substs": [], "resolved": True, "ikind": "Item", "local": True, "ret_never": False,
                                  "args": args, "dest": _pl(r), "target": after, "line": line, "exp": False, "fn_line": line, "expanded_from": callee}
            if f[0] == "closure" and bodies[key].get("arg_count", len(args)) == len(args):
                pending_calls.append((nb, key, f[2]))
            stmts = blocks[after]["stmts"]
            value_op = {"move": _pl(r)}
        if wrap == "some":
            stmts.append({"lhs": dest, "rv": _agg(OPTION, "Some", [value_op]), "line": line, "exp": False})
        elif wrap == "cf_continue":
            stmts.append({"lhs": dest, "rv": _agg(CONTROL_FLOW, "Continue", [value_op]), "line": line, "exp": False})
        elif wrap == "cf_break":
            e2 = _new_local(body)
            stmts.append({"lhs": _pl(e2), "rv": _agg(RESULT, "Err", [value_op]), "line": line, "exp": False})
            stmts.append({"lhs": dest, "rv": _agg(CONTROL_FLOW, "Break", [{"move": _pl(e2)}]), "line": line, "exp": False})
        elif wrap == "ok":
            stmts.append({"lhs": dest, "rv": _agg(RESULT, "Ok", [value_op]), "line": line, "exp": False})
        elif wrap == "err":
            stmts.append({"lhs": dest, "rv": _agg(RESULT, "Err", [value_op]), "line": line, "exp": False})
        elif wrap == "raw":
            stmts.append({"lhs": dest, "rv": {"k": "use", "a": value_op}, "line": line, "exp": False})
        elif wrap == "filter":
            # keep the payload iff the predicate held
            keep = len(blocks)
            blocks.append({"stmts": [{"lhs": dest, "rv": _agg(OPTION, "Some", [{"move": _pl(payload)}]), "line": line, "exp": False}],
                           "term": {"k": "goto", "target": cont, "line": line, "exp": False}, "cleanup": False})
            drop = len(blocks)
            blocks.append({"stmts": [{"lhs": dest, "rv": _agg(OPTION, "None", []), "line": line, "exp": False}],
                           "term": {"k": "goto", "target": cont, "line": line, "exp": False}, "cleanup": False})
            owner = [b for b in blocks if b["stmts"] is stmts][0]
            owner["term"] = {"k": "switch", "discr": value_op, "discr_ty": "bool", "arms": [[0, drop]], "otherwise": keep, "line": line, "exp": False}
    # the test itself
    if kind == "bool":
        blk["term"] = {"k": "switch", "discr": recv, "discr_ty": "bool", "arms": [[0, arm_blocks[0]]], "otherwise": arm_blocks[1], "line": line, "exp": False, "expanded_from": callee}
    else:
        d = _new_local(body, "isize")
        blk["stmts"].append({"lhs": _pl(d, ty="isize"), "rv": {"k": "discr", "p": _pl(rl, ty=adt + "<?>")}, "line": line, "exp": False})
        unreach = len(blocks)
        blocks.append({"stmts": [], "term": {"k": "unreachable", "line": line, "exp": False}, "cleanup": False})
        blk["term"] = {"k": "switch", "discr": {"move": _pl(d, ty="isize")}, "discr_ty": "isize", "arms": [[0, arm_blocks[0]], [1, arm_blocks[1]]], "otherwise": unreach,
                       "line": line, "exp": False, "expanded_from": callee}
    # closures in place
    for nb, key, captured in pending_calls:
        base_l = len(body["locals"])
        base_b = len(blocks)
        _splice(body, nb, bodies[key], "%s@%s" % (key, line))
        _bind_captures(body, base_l + 1, base_b, captured)


def _bind_captures(body, env, first_block, captured):
    """In the spliced copy, `(*env).k` / `env.k` is the k-th captured operand of the closure aggregate."""
    def fix(p):
        if p["l"] != env:
            return p
        pr = p["p"]
        if pr and pr[0] == "*":
            pr = pr[1:]
        if not pr or not isinstance(pr[0], dict) or "f" not in pr[0]:
            return p
        k = pr[0]["f"]
        if k >= len(captured):
            return p
        c = captured[k].get("move") or captured[k].get("copy")
        if c is None:
            return p
        return {"l": c["l"], "p": list(c["p"]) + list(pr[1:]), "ty": p.get("ty", "?")}

    def op(o):
        if "copy" in o:
            return dict(o, copy=fix(o["copy"]))
        if "move" in o:
            return dict(o, move=fix(o["move"]))
        return o

    for blk in body["blocks"][first_block:]:
        for s in blk["stmts"]:
            if "lhs" not in s:
                continue
            s["lhs"] = fix(s["lhs"])
            rv = s["rv"]
            for k in ("a", "b"):
                if isinstance(rv.get(k), dict):
                    rv[k] = op(rv[k])
            if "ops" in rv:
                rv["ops"] = [op(o) for o in rv["ops"]]
            if isinstance(rv.get("p"), dict):
                rv["p"] = fix(rv["p"])
        t = blk["term"]
        for k in ("discr", "cond", "indirect"):
            if isinstance(t.get(k), dict):
                t[k] = op(t[k])
        if "args" in t:
            t["args"] = [op(o) for o in t["args"]]
        if "aops" in t:
            t["aops"] = [op(o) for o in t["aops"]]
        if "dest" in t:
            t["dest"] = fix(t["dest"])
        if t["k"] == "drop":
            t["p"] = fix(t["p"])


_STD_VARIANTS = {OPTION: {"None": 0, "Some": 1}, RESULT: {"Ok": 0, "Err": 1}, "std::ops::ControlFlow": {"Continue": 0, "Break": 1}}


def _succs(t):
    if t["k"] == "goto":
        return [t["target"]]
    if t["k"] == "switch":
        return [a[1] for a in t["arms"]] + [t["otherwise"]]
    if t["k"] in ("call", "drop", "assert") and t.get("target") is not None:
        return [t["target"]]
    return []


def _preds(body, live):
    preds = {}
    for b in live:
        for x in _succs(body["blocks"][b]["term"]):
            preds.setdefault(x, []).append(b)
    return preds


def _idom(body, live, preds, node):
    """Immediate dominator of `node` among live blocks (small graphs: set intersection to a fixed point)."""
    order = sorted(live)
    dom = {b: set(order) for b in order}
    dom[0] = {0}
    changed = True
    while changed:
        changed = False
        for b in order:
            if b == 0:
                continue
            ps = [p for p in preds.get(b, []) if p in dom]
            if not ps:
                continue
            new = set.intersection(*(dom[p] for p in ps)) | {b}
            if new != dom[b]:
                dom[b] = new
                changed = True
    strict = dom.get(node, set()) - {node}
    for d in strict:
        if all(o in dom[d] for o in strict):
            return d
    return None


def _reads(stmt):
    out = set()

    def pl(p):
        out.add(p["l"])
        for e in p["p"]:
            if isinstance(e, dict) and "i" in e:
                out.add(e["i"])

    rv = stmt["rv"]
    for k in ("a", "b"):
        o = rv.get(k)
        if isinstance(o, dict):
            q = o.get("move") or o.get("copy")
            if q:
                pl(q)
    for o in rv.get("ops", []):
        q = o.get("move") or o.get("copy")
        if q:
            pl(q)
    if isinstance(rv.get("p"), dict):
        pl(rv["p"])
    if stmt["lhs"]["p"]:
        pl(stmt["lhs"])
    return out


def _hoist_prefix(body, live, preds, s_i):
    """Move the statements in front of `d = discriminant(x); switch d` in block s_i to the end of its immediate dominator,
    when nothing they read is written on the way (they build a closure and the references it captures)."""
    S = body["blocks"][s_i]
    stmts = [x for x in S["stmts"] if "lhs" in x]
    prefix = stmts[:-1]
    if not prefix:
        return True
    d_i = _idom(body, live, preds, s_i)
    if d_i is None:
        return False
    D = body["blocks"][d_i]
    if D["term"]["k"] not in ("switch", "goto"):
        return False
    # blocks between D and S
    fwd = set()
    stack = list(_succs(D["term"]))
    while stack:
        x = stack.pop()
        if x in fwd or x == s_i or x == d_i:
            continue
        fwd.add(x)
        stack.extend(_succs(body["blocks"][x]["term"]))
    between = {x for x in fwd if x in live}
    written = set()
    for x in between:
        blk = body["blocks"][x]
        for st in blk["stmts"]:
            if "lhs" in st:
                written.add(st["lhs"]["l"])
        t = blk["term"]
        if t["k"] == "call":
            written.add(t["dest"]["l"])
    need = set()
    defined = set()
    for st in prefix:
        if st["lhs"]["p"]:
            return False
        need |= _reads(st) - defined
        defined.add(st["lhs"]["l"])
    if need & written or defined & written:
        return False
    D["stmts"] = D["stmts"] + prefix
    keep = stmts[-1]
    S["stmts"] = [x for x in S["stmts"] if "lhs" not in x or x is keep]
    return True


def thread_variant_switches(body, adts):
    """`x = Some(v); goto S` where S only does `switch discriminant(x)` goes straight to S's `Some` arm (and likewise for any
    variant built just before the test): after two combinators in a row (`.filter(p).map(f)`) each arm of the first knows
    which arm of the second it continues in.  In an arm entered from one place only, reading the payload back is reading `v`."""
    def variant_index(rv):
        vi = _STD_VARIANTS.get(rv["adt"], {}).get(rv.get("variant"))
        if vi is None:
            a = adts.get(rv["adt"])
            for i, v in enumerate((a or {}).get("variants", [])):
                if v.get("name") == rv.get("variant"):
                    try:
                        vi = int(v["discr"]) if v.get("discr") is not None else i
                    except (TypeError, ValueError):
                        vi = None
        return vi

    def last_build(P, l):
        last = None
        for x in P["stmts"]:
            if "lhs" in x and x["lhs"]["l"] == l:
                last = x if not x["lhs"]["p"] else None
        if last is None or last["rv"].get("k") != "agg" or last["rv"].get("agg") != "adt":
            return None
        return last["rv"]

    def skip_empty_gotos():
        # edges into a block that does nothing but jump on go where it goes (joins left behind by splicing)
        blocks = body["blocks"]

        def final(x, hops=0):
            while hops < 10 and 0 <= x < len(blocks) and not blocks[x]["cleanup"] and blocks[x]["term"]["k"] == "goto" \
                    and not any("lhs" in st for st in blocks[x]["stmts"]) and blocks[x]["term"]["target"] != x:
                x = blocks[x]["term"]["target"]
                hops += 1
            return x
        for b in _live(body):
            t = blocks[b]["term"]
            if blocks[b]["cleanup"]:
                continue
            if t["k"] == "goto":
                t["target"] = final(t["target"])
            elif t["k"] == "switch":
                t["arms"] = [[a[0], final(a[1])] for a in t["arms"]]
                t["otherwise"] = final(t["otherwise"])
            elif t["k"] in ("call", "drop", "assert") and t.get("target") is not None:
                t["target"] = final(t["target"])

    changed_any = False
    for _round in range(40):
        changed = False
        skip_empty_gotos()
        live = _live(body)
        preds = _preds(body, live)
        for s_i in sorted(live):
            S = body["blocks"][s_i]
            t = S["term"]
            stmts = [x for x in S["stmts"] if "lhs" in x]
            if S["cleanup"] or t["k"] != "switch" or not stmts or stmts[-1]["rv"].get("k") != "discr":
                continue
            d = stmts[-1]["lhs"]
            dp = t["discr"].get("move") or t["discr"].get("copy")
            L = stmts[-1]["rv"]["p"]
            if d["p"] or L["p"] or dp is None or dp["p"] or dp["l"] != d["l"]:
                continue
            if any(x["lhs"]["l"] == L["l"] for x in stmts[:-1]):
                continue
            cands = []
            for p_i in preds.get(s_i, []):
                P = body["blocks"][p_i]
                if P["term"]["k"] != "goto" or P["cleanup"] or p_i == s_i:
                    continue
                rv = last_build(P, L["l"])
                vi = variant_index(rv) if rv is not None else None
                if vi is not None:
                    cands.append((p_i, vi))
            if not cands:
                continue
            if len(stmts) > 1 and not _hoist_prefix(body, live, preds, s_i):
                continue
            for p_i, vi in cands:
                tgt = t["otherwise"]
                for a in t["arms"]:
                    if a[0] == vi:
                        tgt = a[1]
                body["blocks"][p_i]["term"] = dict(body["blocks"][p_i]["term"], target=tgt, threaded=True)
            changed = True
            break
        if not changed:
            break
        changed_any = True
    if changed_any:
        # payload reads in arms that are now entered from one building block only
        live = _live(body)
        preds = _preds(body, live)
        for t_i in sorted(live):
            ps = preds.get(t_i, [])
            if len(ps) != 1:
                continue
            P = body["blocks"][ps[0]]
            if P["term"]["k"] != "goto":
                continue
            for st in body["blocks"][t_i]["stmts"]:
                if "lhs" not in st or st["rv"].get("k") != "use":
                    continue
                q = st["rv"]["a"].get("move") or st["rv"]["a"].get("copy")
                if q is None or len(q["p"]) < 2 or not isinstance(q["p"][0], dict) or "d" not in q["p"][0] or not isinstance(q["p"][1], dict) or "f" not in q["p"][1]:
                    continue
                rv = last_build(P, q["l"])
                if rv is None or rv.get("variant") != q["p"][0]["d"] or q["p"][1]["f"] >= len(rv["ops"]):
                    continue
                o = rv["ops"][q["p"][1]["f"]]
                oq = o.get("move") or o.get("copy")
                if oq is not None:
                    st["rv"] = {"k": "use", "a": {"copy": {"l": oq["l"], "p": list(oq["p"]) + list(q["p"][2:]), "ty": q.get("ty", "?")}}}
                elif "const" in o and len(q["p"]) == 2:
                    st["rv"] = {"k": "use", "a": o}
    return changed_any


def apply(facts):
    from .inline import _fold_switches, _resolve_refs
    known = _known()
    bodies = {j["key"]: j for j in facts["bodies"]}
    adts = {a["path"]: a for a in facts["adts"]}
    log = []
    for j in facts["bodies"]:
        if j["kind"] not in ("fn", "closure"):
            continue
        n0 = len(log)
        expand_body(j, bodies, known, log)
        if len(log) > n0:
            _fold_switches(j, adts)
            thread_variant_switches(j, adts)
            _resolve_refs(j)
    # a closure whose only use was expanded is no longer a body of its own
    used = set()
    for j in facts["bodies"]:
        for blk in j["blocks"]:
            for s in blk["stmts"]:
                if "lhs" in s and s["rv"].get("agg") == "closure":
                    used.add(s["rv"].get("closure"))
    done = {e["closure"] for e in log if e.get("closure")}
    # the aggregate stays (it is the env); the body goes when every call of the combinator it was passed to was expanded
    gone = done
    for j in facts["bodies"]:
        if j.get("parent") in gone:
            j["parent"] = bodies[j["parent"]].get("parent")
    facts["bodies"] = [j for j in facts["bodies"] if j["key"] not in gone]
    facts["expanded_combinators"] = log
    return log
