"""In-memory model of the facts: bodies, normal CFG, dominators, symbolic expressions (DESIGN 2.2, App. A)."""
import re
from collections import defaultdict

EXIT = -1   # virtual node reached by Return
PANIC = -2  # virtual node reached by diverging calls / failed asserts


class AnchorMissing(Exception):
    def __init__(self, what):
        Exception.__init__(self, what)
        self.what = what


# ---------------------------------------------------------------------------------------- places

def pstr(place):
    """Canonical rendering of a place: (*_1).info.depth, (_5 as Some).0, _7[_9]."""
    s = "_%d" % place["l"]
    for e in place["p"]:
        if e == "*":
            s = "(*%s)" % s
        elif isinstance(e, str):
            s = "%s<%s>" % (s, e)
        elif "n" in e:
            s = "%s.%s" % (s, e["n"])
        elif "d" in e:
            s = "(%s as %s)" % (s, e["d"])
        elif "i" in e:
            s = "%s[_%d]" % (s, e["i"])
        elif "ci" in e:
            s = "%s[%s%d]" % (s, "-" if e.get("from_end") else "", e["ci"])
        elif "sub" in e:
            s = "%s[%d..%d]" % (s, e["sub"], e["to"])
    return s


def fields_of(place):
    """Field-name path of a place, ignoring derefs and downcasts: ('info','depth')."""
    out = []
    for e in place["p"]:
        if isinstance(e, dict):
            if "n" in e:
                out.append(e["n"])
            elif "i" in e or "ci" in e:
                out.append("[]")
    return tuple(out)


def is_local(place):
    return not place["p"]


def op_place(op):
    if "copy" in op:
        return op["copy"]
    if "move" in op:
        return op["move"]
    return None


def op_const(op):
    return op.get("const")


def const_int(op):
    c = op.get("const") if op else None
    if c is None:
        return None
    if "int" in c:
        return c["int"]
    if "bits" in c:
        return int(c["bits"])
    return None


def const_str(op):
    c = op.get("const") if op else None
    if c is None:
        return None
    return c.get("str")


# ---------------------------------------------------------------------------------------- bodies

class Block:
    __slots__ = ("idx", "stmts", "term", "cleanup")

    def __init__(self, idx, j):
        self.idx = idx
        self.stmts = [s for s in j["stmts"] if "lhs" in s]
        self.term = j["term"]
        self.cleanup = j["cleanup"]


class Body:
    def __init__(self, j):
        self.key = j["key"]
        self.kind = j["kind"]
        self.parent = j["parent"]
        self.file = j["file"]
        self.line_lo = j["line_lo"]
        self.line_hi = j["line_hi"]
        self.arg_count = j["arg_count"]
        self.vis = j.get("vis", "")
        self.locals = j["locals"]
        self.debug = j["debug"]
        self.blocks = [Block(i, b) for i, b in enumerate(j["blocks"])]
        self.names = {}
        for d in self.debug:
            v = d["val"]
            if "l" in v and not v["p"]:
                self.names.setdefault(v["l"], d["name"])
        # shadowed / repeated names (two loops both desugar to `iter`): number the later ones
        seen = {}
        for l in sorted(self.names):
            nm = self.names[l]
            seen[nm] = seen.get(nm, 0) + 1
            if seen[nm] > 1:
                self.names[l] = "%s#%d" % (nm, seen[nm])
        self._succ = None
        self._pred = None
        self._dom = None
        self._pdom = None
        self._defs = None
        self._reach_cache = {}

    # -- CFG ------------------------------------------------------------------------------------
    def succ(self, b):
        if self._succ is None:
            self._build_cfg()
        return self._succ[b]

    def pred(self, b):
        if self._succ is None:
            self._build_cfg()
        return self._pred[b]

    def _build_cfg(self):
        succ = {}
        for blk in self.blocks:
            if blk.cleanup:
                succ[blk.idx] = []
                continue
            t = blk.term
            k = t["k"]
            if k == "goto":
                s = [t["target"]]
            elif k == "switch":
                s = [a[1] for a in t["arms"]] + [t["otherwise"]]
            elif k == "call":
                s = [t["target"]] if t["target"] is not None else [PANIC]
            elif k == "assert":
                s = [t["target"]]
            elif k == "drop":
                s = [t["target"]]
            elif k == "return":
                s = [EXIT]
            elif k in ("unreachable", "resume", "abort"):
                s = []
            elif k == "tailcall":
                s = [EXIT]
            else:
                s = []
            # keep order, drop duplicates
            seen = []
            for x in s:
                if x not in seen:
                    seen.append(x)
            succ[blk.idx] = seen
        succ[EXIT] = []
        succ[PANIC] = []
        pred = defaultdict(list)
        for b, ss in succ.items():
            for s in ss:
                pred[s].append(b)
        self._succ = succ
        self._pred = pred

    def reachable_from(self, start, removed=frozenset(), include_start=False):
        """Blocks reachable from `start` along normal edges without entering blocks in `removed`."""
        seen = set()
        stack = list(self.succ(start)) if not include_start else [start]
        while stack:
            b = stack.pop()
            if b in seen or b in removed:
                continue
            seen.add(b)
            if b >= 0:
                stack.extend(self.succ(b))
        return seen

    def threaded_reach(self, start, removed=frozenset()):
        """Blocks reachable from `start` (inclusive) when boolean/integer temporaries assigned a constant on the
        straight-line prefix of the path decide the switches that test them (the lowering of `matches!` and of
        `a || b` sets a flag in one block and tests it in the next)."""
        known = {}
        variant = {}     # local -> index of the variant it was built as (`cf = Break(())` ... `match cf`)
        seen = set()
        b = start
        while True:
            if b in seen or b in removed:
                return seen
            seen.add(b)
            if b < 0:
                return seen
            blk = self.blocks[b]
            for s in blk.stmts:
                if is_local(s["lhs"]):
                    rv = s["rv"]
                    variant.pop(s["lhs"]["l"], None)
                    if rv.get("k") == "agg" and rv.get("agg") == "adt" and isinstance(rv.get("vidx"), int):
                        variant[s["lhs"]["l"]] = rv["vidx"]
                    v = const_int(rv["a"]) if rv.get("k") == "use" else None
                    if v is None and rv.get("k") == "discr" and not rv["p"]["p"] and rv["p"]["l"] in variant:
                        v = variant[rv["p"]["l"]]
                    if v is None and rv.get("k") == "use":
                        q0 = op_place(rv["a"])
                        if q0 is not None and is_local(q0) and q0["l"] in variant:
                            variant[s["lhs"]["l"]] = variant[q0["l"]]
                    if v is None and rv.get("k") == "use":
                        q = op_place(rv["a"])
                        if q is not None and is_local(q) and q["l"] in known:
                            v = known[q["l"]]
                    if v is None and rv.get("k") == "unop" and rv.get("op") == "Not":
                        q = op_place(rv["a"])
                        if q is not None and is_local(q) and known.get(q["l"]) in (0, 1):
                            v = 1 - known[q["l"]]      # `if !flag`
                    if v is not None:
                        known[s["lhs"]["l"]] = v
                    else:
                        known.pop(s["lhs"]["l"], None)
            t = blk.term
            if t["k"] == "call" and is_local(t["dest"]):
                known.pop(t["dest"]["l"], None)
            ss = self.succ(b)
            if t["k"] == "switch":
                q = op_place(t["discr"])
                if q is not None and is_local(q) and q["l"] in known:
                    v = known[q["l"]]
                    tgt = t["otherwise"]
                    for a in t["arms"]:
                        if a[0] == v:
                            tgt = a[1]
                    b = tgt
                    continue
            if len(ss) == 1:
                b = ss[0]
                continue
            for x in ss:
                seen |= self.reachable_from(x, removed=removed, include_start=True)
            return seen

    def reaches(self, a, b, removed=frozenset()):
        return b in self.reachable_from(a, removed)

    def live_blocks(self):
        return self.reachable_from(0, include_start=True)

    # -- dominators -----------------------------------------------------------------------------
    def _dominators(self, entry, succ_fn, nodes):
        dom = {n: None for n in nodes}
        dom[entry] = {entry}
        order = []
        seen = set()

        def dfs(n):
            stack = [(n, iter(succ_fn(n)))]
            seen.add(n)
            while stack:
                node, it = stack[-1]
                adv = False
                for s in it:
                    if s in nodes and s not in seen:
                        seen.add(s)
                        stack.append((s, iter(succ_fn(s))))
                        adv = True
                        break
                if not adv:
                    order.append(node)
                    stack.pop()
        dfs(entry)
        rpo = list(reversed(order))
        preds = defaultdict(list)
        for n in rpo:
            for s in succ_fn(n):
                if s in nodes:
                    preds[s].append(n)
        changed = True
        while changed:
            changed = False
            for n in rpo:
                if n == entry:
                    continue
                ps = [dom[p] for p in preds[n] if dom[p] is not None]
                if not ps:
                    continue
                new = set.intersection(*ps) | {n}
                if new != dom[n]:
                    dom[n] = new
                    changed = True
        return dom

    def dom(self):
        if self._dom is None:
            nodes = set(self.live_blocks()) | {0}
            self._dom = self._dominators(0, lambda n: [s for s in self.succ(n)] if n >= 0 else [], nodes)
        return self._dom

    def pdom(self):
        """Post-dominators towards EXIT; blocks that cannot reach EXIT (panic paths) get None."""
        if self._pdom is None:
            nodes = set(self.live_blocks()) | {EXIT}
            nodes.discard(PANIC)
            self._pdom = self._dominators(EXIT, lambda n: [p for p in self.pred(n)], nodes)
        return self._pdom

    def dominates(self, a, b):
        d = self.dom().get(b)
        return d is not None and a in d

    def postdominates(self, a, b):
        """a post-dominates b (every normal path from b to EXIT passes a)."""
        d = self.pdom().get(b)
        return d is not None and a in d

    def control_equivalent(self, a, b):
        return self.dominates(a, b) and self.postdominates(b, a)

    def in_loop(self, b):
        return b in self.reachable_from(b)

    # -- definitions ----------------------------------------------------------------------------
    def defs(self):
        """local -> list of (block, stmt_index or 'term', def) for whole-local assignments."""
        if self._defs is None:
            d = defaultdict(list)
            live = self.live_blocks()
            for blk in self.blocks:
                if blk.cleanup or blk.idx not in live:
                    continue
                for i, s in enumerate(blk.stmts):
                    if is_local(s["lhs"]):
                        d[s["lhs"]["l"]].append((blk.idx, i, s["rv"]))
                    elif s["lhs"]["p"][0] == "*":
                        pass  # a store through a reference does not redefine the reference itself
                    else:
                        # partial write: count as an extra def so that the local is not "single-def"
                        d[s["lhs"]["l"]].append((blk.idx, i, {"k": "partial", "lhs": s["lhs"], "rv": s["rv"]}))
                t = blk.term
                if t["k"] == "call":
                    if is_local(t["dest"]):
                        d[t["dest"]["l"]].append((blk.idx, "term", {"k": "call", "t": t}))
                    elif t["dest"]["p"][0] == "*":
                        pass
                    else:
                        d[t["dest"]["l"]].append((blk.idx, "term", {"k": "partial", "lhs": t["dest"], "rv": {"k": "call", "t": t}}))
            self._defs = d
        return self._defs

    def single_def(self, local):
        ds = self.defs().get(local, [])
        if len(ds) == 1 and ds[0][2].get("k") != "partial" and (local > self.arg_count or local == 0):
            return ds[0]
        return None

    def mut_borrowed_locals(self):
        out = set()
        for blk in self.blocks:
            for s in blk.stmts:
                rv = s["rv"]
                if rv["k"] == "ref" and rv.get("mut") and is_local(rv["p"]):
                    out.add(rv["p"]["l"])
                if rv["k"] == "rawptr" and is_local(rv["p"]):
                    out.add(rv["p"]["l"])
        return out

    def local_name(self, l):
        if l in self.names:
            return self.names[l]
        if l == 0:
            return "_ret"
        return "_%d" % l

    # -- iteration helpers ----------------------------------------------------------------------
    def calls(self, live_only=True):
        live = self.live_blocks() if live_only else None
        for blk in self.blocks:
            if blk.cleanup:
                continue
            if live is not None and blk.idx not in live:
                continue
            if blk.term["k"] in ("call", "tailcall"):
                yield blk.idx, blk.term

    def stmts(self):
        live = self.live_blocks()
        for blk in self.blocks:
            if blk.cleanup or blk.idx not in live:
                continue
            for i, s in enumerate(blk.stmts):
                yield blk.idx, i, s

    def where(self, b=None, line=None):
        if line is None and b is not None and b >= 0:
            line = self.blocks[b].term.get("line")
        return "%s:%s" % (self.file, line if line is not None else self.line_lo)


def enumerate_paths(body, start=0, limit=20000, stop_blocks=()):
    """All normal paths start -> EXIT (loops are cut: a block is visited at most once per path).
    Yields lists of block indices.  Raises OverflowError beyond `limit` paths."""
    out = []
    stack = [(start, [start])]
    while stack:
        b, path = stack.pop()
        for s in body.succ(b):
            if s == EXIT:
                out.append(path)
                if len(out) > limit:
                    raise OverflowError("too many paths in %s" % body.key)
            elif s == PANIC or s in path:
                continue
            elif s in stop_blocks:
                out.append(path + [s])
            else:
                stack.append((s, path + [s]))
    return out


def callee_name(t):
    """Resolved callee path of a call terminator ('' for indirect calls)."""
    return t.get("callee") or ""


def strip_generics(path):
    """std::collections::HashSet::<T, S>::insert -> std::collections::HashSet::insert.
    `::<impl Trait for Type>::` segments are path components, not generic arguments, and are kept."""
    if "::<" not in path:
        return path
    out = []
    i = 0
    n = len(path)
    while i < n:
        if path.startswith("::<", i):
            # find the matching '>'
            depth = 0
            j = i + 2
            while j < n:
                ch = path[j]
                if ch == "<":
                    depth += 1
                elif ch == ">" and path[j - 1] != "-":
                    depth -= 1
                    if depth == 0:
                        break
                j += 1
            content = path[i + 3:j]
            if content.startswith("impl "):
                out.append(path[i:j + 1])
            i = j + 1
        else:
            out.append(path[i])
            i += 1
    return "".join(out)


def callee_is(t, *names):
    """Match the resolved callee (generic args stripped) against exact paths or '*suffix' patterns."""
    c = strip_generics(callee_name(t))
    d = strip_generics(t.get("decl") or "")
    for n in names:
        if n.startswith("*"):
            sfx = strip_generics(n[1:])
            if c.endswith(sfx) or d.endswith(sfx):
                return True
        else:
            n = strip_generics(n)
            if c == n or d == n:
                return True
    return False


# ---------------------------------------------------------------------------------- expressions

class Sym:
    """Symbolic expression builder over one body (DESIGN App. A 'slice').

    Expressions are nested tuples:
      ('const', value, ty) | ('fn', path) | ('arg', name, fields...) | ('var', name, fields...)
      | ('call', callee, (args...)) | ('bin', op, a, b) | ('un', op, a) | ('cast', a, to_ty)
      | ('agg', adt_or_kind, variant, (ops...)) | ('discr', e) | ('ref', e) | ('field', e, name...)
      | ('deref', e) | ('len', e) | ('unknown', text)
    Single-definition temporaries are inlined; arguments and multi-definition locals stay symbolic.
    """

    def __init__(self, body, facts_index=None, max_depth=40):
        self.body = body
        self.ix = facts_index
        self.max_depth = max_depth
        self._memo = {}
        self._mutb = None

    def operand(self, op, depth=0):
        if op is None:
            return ("unknown", "none")
        if "const" in op:
            return self.const(op["const"])
        p = op_place(op)
        if p is not None:
            return self.place(p, depth)
        return ("unknown", str(op)[:60])

    def const(self, c):
        if "fn" in c:
            return ("fn", strip_generics(c["fn"]))
        if "int" in c:
            return ("const", c["int"], c["ty"])
        if "bits" in c:
            return ("const", int(c["bits"]), c["ty"])
        if "str" in c:
            return ("const", c["str"], c["ty"])
        if "item" in c:
            v = self._eval_promoted("%s::{init}" % c["item"], limit=4)
            if v is not None and v[0] == "agg" and v[1] != "array":
                return v  # a struct / tuple / enum constant: its fields are what matters, not its name
            return ("item", c["item"], c["ty"])
        if "static" in c:
            return ("static", c["static"])
        if "promoted" in c:
            key = "%s::{promoted#%d}" % (c["promoted_of"], c["promoted"])
            v = self._eval_promoted(key)
            if v is not None:
                return v
            return ("promoted", key, c["ty"])
        return ("const", c.get("disp"), c["ty"])

    def _eval_promoted(self, key, limit=2):
        """A promoted constant whose body just builds a value (`&Variant{}`, `&"str"`, `&[..]`)."""
        if self.ix is None or key not in self.ix.bodies:
            return None
        pb = self.ix.bodies[key]
        if len(pb.blocks) > limit or any(blk.term["k"] == "call" for blk in pb.blocks):
            return None
        try:
            e = Sym(pb, self.ix, max_depth=12).local(0)
        except RecursionError:
            return None
        bad = [x for x in walk(e) if isinstance(x, tuple) and x and x[0] in ("var", "unknown", "arg")]
        return None if bad else e

    def local(self, l, depth=0):
        body = self.body
        if depth > self.max_depth:
            return ("var", body.local_name(l))
        if 1 <= l <= body.arg_count:
            return ("arg", body.local_name(l))
        if l in self._memo:
            return self._memo[l]
        sd = body.single_def(l)
        if sd is None or l in body.names and self._is_mut_user(l):
            e = ("var", body.local_name(l))
        else:
            self._memo[l] = ("var", body.local_name(l))  # cycle guard
            e = self.rvalue(sd[2], depth + 1)
        self._memo[l] = e
        return e

    def expand_var(self, e):
        """For ('var', name) of a variable with a single definition (kept symbolic because it is mutably
        borrowed, e.g. an iterator): the expression of that definition; otherwise e."""
        if not (isinstance(e, tuple) and e[0] == "var"):
            return e
        for l in range(len(self.body.locals)):
            if self.body.local_name(l) == e[1]:
                sd = self.body.single_def(l)
                if sd is None:
                    return e
                return self.rvalue(sd[2], 1)
        return e

    def _is_mut_user(self, l):
        # a named `let mut` variable that is mutably borrowed may change behind our back
        if self._mutb is None:
            self._mutb = self.body.mut_borrowed_locals()
        return self.body.locals[l].get("mut") and l in self._mutb

    def place(self, p, depth=0):
        e = self.local(p["l"], depth)
        for el in p["p"]:
            if el == "*":
                if e[0] == "ref":
                    e = e[1]
                else:
                    e = ("deref", e)
            elif isinstance(el, str):
                pass
            elif "n" in el:
                # field of an aggregate we know: project
                if e[0] == "agg" and e[1] in ("tuple",) and el["n"].isdigit() and int(el["n"]) < len(e[3]):
                    e = e[3][int(el["n"])]
                elif e[0] == "agg" and e[1] == "std::option::Option" and e[2] == "Some" and el["n"] == "0" and len(e[3]) == 1:
                    e = e[3][0]     # the payload of a Some(..) built in this body (a loop element bound by unrolling)
                elif e[0] == "bin" and e[1].endswith("WithOverflow") and el["n"] == "0":
                    # (a +checked b).0 is the value of a + b: same expression in debug and release builds
                    e = ("bin", e[1][:-len("WithOverflow")], e[2], e[3])
                elif e[0] == "field":
                    e = e + (el["n"],)
                elif e[0] in ("arg", "var") or e[0] == "deref" and e[1][0] in ("arg", "var"):
                    base = e if e[0] != "deref" else e[1]
                    e = ("field", ("deref", base) if e[0] == "deref" else base, el["n"])
                else:
                    e = ("field", e, el["n"])
            elif "d" in el:
                if e[0] == "agg" and e[2] == el["d"] and e[1] == "std::option::Option":
                    pass    # viewing a value built as that variant as that variant
                else:
                    e = ("as", e, el["d"])
            elif "i" in el:
                e = ("index", e, self.local(el["i"], depth + 1))
            elif "ci" in el:
                e = ("index", e, ("const", el["ci"], "usize"))
            elif "sub" in el:
                e = ("subslice", e, el["sub"], el["to"])
        return e

    def rvalue(self, rv, depth=0):
        k = rv["k"]
        if k == "use":
            return self.operand(rv["a"], depth)
        if k == "ref":
            inner = self.place(rv["p"], depth)
            if inner[0] == "deref" and inner[1][0] == "const" and isinstance(inner[1][1], str):
                return inner[1]  # `&*"literal"`: a reborrow of a string constant is the constant
            return ("ref", inner)
        if k == "rawptr":
            return ("ref", self.place(rv["p"], depth))
        if k == "binop":
            return ("bin", rv["op"], self.operand(rv["a"], depth), self.operand(rv["b"], depth))
        if k == "unop":
            if rv["op"] == "PtrMetadata":
                return ("len", self.operand(rv["a"], depth))
            return ("un", rv["op"], self.operand(rv["a"], depth))
        if k == "cast":
            return ("cast", self.operand(rv["a"], depth), rv["to"])
        if k == "discr":
            return ("discr", self.place(rv["p"], depth))
        if k == "agg":
            ops = tuple(self.operand(o, depth) for o in rv["ops"])
            if rv["agg"] == "adt":
                return ("agg", rv["adt"], rv["variant"], ops, tuple(rv.get("fields", [])))
            if rv["agg"] == "closure":
                return ("closure", rv["closure"], ops)
            return ("agg", rv["agg"], None, ops)
        if k == "repeat":
            return ("repeat", self.operand(rv["a"], depth), rv["n"])
        if k == "call":
            t = rv["t"]
            if "indirect" in t:
                return ("call", ("indirect", self.operand(t["indirect"], depth)), tuple(self.operand(a, depth) for a in t["args"]))
            return ("call", strip_generics(callee_name(t)), tuple(self.operand(a, depth) for a in t["args"]))
        return ("unknown", rv.get("desc", k)[:80])


def expr_str(e):
    """Compact rendering of a symbolic expression (for reports and keys)."""
    if not isinstance(e, tuple):
        return str(e)
    k = e[0]
    if k == "const":
        return repr(e[1]) if isinstance(e[1], str) else str(e[1])
    if k in ("arg", "var"):
        return e[1]
    if k == "fn":
        return e[1]
    if k == "item":
        return e[1]
    if k == "promoted":
        return e[1]
    if k == "static":
        return "static " + e[1]
    if k == "field":
        return expr_str(e[1]) + "".join("." + n for n in e[2:])
    if k == "deref":
        return "*" + expr_str(e[1])
    if k == "ref":
        return "&" + expr_str(e[1])
    if k == "as":
        return "(%s as %s)" % (expr_str(e[1]), e[2])
    if k == "call":
        c = e[1] if isinstance(e[1], str) else "<indirect>"
        return "%s(%s)" % (short(c), ", ".join(expr_str(a) for a in e[2]))
    if k == "bin":
        return "(%s %s %s)" % (expr_str(e[2]), e[1], expr_str(e[3]))
    if k == "un":
        return "%s(%s)" % (e[1], expr_str(e[2]))
    if k == "cast":
        return "(%s as %s)" % (expr_str(e[1]), e[2])
    if k == "discr":
        return "discr(%s)" % expr_str(e[1])
    if k == "len":
        return "len(%s)" % expr_str(e[1])
    if k == "agg":
        name = e[1] if e[2] is None else "%s::%s" % (short(e[1]), e[2])
        return "%s{%s}" % (name, ", ".join(expr_str(a) for a in e[3]))
    if k == "index":
        return "%s[%s]" % (expr_str(e[1]), expr_str(e[2]))
    if k == "closure":
        return "closure(%s)" % short(e[1])
    if k == "repeat":
        return "[%s; %s]" % (expr_str(e[1]), e[2])
    if k == "subslice":
        return "%s[%s..%s]" % (expr_str(e[1]), e[2], e[3])
    if k == "unknown":
        return "?%s" % (e[1],) if len(e) > 1 else "?"
    if k == "upd":
        return "%s{%s}" % (expr_str(e[1]), ", ".join("%s: %s" % (n, expr_str(v)) for n, v in e[2]))
    return "?%s" % (e[1:],) if len(e) > 1 else "?"


def short(path):
    path = strip_generics(path)
    parts = path.split("::")
    return "::".join(parts[-2:]) if len(parts) > 2 else path


def walk(e):
    """Pre-order iteration over a symbolic expression."""
    yield e
    if isinstance(e, tuple):
        for x in e[1:]:
            if isinstance(x, tuple):
                if x and isinstance(x[0], str) and x[0] in _KINDS:
                    for y in walk(x):
                        yield y
                else:
                    for z in x:
                        if isinstance(z, tuple):
                            for y in walk(z):
                                yield y


_KINDS = {"const", "fn", "arg", "var", "call", "bin", "un", "cast", "agg", "discr", "ref", "field", "deref",
          "len", "unknown", "item", "promoted", "static", "as", "index", "subslice", "closure", "repeat", "indirect"}


def eval_expr(e, env, bits=64):
    """Value of an arithmetic expression tree under `env` (maps rendered leaf expressions such as 'value' or
    'value.rank' to integers); None when some leaf or operator is not covered.  Used to compare two spellings of one
    index map over their whole finite domain (`v >> 3` and `v / 8`)."""
    if not isinstance(e, tuple):
        return None
    k = e[0]
    key = expr_str(e)
    if key in env:
        return env[key]
    mask = (1 << bits) - 1
    if k == "const" and isinstance(e[1], int):
        return e[1]
    if k == "cast":
        return eval_expr(e[1], env, bits)
    if k in ("ref", "deref"):
        return eval_expr(e[1], env, bits)
    if k == "un":
        v = eval_expr(e[2], env, bits)
        if v is None:
            return None
        if e[1] == "Not":
            return (~v) & mask
        if e[1] == "Neg":
            return -v
        return None
    if k == "bin":
        a, b = eval_expr(e[2], env, bits), eval_expr(e[3], env, bits)
        if a is None or b is None:
            return None
        op = e[1].replace("WithOverflow", "").replace("Unchecked", "")
        try:
            if op == "Add":
                return a + b
            if op == "Sub":
                return a - b
            if op == "Mul":
                return a * b
            if op == "Div":
                return a // b if b else None
            if op == "Rem":
                return a % b if b else None
            if op == "Shl":
                return (a << b) & mask
            if op == "Shr":
                return a >> b
            if op == "BitAnd":
                return a & b
            if op == "BitOr":
                return a | b
            if op == "BitXor":
                return a ^ b
        except (ValueError, OverflowError):
            return None
        return None
    if k == "call" and isinstance(e[1], str) and len(e[2]) == 1 and (e[1].endswith("::into") or e[1].endswith("::from") or e[1].endswith("::clone")):
        if e[1].endswith("::from") and "Square" in e[1]:
            return None
        return eval_expr(e[2][0], env, bits)
    return None


def strip_refs(e):
    while isinstance(e, tuple) and e[0] in ("ref", "deref"):
        e = e[1]
    return e


def strip_copies(e):
    """Remove reference/deref/copy-like wrappers that do not change the value: &, *, Clone::clone, Deref."""
    while isinstance(e, tuple):
        if e[0] in ("ref", "deref"):
            e = e[1]
        elif e[0] == "call" and isinstance(e[1], str) and len(e[2]) == 1 and (
                e[1].endswith("::clone") or e[1].endswith("::deref") or e[1].endswith("::copied")
                or e[1].endswith("::into") or e[1].endswith("::borrow") or e[1].endswith("::as_ref")):
            e = e[2][0]
        else:
            break
    return e


# ---------------------------------------------------------------------------------------- index

class Index:
    """All bodies, ADTs, consts and statics of one facts file, plus the crate call graph."""

    _serial = 0

    def __init__(self, facts):
        # caches kept outside the index are keyed by this number, never by id(): a worker that analyses several trees one
        # after another can see the id of a collected index again
        Index._serial += 1
        self.uid = Index._serial
        self.facts = facts
        self.bodies = {}
        for j in facts["bodies"]:
            # `a != b` calls the trait's default `ne` with Self in the substitutions: name it like `eq`
            for blk in j["blocks"]:
                t = blk["term"]
                if t.get("k") == "call" and t.get("callee") == "std::cmp::PartialEq::ne" and t.get("substs"):
                    t["callee"] = "<%s as std::cmp::PartialEq>::ne" % t["substs"][0]
        for j in facts["bodies"]:
            # const fn have one runtime body here (optimized_mir); promoted/static_init are keyed apart
            self.bodies[j["key"]] = Body(j)
        self.adts = {a["path"]: a for a in facts["adts"]}
        self.consts = {c["path"]: c for c in facts["consts"]}
        self.statics = {s["path"]: s for s in facts["statics"]}
        self._callers = None
        self._callees = None
        from . import roles
        roles.canonicalise(self)

    def body(self, key):
        b = self.bodies.get(key)
        if b is None:
            raise AnchorMissing("function " + key)
        return b

    def has(self, key):
        return key in self.bodies

    def const(self, path):
        c = self.consts.get(path)
        if c is None:
            raise AnchorMissing("const " + path)
        return c

    def adt(self, path):
        a = self.adts.get(path)
        if a is None:
            raise AnchorMissing("type " + path)
        return a

    def fn_bodies(self):
        return [b for b in self.bodies.values() if b.kind in ("fn", "closure")]

    def closures_of(self, key):
        return [b for b in self.bodies.values() if b.kind == "closure" and b.parent == key]

    # -- call graph -----------------------------------------------------------------------------
    def callees(self, key):
        """Crate-local callee keys of a body: resolved calls, all impls for unresolved trait calls,
        closures created in the body, and function items mentioned as values."""
        if self._callees is None:
            self._build_cg()
        return self._callees.get(key, set())

    def callers(self, key):
        if self._callers is None:
            self._build_cg()
        return self._callers.get(key, set())

    def impls_of_trait_method(self, decl):
        """Crate bodies implementing a trait method declared as `path::Trait::method`."""
        d = strip_generics(decl)
        parts = d.split("::")
        if len(parts) < 2:
            return []
        trait, method = "::".join(parts[:-1]), parts[-1]
        out = []
        for k in self.bodies:
            ks = strip_generics(k)
            m = re.match(r"^<(.+) as (.+)>::([A-Za-z0-9_]+)$", ks)
            if m and m.group(3) == method and (m.group(2) == trait or m.group(2).split("::")[-1] == trait.split("::")[-1]):
                out.append(k)
        if d in self.bodies:
            out.append(d)
        return out

    def call_targets(self, t):
        """Crate-local body keys a call terminator may reach."""
        if "indirect" in t:
            return []
        c = callee_name(t)
        out = []
        if c in self.bodies:
            out.append(c)
        if not t.get("resolved", True) or (t.get("trait") and c not in self.bodies and t.get("local")):
            for k in self.impls_of_trait_method(t.get("decl") or c):
                if k not in out:
                    out.append(k)
        return out

    def _build_cg(self):
        callees = defaultdict(set)
        for key, b in self.bodies.items():
            if b.kind not in ("fn", "closure", "promoted", "static_init"):
                continue
            for _bi, t in b.calls():
                for k in self.call_targets(t):
                    callees[key].add(k)
                # function items / closures passed as arguments
                for a in t.get("args", []):
                    c = a.get("const")
                    if c and "fn" in c and c["fn"] in self.bodies:
                        callees[key].add(c["fn"])
            for _bi, _i, s in b.stmts():
                rv = s["rv"]
                if rv["k"] == "agg" and rv.get("agg") == "closure" and rv["closure"] in self.bodies:
                    callees[key].add(rv["closure"])
                for o in _rv_operands(rv):
                    c = o.get("const")
                    if c and "fn" in c and c["fn"] in self.bodies:
                        callees[key].add(c["fn"])
        callers = defaultdict(set)
        for k, cs in callees.items():
            for c in cs:
                callers[c].add(k)
        self._callees = callees
        self._callers = callers

    def reachable(self, roots):
        seen = set()
        stack = list(roots)
        while stack:
            k = stack.pop()
            if k in seen:
                continue
            seen.add(k)
            stack.extend(self.callees(k))
        return seen


def _rv_operands(rv):
    k = rv["k"]
    if k in ("use", "cast", "unop", "repeat"):
        return [rv["a"]]
    if k == "binop":
        return [rv["a"], rv["b"]]
    if k == "agg":
        return rv["ops"]
    return []


def rv_operands(rv):
    return _rv_operands(rv)


# --------------------------------------------------------------------------------- pretty print

def dump_body(b, sym=False):
    out = ["fn %s  [%s:%d-%d] args=%d" % (b.key, b.file, b.line_lo, b.line_hi, b.arg_count)]
    for d in b.debug:
        v = d["val"]
        out.append("  debug %s => %s" % (d["name"], pstr(v) if "l" in v else v.get("const", {}).get("disp")))
    for blk in b.blocks:
        if blk.cleanup:
            continue
        out.append(" bb%d:" % blk.idx)
        for s in blk.stmts:
            out.append("    %s = %s   // L%s" % (pstr(s["lhs"]), rv_str(s["rv"]), s.get("line")))
        out.append("    -> %s   // L%s" % (term_str(blk.term), blk.term.get("line")))
    return "\n".join(out)


def opstr(o):
    if "const" in o:
        c = o["const"]
        if "fn" in c:
            return "fn " + c["fn"]
        if "str" in c:
            return repr(c["str"])
        if "static" in c:
            return "static " + c["static"]
        if "int" in c:
            return "%d_%s" % (c["int"], c["ty"])
        return "const " + str(c.get("disp"))
    if "copy" in o:
        return pstr(o["copy"])
    if "move" in o:
        return "move " + pstr(o["move"])
    return str(o)


def rv_str(rv):
    k = rv["k"]
    if k == "use":
        return opstr(rv["a"])
    if k == "ref":
        return ("&mut " if rv.get("mut") else "&") + pstr(rv["p"])
    if k == "binop":
        return "%s(%s, %s)" % (rv["op"], opstr(rv["a"]), opstr(rv["b"]))
    if k == "unop":
        return "%s(%s)" % (rv["op"], opstr(rv["a"]))
    if k == "cast":
        return "%s as %s (%s)" % (opstr(rv["a"]), rv["to"], rv["ck"])
    if k == "discr":
        return "discriminant(%s)" % pstr(rv["p"])
    if k == "agg":
        head = rv.get("adt", rv["agg"])
        if rv.get("variant"):
            head += "::" + rv["variant"]
        if rv["agg"] == "closure":
            head = "closure " + rv["closure"]
        return "%s{%s}" % (head, ", ".join(opstr(o) for o in rv["ops"]))
    if k == "repeat":
        return "[%s; %s]" % (opstr(rv["a"]), rv["n"])
    if k == "rawptr":
        return "&raw " + pstr(rv["p"])
    return "%s %s" % (k, rv.get("desc", ""))


def term_str(t):
    k = t["k"]
    if k == "goto":
        return "goto bb%d" % t["target"]
    if k == "switch":
        return "switch(%s) [%s, otherwise: bb%d]" % (opstr(t["discr"]), ", ".join("%d: bb%d" % (a[0], a[1]) for a in t["arms"]), t["otherwise"])
    if k == "call":
        c = t.get("callee") or "<indirect %s>" % opstr(t["indirect"])
        tgt = "bb%d" % t["target"] if t["target"] is not None else "!"
        flag = "" if t.get("resolved", True) else " [unresolved]"
        return "%s = %s(%s)%s -> %s%s" % (pstr(t["dest"]), c, ", ".join(opstr(a) for a in t["args"]), flag, tgt, " [exp]" if t.get("exp") else "")
    if k == "assert":
        return "assert(%s == %s, %s[%s]) -> bb%d" % (opstr(t["cond"]), t["expected"], t["akind"], ", ".join(opstr(a) for a in t["aops"]), t["target"])
    if k == "drop":
        return "drop(%s) -> bb%d" % (pstr(t["p"]), t["target"])
    return k
