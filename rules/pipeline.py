"""Iterator pipelines with new closures are the loops they abbreviate (DESIGN 6.7).

    (0..64u8).filter(|&s| P(s)).fold(init, |acc, s| F(acc, s))
    for square in (0..64u8).map(Square::from) { .. }
    plys.iter().for_each(|_| board.unmake_move())

is how a maintainer writes `for s in 0..64u8 { if !P(s) { continue } acc = F(acc, s) }`.  The rules read loops: a header
calling `next` on the source, a test of the result, a body.  This pass rewrites the facts of such a pipeline into that loop,
with the closures' bodies in place (same splicing as rules/expand.py), so that the same rules decide the same code.

Handled: sources of any type (the `next` of the source is called); adaptors `map`, `filter`, `copied`, `cloned`; consumers
`fold`, `for_each`, `find`, and the `for` loop itself over an adapted iterator.  Only pipelines that are new with
respect to the reference tree are rewritten (a new closure in them, or more such calls in the function than the reference
tree had: rules/known_closures.json); everything else stays as the compiler lowered it.
"""
from .expand import (_pl, _new_local, _agg, _closure_of, _bind_captures, _defs, _known, content_hash, OPTION, thread_variant_switches)
from .inline import _splice, _live, _fold_switches, _resolve_refs
from .mir import strip_generics

ADAPTORS = ("map", "filter", "filter_map", "copied", "cloned")
# `any` / `all` could be lowered the same way (the code below handles them) but are left as calls: a rule that meets one reads
# the predicate closure directly, which says more than an early-exit loop does
CONSUMERS = ("fold", "for_each", "find")


def _short(callee):
    c = strip_generics(callee or "")
    if "Iterator" not in c and "iter::" not in c:
        return None
    return c.rsplit("::", 1)[-1]


def next_callee(src_ty):
    t = src_ty.lstrip("&").replace("mut ", "")
    if t.startswith("std::ops::RangeInclusive<"):
        return "std::iter::range::<impl std::iter::Iterator for std::ops::RangeInclusive<A>>::next"
    if t.startswith("std::ops::Range<"):
        return "std::iter::range::<impl std::iter::Iterator for std::ops::Range<A>>::next"
    if t.startswith("std::slice::Iter<"):
        return "<std::slice::Iter<'a, T> as std::iter::Iterator>::next"
    if t.startswith("std::slice::IterMut<"):
        return "<std::slice::IterMut<'a, T> as std::iter::Iterator>::next"
    if t.startswith("std::array::IntoIter<"):
        return "<std::array::IntoIter<T, N> as std::iter::Iterator>::next"
    if t.startswith("std::vec::IntoIter<"):
        return "<std::vec::IntoIter<T, A> as std::iter::Iterator>::next"
    return "std::iter::Iterator::next"


def _call_defs(body, live):
    """local -> (block, term) of the one call whose destination it is."""
    out = {}
    n = {}
    for b in live:
        blk = body["blocks"][b]
        if blk["cleanup"]:
            continue
        for s in blk["stmts"]:
            if "lhs" in s and not s["lhs"]["p"]:
                n[s["lhs"]["l"]] = n.get(s["lhs"]["l"], 0) + 1
        t = blk["term"]
        if t["k"] == "call" and not t["dest"]["p"]:
            n[t["dest"]["l"]] = n.get(t["dest"]["l"], 0) + 1
            out[t["dest"]["l"]] = (b, t)
    return {l: v for l, v in out.items() if n.get(l) == 1}


def _chain(body, defs, cdefs, op):
    """Follow a receiver operand down its adaptors: ([(kind, fn operand or None, block of the adaptor call)], source operand)."""
    chain = []
    for _ in range(8):
        p = op.get("move") or op.get("copy")
        if p is None or p["p"]:
            break
        l = p["l"]
        if l in cdefs:
            b, t = cdefs[l]
            k = _short(t.get("callee"))
            if k in ADAPTORS and t["args"]:
                chain.append((k, t["args"][1] if len(t["args"]) > 1 else None, b))
                op = t["args"][0]
                continue
            break
        ds = defs.get(l, [])
        if len(ds) == 1 and ds[0].get("k") == "use":
            op = ds[0]["a"]      # a plain move of the iterator value
            continue
        break
    chain.reverse()
    return chain, op


class _Builder:
    def __init__(self, body, bodies, line):
        self.body, self.bodies, self.line = body, bodies, line
        self.blocks = body["blocks"]
        self.pending = []
        self.spliced = []

    def block(self, term=None):
        self.blocks.append({"stmts": [], "term": term or {"k": "unreachable", "line": self.line, "exp": False}, "cleanup": False})
        return len(self.blocks) - 1

    def stmt(self, bi, lhs, rv):
        self.blocks[bi]["stmts"].append({"lhs": lhs, "rv": rv, "line": self.line, "exp": False})

    def goto(self, bi, tgt):
        self.blocks[bi]["term"] = {"k": "goto", "target": tgt, "line": self.line, "exp": False}

    def switch_bool(self, bi, op, if_false, if_true):
        self.blocks[bi]["term"] = {"k": "switch", "discr": op, "discr_ty": "bool", "arms": [[0, if_false]], "otherwise": if_true, "line": self.line, "exp": False}

    def call(self, bi, fn, env, args, dest=None):
        """Terminate block bi by a call of the closure / fn item `fn` on args; returns (result place, continuation block)."""
        r = dest if dest is not None else _pl(_new_local(self.body))
        after = self.block()
        key = fn[1]
        a = list(args)
        if fn[0] == "closure":
            cb = self.bodies[key]
            env_ty = cb["locals"][1]["ty"] if len(cb["locals"]) > 1 else ""
            if env_ty.startswith("&"):
                e = _new_local(self.body, env_ty)
                envp = env.get("move") or env.get("copy")
                self.stmt(bi, _pl(e, ty=env_ty), {"k": "ref", "mut": env_ty.startswith("&mut"), "bk": "Shared", "p": envp})
                a = [{"move": _pl(e, ty=env_ty)}] + a
            else:
                a = [env] + a
        self.blocks[bi]["term"] = {"k": "call", "callee": key, "decl": key, "substs": [], "inst_substs": [], "resolved": True, "ikind": "Item",
                                   "local": key in self.bodies, "ret_never": False, "args": a, "dest": r, "target": after,
                                   "line": self.line, "exp": False, "fn_line": self.line, "expanded_from": "pipeline"}
        if fn[0] == "closure" and self.bodies[key].get("arg_count") == len(a):
            self.pending.append((bi, key, fn[2]))
            self.spliced.append(key)
        return r, after

    def finish(self):
        for bi, key, captured in self.pending:
            base_l = len(self.body["locals"])
            base_b = len(self.blocks)
            _splice(self.body, bi, self.bodies[key], "%s@%s" % (key, self.line))
            _bind_captures(self.body, base_l + 1, base_b, captured)


def _stages(bld, cur, x, chain, fns, skip_to):
    """Apply the adaptors to element place x starting in block cur; returns (block, element place)."""
    for (kind, fop, _b), f in zip(chain, fns):
        if kind == "map":
            r, cur = bld.call(cur, f[0], f[1], [{"move": x}])
            x = r
        elif kind == "filter":
            rr = _pl(_new_local(bld.body))
            bld.stmt(cur, rr, {"k": "ref", "mut": False, "bk": "Shared", "p": x})
            r, nxt = bld.call(cur, f[0], f[1], [{"move": rr}])
            keep = bld.block()
            bld.switch_bool(nxt, {"move": r}, skip_to, keep)
            cur = keep
        elif kind == "filter_map":
            r, nxt = bld.call(cur, f[0], f[1], [{"move": x}])
            d = _pl(_new_local(bld.body, "isize"), ty="isize")
            bld.stmt(nxt, d, {"k": "discr", "p": dict(r, ty=OPTION + "<?>")})
            keep = bld.block()
            un = bld.block()
            bld.blocks[nxt]["term"] = {"k": "switch", "discr": {"move": d}, "discr_ty": "isize", "arms": [[0, skip_to], [1, keep]], "otherwise": un, "line": bld.line, "exp": False}
            y = _pl(_new_local(bld.body))
            bld.stmt(keep, y, {"k": "use", "a": {"move": dict(r, p=list(r["p"]) + [{"d": "Some", "v": 1}, {"f": 0, "n": "0", "ty": "?"}])}})
            cur, x = keep, y
        elif kind in ("copied", "cloned"):
            y = _pl(_new_local(bld.body))
            bld.stmt(cur, y, {"k": "use", "a": {"copy": dict(x, p=list(x["p"]) + ["*"])}})
            x = y
    return cur, x


def _resolve_fns(body, defs, bodies, chain, extra_ops):
    fns = []
    for kind, fop, _b in chain:
        if kind in ("copied", "cloned"):
            fns.append(None)
            continue
        f, env = _closure_of(body, defs, fop, bodies) if fop is not None else (None, None)
        if f is None:
            return None
        fns.append((f, env))
    for fop in extra_ops:
        f, env = _closure_of(body, defs, fop, bodies)
        if f is None:
            return None
        fns.append((f, env))
    return fns


def _is_new(body, bodies, known, fns, names):
    owner = body["key"] if body["kind"] == "fn" else (body.get("parent") or body["key"])
    any_closure = False
    for x in fns:
        if x is None:
            continue
        f, _env = x
        if f[0] == "closure":
            any_closure = True
            cb = bodies[f[1]]
            if content_hash(cb) not in known["closures"].get(cb.get("parent") or owner, []):
                return True
    if any_closure:
        return False
    # no closure at all: new iff the function now has more such calls than the reference tree had
    ref = known.get("pipelines", {}).get(body["key"], {})
    now = {}
    for blk in body["blocks"]:
        k = _short(blk["term"].get("callee")) if blk["term"]["k"] == "call" else None
        if k:
            now[k] = now.get(k, 0) + 1
    return any(now.get(n, 0) > ref.get(n, 0) for n in names)


def lower_body(body, bodies, known, log):
    done = 0
    for _attempt in range(20):
        live = _live(body)
        defs = _defs(body, live)
        cdefs = _call_defs(body, live)
        site = None
        for bi in sorted(live):
            blk = body["blocks"][bi]
            t = blk["term"]
            if blk["cleanup"] or t["k"] != "call" or t.get("target") is None or not t.get("args"):
                continue
            k = _short(t.get("callee"))
            if k in CONSUMERS:
                chain, src = _chain(body, defs, cdefs, t["args"][0])
                sp = src.get("move") or src.get("copy")
                if sp is None or sp["p"]:
                    continue
                extra = [t["args"][-1]]
                fns = _resolve_fns(body, defs, bodies, chain, extra)
                if fns is None or not _is_new(body, bodies, known, fns, [k] + [c[0] for c in chain]):
                    continue
                site = ("consumer", bi, k, chain, src, fns)
                break
            if k == "next":
                # the header of a `for` loop over an adapted iterator
                rp = t["args"][0].get("move") or t["args"][0].get("copy")
                if rp is None or rp["p"]:
                    continue
                ds = defs.get(rp["l"], [])
                for _hop in range(3):
                    # `&mut *r` where r = &mut iter (a reborrow)
                    if len(ds) == 1 and ds[0].get("k") == "ref" and ds[0]["p"]["p"] == ["*"]:
                        ds = defs.get(ds[0]["p"]["l"], [])
                    else:
                        break
                if len(ds) != 1 or ds[0].get("k") != "ref" or ds[0]["p"]["p"]:
                    continue
                it = ds[0]["p"]["l"]
                ity = body["locals"][it]["ty"]
                if not (ity.startswith("std::iter::Map<") or ity.startswith("std::iter::Filter<") or ity.startswith("std::iter::FilterMap<") or ity.startswith("std::iter::Copied<") or ity.startswith("std::iter::Cloned<")):
                    continue
                # _it = move _a; _a = into_iter(move _m); _m = adaptor(...)
                op = {"move": _pl(it)}
                into_blocks = []
                p = op
                for _ in range(4):
                    q = p.get("move") or p.get("copy")
                    if q is None or q["p"]:
                        break
                    if q["l"] in cdefs and "into_iter" in (cdefs[q["l"]][1].get("callee") or ""):
                        into_blocks.append(cdefs[q["l"]][0])
                        p = cdefs[q["l"]][1]["args"][0]
                        continue
                    d2 = defs.get(q["l"], [])
                    if len(d2) == 1 and d2[0].get("k") == "use":
                        p = d2[0]["a"]
                        continue
                    break
                chain, src = _chain(body, defs, cdefs, p)
                sp = src.get("move") or src.get("copy")
                if not chain or not into_blocks or sp is None or sp["p"]:
                    continue
                fns = _resolve_fns(body, defs, bodies, chain, [])
                if fns is None or not _is_new(body, bodies, known, fns, [c[0] for c in chain]):
                    continue
                site = ("for", bi, into_blocks, chain, src, fns)
                break
        if site is None:
            break
        if site[0] == "consumer":
            sp = _lower_consumer(body, bodies, *site[1:])
            log.append({"function": body["key"], "pipeline": "%s -> %s" % (" -> ".join(c[0] for c in site[3]) or "source", site[2]), "closures": sp})
        else:
            sp = _lower_for(body, bodies, *site[1:])
            log.append({"function": body["key"], "pipeline": "for over %s" % " -> ".join(c[0] for c in site[3]), "closures": sp})
        done += 1
    return done


def _drop_calls(body, blocks_idx):
    for b in blocks_idx:
        t = body["blocks"][b]["term"]
        body["blocks"][b]["term"] = {"k": "goto", "target": t["target"], "line": t.get("line"), "exp": False, "dropped": strip_generics(t.get("callee") or "")}


def _header(bld, src_local, src_ty):
    """H: n = next(&mut src); switch discr(n) -> (header block, exit block placeholder, body block, element place)."""
    body = bld.body
    h = bld.block()
    r = _new_local(body, "&mut " + src_ty)
    n = _new_local(body, OPTION + "<?>")
    if src_ty.startswith("&"):
        # consumers that take `&mut self` (find) were handed a reference to the iterator: `next` is called through it
        bld.stmt(h, _pl(r), {"k": "use", "a": {"copy": _pl(src_local, ty=src_ty)}})
    else:
        bld.stmt(h, _pl(r), {"k": "ref", "mut": True, "bk": "Mut { kind: Default }", "p": _pl(src_local, ty=src_ty)})
    h2 = bld.block()
    nc = next_callee(src_ty)
    bld.blocks[h]["term"] = {"k": "call", "callee": nc, "decl": "std::iter::Iterator::next", "substs": [], "inst_substs": [], "resolved": True, "ikind": "Item",
                             "local": False, "trait": "std::iter::Iterator", "ret_never": False, "args": [{"move": _pl(r)}], "dest": _pl(n), "target": h2,
                             "line": bld.line, "exp": False, "fn_line": bld.line, "expanded_from": "pipeline"}
    d = _new_local(body, "isize")
    bld.stmt(h2, _pl(d, ty="isize"), {"k": "discr", "p": _pl(n, ty=OPTION + "<?>")})
    ex = bld.block()
    bd = bld.block()
    un = bld.block()
    bld.blocks[h2]["term"] = {"k": "switch", "discr": {"move": _pl(d, ty="isize")}, "discr_ty": "isize", "arms": [[0, ex], [1, bd]], "otherwise": un, "line": bld.line, "exp": False}
    x = _pl(_new_local(body))
    bld.stmt(bd, x, {"k": "use", "a": {"move": _pl(n, [{"d": "Some", "v": 1}, {"f": 0, "n": "0", "ty": "?"}])}})
    return h, ex, bd, x


def _lower_consumer(body, bodies, bi, kind, chain, src, fns):
    blk = body["blocks"][bi]
    t = blk["term"]
    line = t.get("line")
    dest, cont = t["dest"], t["target"]
    bld = _Builder(body, bodies, line)
    sp = src.get("move") or src.get("copy")
    src_ty = body["locals"][sp["l"]]["ty"]
    it = _new_local(body, src_ty)
    body["debug"].append({"name": "iter", "val": {"l": it, "p": []}, "arg": None, "synthetic": "pipeline"})   # what `for` calls it
    bld.stmt(bi, _pl(it, ty=src_ty), {"k": "use", "a": src})
    if kind == "fold":
        bld.stmt(bi, dest, {"k": "use", "a": t["args"][1]})
    h, ex, bd, x = _header(bld, it, src_ty)
    bld.goto(bi, h)
    cur, x = _stages(bld, bd, x, chain, fns[:len(chain)], h)
    f, env = fns[-1]
    if kind == "fold":
        _r, after = bld.call(cur, f, env, [{"move": dest}, {"move": x}], dest=dest)
        bld.goto(after, h)
        bld.goto(ex, cont)
    elif kind == "for_each":
        _r, after = bld.call(cur, f, env, [{"move": x}])
        bld.goto(after, h)
        bld.stmt(ex, dest, {"k": "use", "a": {"const": {"ty": "()", "disp": "()", "zst": True}}})
        bld.goto(ex, cont)
    elif kind == "find":
        # the first element the predicate accepts (it looks at `&x`), or None when the source is exhausted
        rr = _pl(_new_local(body))
        bld.stmt(cur, rr, {"k": "ref", "mut": False, "bk": "Shared", "p": x})
        r, after = bld.call(cur, f, env, [{"move": rr}])
        hit = bld.block()
        bld.stmt(hit, dest, _agg(OPTION, "Some", [{"move": x}]))
        bld.goto(hit, cont)
        bld.switch_bool(after, {"move": r}, h, hit)
        bld.stmt(ex, dest, _agg(OPTION, "None", []))
        bld.goto(ex, cont)
    else:
        r, after = bld.call(cur, f, env, [{"move": x}])
        hit = bld.block()
        early = kind == "any"
        bld.stmt(hit, dest, {"k": "use", "a": {"const": {"ty": "bool", "disp": str(early).lower(), "bits": str(int(early)), "size": 1, "int": int(early)}}})
        bld.goto(hit, cont)
        if early:
            bld.switch_bool(after, {"move": r}, h, hit)
        else:
            bld.switch_bool(after, {"move": r}, hit, h)
        bld.stmt(ex, dest, {"k": "use", "a": {"const": {"ty": "bool", "disp": str(not early).lower(), "bits": str(int(not early)), "size": 1, "int": int(not early)}}})
        bld.goto(ex, cont)
    _drop_calls(body, [c[2] for c in chain])
    bld.finish()
    return bld.spliced


def _lower_for(body, bodies, bi, into_blocks, chain, src, fns):
    """bi: the block calling next on the adapted iterator; its destination becomes Some(adapted element) / None."""
    blk = body["blocks"][bi]
    t = blk["term"]
    line = t.get("line")
    dest, cont = t["dest"], t["target"]
    bld = _Builder(body, bodies, line)
    sp = src.get("move") or src.get("copy")
    src_ty = body["locals"][sp["l"]]["ty"]
    it = _new_local(body, src_ty)
    body["debug"].append({"name": "iter", "val": {"l": it, "p": []}, "arg": None, "synthetic": "pipeline"})
    # the source is kept where the first adaptor was applied
    first = body["blocks"][chain[0][2]]
    first["stmts"].append({"lhs": _pl(it, ty=src_ty), "rv": {"k": "use", "a": src}, "line": line, "exp": False})
    h, ex, bd, x = _header(bld, it, src_ty)
    # the old header block keeps its statements (the `&mut iter` temporary is now unused) and enters the new header
    bld.goto(bi, h)
    cur, x = _stages(bld, bd, x, chain, fns, h)
    bld.stmt(cur, dest, _agg(OPTION, "Some", [{"move": x}]))
    bld.goto(cur, cont)
    bld.stmt(ex, dest, _agg(OPTION, "None", []))
    bld.goto(ex, cont)
    _drop_calls(body, [c[2] for c in chain] + list(into_blocks))
    bld.finish()
    return bld.spliced


def reference_pipelines(facts):
    out = {}
    for j in facts["bodies"]:
        if j["kind"] not in ("fn", "closure"):
            continue
        for blk in j["blocks"]:
            t = blk["term"]
            k = _short(t.get("callee")) if t["k"] == "call" else None
            if k in ADAPTORS or k in CONSUMERS:
                out.setdefault(j["key"], {})
                out[j["key"]][k] = out[j["key"]].get(k, 0) + 1
    return out


def apply(facts):
    known = _known()
    bodies = {j["key"]: j for j in facts["bodies"]}
    adts = {a["path"]: a for a in facts["adts"]}
    log = []
    for j in facts["bodies"]:
        if j["kind"] not in ("fn", "closure"):
            continue
        n0 = len(log)
        lower_body(j, bodies, known, log)
        if len(log) > n0:
            _fold_switches(j, adts)
            thread_variant_switches(j, adts)   # `elem = Some(f(x))` continues in the loop body's `Some` arm
            _resolve_refs(j)
    gone = {k for e in log for k in e.get("closures", [])}
    for j in facts["bodies"]:
        if j.get("parent") in gone:
            j["parent"] = bodies[j["parent"]].get("parent")
    facts["bodies"] = [j for j in facts["bodies"] if j["key"] not in gone]
    facts["pipelines_lowered"] = log
    return log
