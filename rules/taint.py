"""Where does a piece of user-controlled text go?  A small forward flow analysis over the MIR of one function and the closures
it builds: locals that hold the text (or a reference to it, or an owned copy of it) are followed through copies, reborrows,
identity conversions and closure captures; every other use is reported unless it is a comparison of the text with another
string.  Comparing text cannot panic and reveals nothing but equality: a function that only compares its text argument
behaves the same for every string that is not one of the strings it is compared with."""
from . import mir

COMPARE = ("::eq", "::ne")
# the text again (borrowed or owned), never a panic
PASS_THROUGH = ("::deref", "::as_str", "::as_ref", "::borrow", "::to_string", "::to_owned", "::clone", "::into", "String::from", "::from", "::as_bytes_never")
FORMATTING = ("Argument<'_>::new_display", "Argument::new_display", "Argument<'_>::new_debug", "Argument::new_debug")


def _root(op):
    if not isinstance(op, dict):
        return None
    p = op.get("copy") or op.get("move")
    return p


def _is_text_place(p, tainted, env_fields):
    """Is place `p` the text itself (any number of derefs of a tainted local, or a tainted capture of the closure env)?"""
    if p is None:
        return False
    proj = [x for x in p["p"] if x != "*"]
    if p["l"] in tainted and not proj:
        return True
    if env_fields is not None and p["l"] == 1 and len(proj) == 1 and isinstance(proj[0], dict) and proj[0].get("f") in env_fields:
        return True
    return False


def _touches(p, tainted, env_fields):
    """Does place `p` read from tainted storage at all (also through an index or a field)?"""
    if p is None:
        return False
    if p["l"] in tainted:
        return True
    if env_fields is not None and p["l"] == 1:
        proj = [x for x in p["p"] if x != "*"]
        return bool(proj) and isinstance(proj[0], dict) and proj[0].get("f") in env_fields
    return False


def text_uses(ix, body, tainted, env_fields=None, depth=0, stats=None):
    """Uses of the text held in `tainted` locals of `body` (and, for a closure body, in captures `env_fields` of its
    environment) other than comparisons, copies and captures.  Returns [(body, block, description)]."""
    tainted = set(tainted)
    out = []
    stats = stats if stats is not None else {}
    stats.setdefault("compares", 0)
    stats.setdefault("bodies", set()).add(body.key)
    if depth > 3:
        return [(body, 0, "closure nesting too deep to follow")]
    live = body.live_blocks()
    changed = True
    rounds = 0
    closures = {}      # local holding a closure -> (closure key, tainted capture indices)
    while changed and rounds < 20:
        changed = False
        rounds += 1
        for blk in body.blocks:
            if blk.cleanup or blk.idx not in live:
                continue
            for s in blk.stmts:
                rv, lhs = s["rv"], s["lhs"]
                k = rv.get("k")
                srcs = []
                if k == "use":
                    srcs = [_root(rv["a"])]
                elif k in ("ref", "rawptr"):
                    srcs = [rv["p"]]
                elif k == "cast" and rv.get("ck", "").startswith("PointerCoercion") or k == "cast" and rv.get("ck") in ("Transmute", "PtrToPtr"):
                    srcs = [_root(rv["a"])]
                if srcs and all(_is_text_place(p, tainted, env_fields) for p in srcs) and mir.is_local(lhs) and lhs["l"] not in tainted:
                    tainted.add(lhs["l"])
                    changed = True
                if k == "agg" and rv.get("agg") == "closure":
                    idx = {i for i, o in enumerate(rv["ops"]) if _is_text_place(_root(o), tainted, env_fields)}
                    if idx and mir.is_local(lhs) and closures.get(lhs["l"]) != (rv["closure"], idx):
                        closures[lhs["l"]] = (rv["closure"], idx)
                        changed = True
            t = blk.term
            if t["k"] == "call":
                callee = t.get("callee") or ""
                args = [_root(a) for a in t["args"]]
                if any(_is_text_place(a, tainted, env_fields) for a in args) and any(callee.endswith(x) for x in PASS_THROUGH) and not any(callee.endswith(x) for x in COMPARE):
                    if mir.is_local(t["dest"]) and t["dest"]["l"] not in tainted and ("str" in t["dest"]["ty"] or "String" in t["dest"]["ty"]):
                        tainted.add(t["dest"]["l"])
                        changed = True
    # report
    for blk in body.blocks:
        if blk.cleanup or blk.idx not in live:
            continue
        for s in blk.stmts:
            rv, lhs = s["rv"], s["lhs"]
            k = rv.get("k")
            ops = [_root(o) for o in mir.rv_operands(rv)] + ([rv["p"]] if k in ("ref", "rawptr", "len", "discr") and "p" in rv else [])
            hit = [p for p in ops if _touches(p, tainted, env_fields)]
            if not hit:
                continue
            benign = (k in ("use", "ref", "rawptr") or (k == "cast" and (rv.get("ck", "").startswith("PointerCoercion") or rv.get("ck") in ("Transmute", "PtrToPtr")))) and all(_is_text_place(p, tainted, env_fields) for p in hit)
            benign = benign or (k == "agg" and rv.get("agg") == "closure")
            benign = benign or (k == "agg" and rv.get("agg") in ("array", "tuple") and blk.term.get("exp") is not None and all(_is_text_place(p, tainted, env_fields) for p in hit) and _only_formatting(body, lhs))
            if not benign:
                out.append((body, blk.idx, "the text is used in `%s` (%s)" % (k, s.get("line"))))
        t = blk.term
        if t["k"] == "call":
            callee = t.get("callee") or ""
            args = [_root(a) for a in t["args"]]
            if any(_touches(a, tainted, env_fields) for a in args):
                if any(callee.endswith(x) for x in COMPARE) and "PartialEq" in callee:
                    stats["compares"] += 1
                    continue
                if any(callee.endswith(x) for x in PASS_THROUGH) and all(_is_text_place(a, tainted, env_fields) for a in args if _touches(a, tainted, env_fields)):
                    continue
                if any(x in callee for x in FORMATTING):
                    continue
                out.append((body, blk.idx, "the text is handed to %s" % callee))
            for a in args:
                if a is not None and mir.is_local(a) and a["l"] in closures:
                    ck, idx = closures[a["l"]]
                    cb = ix.bodies.get(ck)
                    if cb is None:
                        out.append((body, blk.idx, "the text is captured by a closure that cannot be read"))
                    else:
                        out += text_uses(ix, cb, set(), env_fields=idx, depth=depth + 1, stats=stats)
        elif t["k"] in ("switch", "assert"):
            p = _root(t.get("discr") or t.get("cond"))
            if _touches(p, tainted, env_fields):
                out.append((body, blk.idx, "a branch depends on the text directly"))
    # a closure that captures the text but is never passed anywhere is dead weight, not a use
    seen = set()
    res = []
    for b, bi, w in out:
        if (b.key, bi, w) not in seen:
            seen.add((b.key, bi, w))
            res.append((b, bi, w))
    return res


def _only_formatting(body, lhs):
    return False
