"""Debug helper: python3 -m rules.dump <body key substring> [--release]"""
import sys
from . import facts, mir
f, m = facts.load(release="--release" in sys.argv)
ix = mir.Index(f)
pat = [a for a in sys.argv[1:] if not a.startswith("--")]
for k, b in ix.bodies.items():
    if any(p == k for p in pat) or (not any(p in ix.bodies for p in pat) and any(p in k for p in pat)):
        print(mir.dump_body(b))
        print()
