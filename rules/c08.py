"""C08  The UCI position command sets up exactly the described game, or nothing  (DESIGN 3, C08)."""
from . import engine, mir, bounds
from . import common as C
from . import c10, c15
from .c02 import eff
from .c06 import ceval
from .mir import expr_str, walk, callee_is, const_int, op_place, strip_generics, fields_of

PROP = "C08"
LOAD = "uci::Uci::load_position"
EXEC = "uci::Uci::execute_command"
PARSE_POS = "uci::uci_command::UCICommand::parse_position"
FIND = "board::Board::find_move"
NOTATION = "board::ply::Ply::to_notation"
POSKIND = "uci::uci_command::PositionKind"


def reads_self_board(b):
    """Blocks that read self.board (as opposed to overwriting it)."""
    out = []
    for bi, i, s in b.stmts():
        rv = s["rv"]
        ops = mir.rv_operands(rv)
        places = [op_place(o) for o in ops if op_place(o) is not None]
        if rv.get("k") in ("ref", "discr", "rawptr"):
            places.append(rv["p"])
        for p in places:
            if p["l"] == 1 and fields_of(p)[:1] == ("board",):
                out.append(bi)
    for bi, t in b.calls():
        for a in t.get("args", []):
            p = op_place(a)
            if p is not None and p["l"] == 1 and fields_of(p)[:1] == ("board",):
                out.append(bi)
    return out


def rule_fresh(ctx):
    """The new position is built from scratch (never from the session's current board)."""
    ix = ctx.ix
    b = ctx.body(LOAD)
    sym = ctx.sym(b)
    rd = reads_self_board(b)
    ctx.check(not rd, "load_position:never-reads-session-board", "load_position never reads self.board: the result cannot depend on anything sent earlier", b.where(rd[0] if rd else 0),
              bad_what="load_position reads self.board (lines %s): the new position depends on the session's previous one" % sorted({b.blocks[x].term["line"] for x in rd}))
    # the scratch board's two sources by PositionKind
    scratch = None
    rows = {}
    for bi, t in b.calls():
        if callee_is(t, "board::boardbuilder::BoardBuilder::build", "board::serialize::<impl board::Board>::from_fen") and mir.is_local(t["dest"]):
            cons = C.constraints_for(ix, b, sym, bi)
            kind = [next(iter(c[1])) for c in cons if c[0].startswith("discr(") and len(c[1]) == 1 and next(iter(c[1])) in ("StartPos", "Fen")]
            src = expr_str(sym.operand(t["args"][0]))
            rows[kind[-1] if kind else None] = (strip_generics(t["callee"]).split("::")[-1], src)
            scratch = t["dest"]["l"] if scratch in (None, t["dest"]["l"]) else -1
    ok = set(rows) == {"StartPos", "Fen"} and rows["StartPos"][0] == "build" and "construct_starting_board" in rows["StartPos"][1] and rows["Fen"][0] == "from_fen" and "fen" in rows["Fen"][1]
    ctx.check(ok and scratch not in (None, -1), "load_position:scratch-board-sources", "StartPos -> construct_starting_board().build(); Fen{fen} -> Board::from_fen(fen); both into one scratch board", b.where(0),
              bad_what="the scratch board is built as %s" % rows)
    return scratch


def rule_commit(ctx):
    """All-or-nothing: the only write to self is `self.board = <scratch board>`, on every Ok path and on no Err path."""
    ix = ctx.ix
    b = ctx.body(LOAD)
    sym = ctx.sym(b)
    e = eff(ix)
    ws = sorted({p[0] for (p, how) in e.writes(LOAD) if p})
    ctx.check(ws == ["board"], "load_position:writes-only-self.board", "load_position writes nothing of self but `board`", b.where(0), bad_what="load_position writes self.%s" % ws)
    asg = [(bi, s) for bi, i, s in b.stmts() if s["lhs"]["l"] == 1 and fields_of(s["lhs"]) == ("board",)]
    ctx.check(len(asg) == 1, "load_position:one-commit", "self.board is assigned at one place", b.where(asg[0][0] if asg else 0), bad_what="self.board is assigned at %d places" % len(asg))
    if len(asg) != 1:
        return
    cb, s = asg[0]
    errs = c10.err_return_blocks(b)
    oks = {bi for bi, i, s2 in b.stmts() if mir.is_local(s2["lhs"]) and s2["lhs"]["l"] == 0 and s2["rv"].get("k") == "agg" and s2["rv"].get("variant") == "Ok"}
    # no Err return is reachable after the commit, and the commit is not reachable after an Err was decided
    after = b.reachable_from(cb, include_start=True)
    ctx.check(not (errs & after), "load_position:no-error-after-commit", "no Err return is reachable once self.board has been assigned", b.where(cb), bad_what="load_position can return Err after it has already replaced self.board")
    ctx.check(all(b.dominates(cb, o) or cb == o for o in oks) and oks, "load_position:ok-implies-commit", "every Ok return is preceded by the assignment", b.where(cb), bad_what="load_position can return Ok without installing the new board")
    ctx.check(not b.in_loop(cb), "load_position:commit-after-loop", "the assignment happens once, after all moves were applied", b.where(cb), bad_what="self.board is assigned inside the move loop: a later illegal move leaves a half-applied position")
    # the value committed is the scratch board
    v = sym.rvalue(s["rv"])
    ctx.check(v[0] == "var" and v[1] == "board", "load_position:commits-scratch-board", "the committed value is the scratch board", b.where(cb), bad_what="the committed value is `%s`" % expr_str(v))
    # an unknown move leads to Err (not to silently skipping / stopping)
    finds = [(bi, t) for bi, t in b.calls() if callee_is(t, FIND)]
    for bi, t in finds:
        nxt = t["target"]
        blk = b.blocks[nxt]
        ok = False
        if blk.term["k"] == "switch":
            verdicts = []
            for a in [(x[0], x[1]) for x in blk.term["arms"]] + [("otherwise", blk.term["otherwise"])]:
                if b.blocks[a[1]].term["k"] == "unreachable" and not b.blocks[a[1]].stmts:
                    continue  # the `_ => unreachable` edge of an exhaustive match
                reach = b.threaded_reach(a[1])   # follows a value built as Err(..) through the `?` that inspects it
                is_err_edge = a[0] == 1 or (a[0] == "otherwise" and 0 in [x[0] for x in blk.term["arms"]])
                if is_err_edge:
                    verdicts.append(bool(errs & reach) and cb not in reach)
            ok = bool(verdicts) and all(verdicts)
        ctx.check(ok, "load_position:unknown-move-refuses-command", "a move that find_move rejects leads to an Err return that bypasses the commit", b.where(bi),
                  bad_what="a rejected move does not abort the whole command (the loop breaks or continues, and the position is still replaced)")


def rule_apply(ctx):
    """Each token is matched against the legal moves by exact notation equality and the matched move is what is played."""
    ix = ctx.ix
    b = ctx.body(LOAD)
    sym = ctx.sym(b)
    makes = [(bi, t) for bi, t in b.calls() if callee_is(t, "board::Board::make_move")]
    finds = [(bi, t) for bi, t in b.calls() if callee_is(t, FIND)]
    ctx.check(len(makes) == 1 and len(finds) == 1, "load_position:one-find-one-make", "one find_move and one make_move per token", b.where(0), bad_what="%d find_move / %d make_move sites" % (len(finds), len(makes)))
    if len(makes) == 1 and len(finds) == 1:
        mb, mt = makes[0]
        fb, ft = finds[0]
        mv = sym.operand(mt["args"][1])
        ok = mv[0] == "field" and mv[-1] == "0" and mv[1][0] == "as" and mv[1][2] == "Ok" and mv[1][1][0] == "call" and mv[1][1][1] == FIND
        same_board = mir.strip_refs(sym.operand(mt["args"][0])) == mir.strip_refs(sym.operand(ft["args"][0])) == ("var", "board")
        tok = sym.operand(ft["args"][1])
        from_loop = any(isinstance(x, tuple) and x[0] == "as" and x[2] == "Some" and "next" in expr_str(x[1]) for x in walk(tok))
        ctx.check(ok and same_board and from_loop and b.dominates(fb, mb), "load_position:plays-the-found-move", "make_move(board, m) where Ok(m) = board.find_move(<this token>) on the same scratch board", b.where(mb),
                  bad_what="the move played is `%s` on `%s` (token `%s`): not the move find_move matched for this token on the scratch board" % (expr_str(mv)[:80], expr_str(sym.operand(mt["args"][0])), expr_str(tok)[:60]))
        # tokens come from the `moves` argument in order (into_iter of the Vec)
        it = None
        for x in walk(tok):
            if isinstance(x, tuple) and x[0] == "var":
                it = sym.expand_var(x)
        ctx.check(it is not None and "into_iter" in expr_str(it) and "moves" in expr_str(it), "load_position:all-tokens-in-order", "the loop runs over every element of `moves` in order", b.where(fb), bad_what="the move loop does not iterate `moves` (%s)" % (expr_str(it)[:80] if it else None))
    fm = ctx.body(FIND)
    fsym = ctx.sym(fm)
    r = fsym.local(0)
    txt = expr_str(r)
    chain = [strip_generics(t.get("callee") or "").split("::")[-1] for _b, t in fm.calls()]
    ok = "get_legal_moves" in txt and "find" in chain and "ok_or" in chain and not any(c in chain for c in ("filter", "skip", "rev", "last", "position", "nth"))
    ctx.check(ok, "find_move:first-legal-move-matching", "find_move = get_legal_moves().into_iter().find(pred).ok_or(..)", fm.where(0), bad_what="find_move is `%s`" % txt[:160])
    preds = ix.closures_of(FIND)
    okp = False
    detail = "(no predicate closure passed to find)"
    for cb in preds:
        csym = mir.Sym(cb, ix)
        rr = csym.local(0)
        ctx.functions.add(cb.key)
        if rr[0] == "call" and (rr[1].endswith("PartialEq<str>>::eq") or rr[1].endswith("PartialEq<&str>>::eq") or rr[1].endswith("PartialEq>::eq") or "PartialEq" in rr[1] and rr[1].endswith("::eq")):
            a0, a1 = expr_str(rr[2][0]), expr_str(rr[2][1])
            okp = "to_notation" in a0 + a1 and "notation" in a0 + a1
            detail = rr[1]
        else:
            detail = expr_str(rr)[:100]
    ctx.check(okp, "find_move:exact-equality", "the predicate is `m.to_notation() == notation` (equality, not a prefix or substring test)", fm.where(0),
              bad_what="find_move's predicate is `%s`: a move string is accepted without naming that move exactly (e.g. e7e8 matching e7e8q)" % detail)


def rule_suffix(ctx):
    ix = ctx.ix
    b = ctx.body(NOTATION)
    sym = ctx.sym(b)
    table = {}
    for bi, t in b.calls():
        if callee_is(t, "std::string::String::push"):
            ch = const_int(t["args"][1])
            cons = C.constraints_for(ix, b, sym, bi)
            kinds = [next(iter(c[1])) for c in cons if c[0].startswith("discr(") and len(c[1]) == 1 and next(iter(c[1])) in ("Queen", "Rook", "Bishop", "Knight", "Pawn", "King")]
            some = any("promoted_to" in c[0] and "Some" in c[1] for c in cons)
            if kinds and some and ch is not None:
                table[kinds[-1]] = chr(ch)
    ctx.check(table == {"Queen": "q", "Rook": "r", "Bishop": "b", "Knight": "n"}, "to_notation:promotion-suffix", "promotion suffix: Queen q, Rook r, Bishop b, Knight n (only when promoted_to is Some)", b.where(0),
              bad_what="promotion suffix table is %s" % table)
    fm = [t for _b, t in b.calls() if callee_is(t, "std::fmt::format", "*::fmt::format")]
    base = None
    for bi, i, s in b.stmts():
        pass
    txt = " ".join(expr_str(sym.operand(a)) for _b, t in b.calls() if callee_is(t, "*Argument<'_>::new_display", "core::fmt::rt::Argument::new_display") for a in t["args"])
    order = [x for x in ("start", "dest") if x in txt]
    pos = (txt.find("start"), txt.find("dest"))
    ctx.check(pos[0] != -1 and pos[1] != -1 and pos[0] < pos[1], "to_notation:start-then-dest", "the notation starts with {start}{dest}", b.where(0), bad_what="to_notation formats `%s`" % txt[:100])
    # Square's Display: file letter then rank digit
    sd = ctx.body("<board::square::Square as std::fmt::Display>::fmt")
    ssym = ctx.sym(sd)
    t2 = " ".join(expr_str(ssym.operand(a)) for _b, t in sd.calls() if callee_is(t, "*Argument<'_>::new_display", "core::fmt::rt::Argument::new_display") for a in t["args"])
    ctx.check("97" in t2 and "file" in t2 and "rank" in t2 and t2.find("file") < t2.rfind("rank"), "Square::fmt:file-letter-then-rank", "a square prints as ('a' + file)(rank + 1)", sd.where(0), bad_what="Square's Display formats `%s`" % t2[:120])


def rule_tokens(ctx):
    """parse_position: which tokens are the FEN and which the moves."""
    ix = ctx.ix
    b = ctx.body(PARSE_POS)
    sym = ctx.sym(b)
    res = bounds.Resolver(b, ix)
    rows = {}
    for bi, t in b.calls():
        if callee_is(t, "*::index") and "Index" in (t.get("decl") or "") and len(t["args"]) == 2:
            rng = c15.range_terms(res, b, t["args"][1])
            if rng is None:
                continue
            lo, hi, kind = rng
            cons = C.constraints_for(ix, b, sym, bi)
            ctxs = []
            for c in cons:
                if c[0].startswith("discr(") and len(c[1]) == 1 and next(iter(c[1])) in ("StartPos", "Fen"):
                    ctxs.append(next(iter(c[1])))
            if not ctxs:
                # the `match kind` may have been threaded away (kind is built a few lines above, in the arm that recognised the
                # keyword): then the slice is dominated by the block that built that kind
                for vb, vi, vs in b.stmts():
                    if vs["rv"].get("k") == "agg" and vs["rv"].get("adt") == POSKIND and vs["rv"].get("variant") in ("StartPos", "Fen") and b.dominates(vb, bi):
                        ctxs.append(vs["rv"]["variant"])
            kw = [s for c in cons for s in [x[1] for x in walk(c[3]) if isinstance(x, tuple) and x[0] == "const" and isinstance(x[1], str)] if True in c[1]]
            kwi = []
            for c in cons:
                if c[3][0] == "call" and "eq" in c[3][1] and True in c[1]:
                    idxs = [ceval(y[2]) for y in walk(c[3]) if isinstance(y, tuple) and y[0] == "index"]
                    # `match args.get(i) { Some(&"moves") .. }`: the same token, read with get
                    idxs += [ceval(y[2][1]) for y in walk(c[3]) if isinstance(y, tuple) and y[0] == "call" and isinstance(y[1], str) and y[1].endswith("]>::get") and len(y[2]) == 2 and ceval(y[2][1]) is not None]
                    strs = [x[1] for x in walk(c[3]) if isinstance(x, tuple) and x[0] == "const" and isinstance(x[1], str)]
                    kwi.append((idxs[0] if idxs else None, strs[0] if strs else None))
            where = ctxs[-1] if ctxs else ("fen-slice" if hi is not None else None)
            # which argument-list lengths reach this slice: every test of args.len() against a constant on the way
            admitted = []
            for L in range(0, 24):
                okL = True
                for c in cons:
                    e = c[3]
                    if e[0] == "call" and e[1].endswith("<impl [T]>::is_empty") and "args" in c[0]:
                        okL = okL and ((L == 0) in c[1])
                    elif e[0] == "bin" and e[1] in ("Lt", "Le", "Gt", "Ge", "Eq", "Ne"):
                        sides = [mir.strip_copies(e[2]), mir.strip_copies(e[3])]
                        isl = [x[0] == "call" and x[1].endswith("<impl [T]>::len") and "args" in expr_str(x) for x in sides]
                        k = [ceval(x) for x in sides]
                        if isl[0] and k[1] is not None:
                            a, bb_ = L, k[1]
                        elif isl[1] and k[0] is not None:
                            a, bb_ = k[0], L
                        else:
                            continue
                        v = {"Lt": a < bb_, "Le": a <= bb_, "Gt": a > bb_, "Ge": a >= bb_, "Eq": a == bb_, "Ne": a != bb_}[e[1]]
                        okL = okL and (v in c[1])
                if okL:
                    admitted.append(L)
            rows.setdefault(where, []).append(((lo[1] if lo and lo[0] is None else None), (hi[1] if hi and hi[0] is None else None), kwi, admitted))
    # a command that names a position is never refused: `position startpos ...` always parses, `position fen` with six
    # fields always parses (a pre-check that turns some FENs away is a second loader whose verdicts nothing here decides)
    def admitted_lengths(cons):
        out = []
        for L in range(0, 24):
            okL = True
            for c in cons:
                e = c[3]
                if e[0] == "call" and e[1].endswith("<impl [T]>::is_empty") and "args" in c[0]:
                    okL = okL and ((L == 0) in c[1])
                elif e[0] == "bin" and e[1] in ("Lt", "Le", "Gt", "Ge", "Eq", "Ne"):
                    sides = [mir.strip_copies(e[2]), mir.strip_copies(e[3])]
                    isl = [x[0] == "call" and x[1].endswith("<impl [T]>::len") and "args" in expr_str(x) for x in sides]
                    k = [ceval(x) for x in sides]
                    if isl[0] and k[1] is not None:
                        a, bb_ = L, k[1]
                    elif isl[1] and k[0] is not None:
                        a, bb_ = k[0], L
                    else:
                        continue
                    v = {"Lt": a < bb_, "Le": a <= bb_, "Gt": a > bb_, "Ge": a >= bb_, "Eq": a == bb_, "Ne": a != bb_}[e[1]]
                    okL = okL and (v in c[1])
            if okL:
                out.append(L)
        return out
    refused = []
    n_err = 0
    for bi, i, st in b.stmts():
        rv = st["rv"]
        if not (rv.get("k") == "agg" and rv.get("adt") == "std::result::Result" and rv.get("variant") == "Err"):
            continue
        n_err += 1
        cons = C.constraints_for(ix, b, sym, bi)
        kws = [x[1] for c in cons if c[3][0] == "call" and "eq" in c[3][1] and True in c[1] for x in walk(c[3]) if isinstance(x, tuple) and x[0] == "const" and isinstance(x[1], str)]
        adm = admitted_lengths(cons)
        if "fen" in kws and any(L >= 7 for L in adm):
            refused.append((bi, "a `position fen` command with six FEN fields"))
        elif "startpos" in kws and any(L >= 1 for L in adm):
            refused.append((bi, "a `position startpos` command"))
    ctx.check(n_err >= 1 and not refused, "parse_position:never-refuses-a-named-position", "parse_position returns Err only for a missing / unknown keyword or fewer than six FEN fields (%d Err site(s))" % n_err, b.where(refused[0][0] if refused else 0),
              bad_what="parse_position can refuse %s (%s): which positions it turns away is not decided here, and a valid one may be among them" % (refused[0][1] if refused else "?", ", ".join(b.where(x) for x, _w in refused[:3])))
    fen = [r for r in rows.get("fen-slice", []) + rows.get(None, []) if r[1] is not None]
    ctx.check(any(r[0] == 1 and r[1] == 7 for r in fen), "parse_position:fen-is-args[1..7]", "the FEN is tokens 1..7 (six fields)", b.where(0), bad_what="FEN slice(s): %s" % [(r[0], r[1]) for r in fen])
    sp = rows.get("StartPos", [])
    ctx.check(any(r[0] == 2 and r[1] is None and (1, "moves") in r[2] for r in sp), "parse_position:startpos-moves-from-2", "startpos: moves are tokens 2.. iff token 1 is `moves`", b.where(0), bad_what="startpos move slice(s): %s" % sp)
    fe = rows.get("Fen", [])
    ctx.check(any(r[0] == 8 and r[1] is None and (7, "moves") in r[2] for r in fe), "parse_position:fen-moves-from-8", "fen: moves are tokens 8.. iff token 7 is `moves`", b.where(0), bad_what="fen move slice(s): %s" % [r[:3] for r in fe])
    # ... for every number of moves: a length test in front of the slice may only exclude lists without a move
    for name, rs, start in (("startpos", sp, 2), ("fen", fe, 8)):
        rr = [r for r in rs if r[0] == start and r[1] is None]
        lost = sorted(L for L in range(start + 1, 24) if rr and not any(L in r[3] for r in rr))
        ctx.check(bool(rr) and not lost, "parse_position:%s-every-move-count" % name, "%s: the move slice is taken for every list with at least one move (lengths %d.. reach it)" % (name, start + 1), b.where(0),
                  bad_what="%s: a `moves` list is silently dropped when the command has %s tokens after `position` (a length test in front of the slice excludes it): the board then misses those moves" % (name, lost[:4]))
    # the move tokens reach the command as they were written: Position.moves is None or Some(the slice's tokens, each
    # converted to an owned string by an identity conversion, in order)
    def is_conv(name):
        # str -> String by a std conversion that keeps the text: to_string / to_owned / String::from / into / clone
        last = (name or "").rsplit("::", 1)[-1]
        return (last == "to_string" and "ToString" in name) or (last == "to_owned" and "ToOwned" in name) or (last == "from" and "String as std::convert::From<&str>" in name) \
            or (last == "into" and "std::convert::Into<" in name) or (last == "clone" and "Clone" in name and ("String" in name or "<T as" in name))

    payloads = []
    for bi, i, st in b.stmts():
        rv = st["rv"]
        if rv.get("k") == "agg" and rv.get("adt") == "uci::uci_command::UCICommand" and rv.get("variant") == "Position" and len(rv["ops"]) == 2:
            mv = sym.operand(rv["ops"][1])
            if mv[0] == "var":
                ls = [l for l in range(len(b.locals)) if b.local_name(l) == mv[1]]
                for d in (b.defs().get(ls[0], []) if len(ls) == 1 else []):
                    payloads.append((d[0], sym.rvalue(d[2]) if d[2].get("k") not in ("call", "partial") else ("?",)))
            else:
                payloads.append((bi, mv))
    bad = []
    n_some = 0
    for bi, v in payloads:
        v = mir.strip_copies(v)
        if v[0] == "agg" and v[2] == "None":
            continue
        x = mir.strip_copies(v[3][0]) if v[0] == "agg" and v[2] == "Some" and len(v[3]) == 1 else None
        ok = False
        if x is not None and x[0] == "call" and x[1] == "std::iter::Iterator::collect" and len(x[2]) == 1:
            m = x[2][0]
            if m[0] == "call" and m[1] == "std::iter::Iterator::map" and len(m[2]) == 2:
                src, f = m[2]
                src_ok = src[0] == "call" and src[1].endswith("<impl [T]>::iter") and [y for y in walk(src) if isinstance(y, tuple) and y[0] == "call" and y[1].endswith("Index<I> for [T]>::index")]
                if f[0] == "fn":
                    ok = bool(src_ok) and is_conv(f[1])
                elif f[0] == "closure" and f[1] in ix.bodies and not f[2]:
                    cb = ix.bodies[f[1]]
                    r = mir.strip_copies(mir.Sym(cb, ix).local(0))
                    ctx.functions.add(cb.key)
                    while r[0] == "call" and is_conv(r[1]) and len(r[2]) == 1:
                        r = mir.strip_copies(mir.strip_refs(r[2][0]))
                        while r[0] == "deref":
                            r = mir.strip_copies(mir.strip_refs(r[1]))
                    ok = bool(src_ok) and cb.arg_count == 2 and r == ("arg", cb.local_name(2)) and len(list(cb.calls())) >= 1 and all(is_conv(t.get("callee") or "") for _b, t in cb.calls())
        n_some += 1
        if not ok:
            bad.append((bi, expr_str(v)[:140]))
    ctx.check(n_some >= 1 and not bad, "parse_position:tokens-unchanged", "Position.moves is the sliced tokens themselves, each converted to an owned string and nothing else, in order", b.where(bad[0][0] if bad else 0),
              bad_what="the move list handed on is `%s`: not the tokens as written (a rewritten token names a different move than the one the GUI sent)" % (bad[0][1] if bad else "never Some"))
    # kind selection by keyword
    kinds = {}
    for bi, i, s in b.stmts():
        rv = s["rv"]
        if rv.get("k") == "agg" and rv.get("adt") == POSKIND:
            cons = C.constraints_for(ix, b, sym, bi)
            strs = [x[1] for c in cons if c[3][0] == "call" and "eq" in c[3][1] and True in c[1] for x in walk(c[3]) if isinstance(x, tuple) and x[0] == "const" and isinstance(x[1], str)]
            kinds[rv["variant"]] = strs[-1] if strs else None
    ctx.check(kinds == {"StartPos": "startpos", "Fen": "fen"}, "parse_position:keywords", "`startpos` -> StartPos, `fen` -> Fen", b.where(0), bad_what="keyword table: %s" % kinds)


def rule_dispatch(ctx):
    ix = ctx.ix
    b = ctx.body(EXEC)
    sym = ctx.sym(b)
    sw, entry = c10.variant_arm(ix, b, "uci::uci_command::UCICommand", "Position")
    region = b.reachable_from(entry, include_start=True)
    calls = [(bi, t) for bi, t in b.calls() if bi in region and callee_is(t, LOAD)]
    ok = len(calls) == 1
    if ok:
        bi, t = calls[0]
        a1, a2 = sym.operand(t["args"][1]), sym.operand(t["args"][2])
        ok = "kind" in expr_str(a1) and "moves" in expr_str(a2)
        # the error is propagated: an Err of load_position reaches an Err return of execute_command
        errs = c10.err_return_blocks(b) & b.reachable_from(bi)
        ok = ok and bool(errs)
    ctx.check(ok, "execute_command:Position:calls-load_position-and-propagates", "the Position arm calls load_position(kind, moves) and propagates its error", b.where(entry), bad_what="the Position arm does not call load_position(kind, moves) with `?`")
    sw, entry = c10.variant_arm(ix, b, "uci::uci_command::UCICommand", "UCINewGame")
    region = b.reachable_from(entry, include_start=True)
    asg = [(bi, s) for bi, i, s in b.stmts() if bi in region and s["lhs"]["l"] == 1 and fields_of(s["lhs"]) == ("board",)]
    ok = False
    if asg:
        v = sym.rvalue(asg[0][1]["rv"])
        ok = v[0] == "call" and v[1].endswith("BoardBuilder::build") and "construct_starting_board" in expr_str(v)
        cons = C.constraints_for(ix, b, sym, asg[0][0])
        ok = ok and any("UCINewGame" in c[1] for c in cons)
    ctx.check(ok, "execute_command:UCINewGame:fresh-start-board", "ucinewgame installs a fresh start position", b.where(entry), bad_what="the UCINewGame arm does not assign a fresh start board")
    # other arms do not touch self.board
    others = [(bi, s) for bi, i, s in b.stmts() if s["lhs"]["l"] == 1 and fields_of(s["lhs"]) == ("board",)]
    ctx.check(len(others) == 1, "execute_command:board-writers", "execute_command itself assigns self.board only for ucinewgame", b.where(0), bad_what="execute_command assigns self.board at %d places" % len(others))
    e = eff(ix)
    writers = sorted(k for k in ix.bodies if ix.bodies[k].kind in ("fn", "closure") and k.startswith("uci::") and any(p and p[0] == "board" for (p, h) in e.writes(k)) )
    ctx.check(set(writers) <= {LOAD, EXEC, "uci::Uci::uci_loop", "uci::start"}, "uci:board-writers", "self.board is written only through load_position / ucinewgame (%s)" % [C.short(w) for w in writers], bad_what="self.board is written by %s" % writers)
    # go searches the session board
    g = ctx.body("uci::Uci::go")
    gs = ctx.sym(g)
    sn = [t for _b, t in g.calls() if callee_is(t, "search::Search::new")]
    ctx.check(len(sn) == 1 and mir.strip_copies(gs.operand(sn[0]["args"][0]))[-1] == "board", "go:searches-session-board", "go starts the search from self.board", g.where(0), bad_what="go does not search self.board")


RULES = [("fresh", rule_fresh), ("commit", rule_commit), ("apply", rule_apply), ("suffix", rule_suffix), ("tokens", rule_tokens), ("dispatch", rule_dispatch)]
# the position command is built from the FEN loader, the legality filter and make_move: their clauses are decided here too
RULES += engine.premise_rules("c07", ["setters", "letters", "fields", "castle-letters", "side-ep", "history", "build"])
RULES += engine.movegen_premises()
RULES += engine.premise_rules("c03", ["revocation-table", "rights-monotone", "clock", "ep", "fullmove", "placement"])


def run(tier):
    return engine.main(
        PROP, "UCI position command", RULES, "other",
        explanation=("Decides the structural clauses for every move list and session at once: the new position is built on a scratch board from the start position or from_fen(fen) and never reads the "
                     "session board (independence from earlier commands); the only write is one `self.board = scratch` after the loop, on every Ok path and on no Err path, and a rejected move leads to an "
                     "Err return that bypasses it (all-or-nothing); each token is looked up among the legal moves by exact equality of coordinate notation and the matched move is the one played on the "
                     "scratch board, for all tokens in order; the notation is {start}{dest} plus q/r/b/n; the FEN is tokens 1..7 and the moves start after the `moves` keyword; the move tokens are handed on as written (identity conversions only) and a command that names a position is never refused (Err only for a missing / unknown keyword or fewer than six FEN fields); the Position arm propagates the "
                     "error and ucinewgame installs a fresh start board; go searches that board; every argument-list length with at least one move reaches the move slice. The legal-move list (C01, C06) and "
                     "make_move (C03) are re-decided as premises; their value-level remainder (exactness of the generated sets) is not decided."),
        assumptions=["Board::get_legal_moves is exact (C01)", "FEN arguments are valid"],
        tier=tier)
