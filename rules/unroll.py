"""Loops over a constant array are the copies of their body (DESIGN 6.7).

`for kind in [CastlingKind::WhiteKingside, CastlingKind::WhiteQueenside] { BODY(kind) }` is how a maintainer folds four
copy-pasted blocks into one.  The rules read decision tables off the control-flow graph, where `kind` would be the
unknown payload of an iterator.  This pass rewrites such a loop, on the facts, into what it abbreviates: the body once per
element, in order, with the element as a constant -- exactly the code the loop replaced.

A loop is rewritten only when all of this holds (otherwise it is left alone and the rules see a loop):
  * the iterator is `IntoIterator::into_iter(ARRAY)` of a local with one definition, an array aggregate (or a constant
    item whose initialiser is one) of at most 16 elements, each a constant or a constant field-less aggregate;
  * the loop header calls `next` on that iterator and nothing else uses the iterator;
  * every block of the body returns to the header (no `break`, no `return` out of the loop; panics are fine);
  * locals written in the body are not read after the loop (they are given fresh copies per iteration).
"""
import copy

from .inline import _place, _operand, _rvalue, _term, _live

MAX_ELEMS = 16


def _succs(blk):
    t = blk["term"]
    k = t["k"]
    if blk["cleanup"]:
        return []
    if k == "goto":
        return [t["target"]]
    if k == "switch":
        return [a[1] for a in t["arms"]] + [t["otherwise"]]
    if k in ("call", "drop", "assert"):
        return [t["target"]] if t.get("target") is not None else []
    return []


def _single_def(body, live):
    d = {}
    for b in live:
        blk = body["blocks"][b]
        if blk["cleanup"]:
            continue
        for s in blk["stmts"]:
            if "lhs" in s and not s["lhs"]["p"]:
                d.setdefault(s["lhs"]["l"], []).append(("stmt", b, s))
            elif "lhs" in s and s["lhs"]["p"] and s["lhs"]["p"][0] != "*":
                d.setdefault(s["lhs"]["l"], []).append(("partial", b, s))
        t = blk["term"]
        if t["k"] == "call" and not t["dest"]["p"]:
            d.setdefault(t["dest"]["l"], []).append(("call", b, t))
    return d


def _const_elem(body, defs, op, consts):
    """An array element that is the same value on every run: a constant operand, or a local whose one definition is a
    field-less aggregate / a constant."""
    if "const" in op:
        return op
    p = op.get("copy") or op.get("move")
    if p is None or p["p"]:
        return None
    ds = defs.get(p["l"], [])
    if len(ds) != 1 or ds[0][0] != "stmt":
        return None
    rv = ds[0][2]["rv"]
    if rv["k"] == "agg" and rv.get("agg") == "adt" and not rv["ops"]:
        return {"aggval": rv}
    if rv["k"] == "use" and "const" in rv["a"]:
        return rv["a"]
    if rv["k"] == "agg" and rv.get("agg") in ("tuple", "adt"):
        # a value built once, before the loop, from whatever was at hand (`(CastlingKind::WhiteKingside, undone.white_kingside)`):
        # each copy of the body gets that very value
        return {"copy": {"l": p["l"], "p": [], "ty": p.get("ty", "?")}}
    return None


def _array_of(body, defs, local, facts_bodies):
    """Elements of the array the local holds (one definition: an array aggregate, or a constant item that is one)."""
    ds = defs.get(local, [])
    if len(ds) != 1 or ds[0][0] != "stmt":
        return None
    rv = ds[0][2]["rv"]
    hops = 0
    while rv["k"] == "use" and hops < 4:
        q = rv["a"].get("copy") or rv["a"].get("move")
        if q is not None and not q["p"]:
            d2 = defs.get(q["l"], [])
            if len(d2) != 1 or d2[0][0] != "stmt":
                return None
            rv = d2[0][2]["rv"]
            hops += 1
            continue
        c = rv["a"].get("const")
        if c and "item" in c:
            init = facts_bodies.get("%s::{init}" % c["item"])
            if init is None:
                return None
            idefs = _single_def(init, _live(init))
            r0 = idefs.get(0, [])
            if len(r0) != 1 or r0[0][0] != "stmt" or r0[0][2]["rv"]["k"] != "agg" or r0[0][2]["rv"].get("agg") != "array":
                return None
            elems = [_const_elem(init, idefs, o, None) for o in r0[0][2]["rv"]["ops"]]
            return elems if all(e is not None for e in elems) else None
        return None
    if rv["k"] != "agg" or rv.get("agg") != "array":
        return None
    elems = [_const_elem(body, defs, o, None) for o in rv["ops"]]
    return elems if all(e is not None for e in elems) else None


def _iter_local_of(body, defs, op):
    """The iterator local an operand `&mut (*&mut iter)` denotes."""
    p = op.get("copy") or op.get("move")
    for _ in range(4):
        if p is None:
            return None
        if p["p"] and p["p"] != ["*"]:
            return None
        ds = defs.get(p["l"], [])
        if len(ds) != 1 or ds[0][0] != "stmt" or ds[0][2]["rv"]["k"] != "ref":
            return None
        q = ds[0][2]["rv"]["p"]
        if not q["p"]:
            return q["l"]
        if q["p"] == ["*"]:
            p = {"l": q["l"], "p": []}
            continue
        return None
    return None


def _mentions(obj, l):
    """Does a statement / terminator JSON mention local l?"""
    if isinstance(obj, dict):
        if "l" in obj and "p" in obj and isinstance(obj.get("p"), list):
            if obj["l"] == l:
                return True
            return any(isinstance(e, dict) and e.get("i") == l for e in obj["p"])
        return any(_mentions(v, l) for v in obj.values())
    if isinstance(obj, list):
        return any(_mentions(v, l) for v in obj)
    return False


def count_loops(body, facts_bodies):
    """How many loops of this body qualify (for the reference table: loops the reference tree already has stay loops)."""
    return len(_candidates(body, facts_bodies, all_of_them=True))


def unroll_body(body, facts_bodies, ref_count=0):
    """Rewrite every qualifying *new* loop of one body: one inside code that was put in place (a new helper or closure), or
    any qualifying loop of a function that had none in the reference tree.  Returns the number of loops rewritten."""
    done = 0
    for _attempt in range(8):
        cands = _candidates(body, facts_bodies, all_of_them=True)
        cands = [c for c in cands if body["blocks"][c[0]].get("spliced") or ref_count == 0]
        if not cands:
            break
        _rewrite(body, *cands[0])
        done += 1
    return done


def _candidates(body, facts_bodies, all_of_them=False):
    found = []
    if True:
        live = _live(body)
        defs = _single_def(body, live)
        cand = None
        for h in sorted(live):
            blk = body["blocks"][h]
            t = blk["term"]
            if blk["cleanup"] or t["k"] != "call" or not (t.get("callee") or "").endswith("Iterator>::next") or "IntoIter" not in (t.get("callee") or ""):
                continue
            if t["dest"]["p"] or t.get("target") is None or len(t["args"]) != 1:
                continue
            it = _iter_local_of(body, defs, t["args"][0])
            if it is None:
                continue
            # iterator: one definition, into_iter(move ARR) possibly moved once
            ids = defs.get(it, [])
            src = None
            if len(ids) == 1 and ids[0][0] == "stmt" and ids[0][2]["rv"]["k"] == "use":
                q = ids[0][2]["rv"]["a"].get("move") or ids[0][2]["rv"]["a"].get("copy")
                if q is not None and not q["p"]:
                    i2 = defs.get(q["l"], [])
                    if len(i2) == 1 and i2[0][0] == "call":
                        src = i2[0][2]
            elif len(ids) == 1 and ids[0][0] == "call":
                src = ids[0][2]
            if src is None or not (src.get("callee") or "").endswith("IntoIterator>::into_iter") and not (src.get("callee") or "").endswith("::into_iter"):
                continue
            if len(src["args"]) != 1:
                continue
            ap = src["args"][0].get("move") or src["args"][0].get("copy")
            if ap is None or ap["p"]:
                # a constant item passed directly
                c = src["args"][0].get("const")
                if not (c and "item" in c):
                    continue
                init = facts_bodies.get("%s::{init}" % c["item"])
                if init is None:
                    continue
                idefs = _single_def(init, _live(init))
                r0 = idefs.get(0, [])
                if len(r0) != 1 or r0[0][0] != "stmt" or r0[0][2]["rv"]["k"] != "agg" or r0[0][2]["rv"].get("agg") != "array":
                    continue
                elems = [_const_elem(init, idefs, o, None) for o in r0[0][2]["rv"]["ops"]]
                if not all(e is not None for e in elems):
                    continue
            else:
                elems = _array_of(body, defs, ap["l"], facts_bodies)
            if elems is None or not (0 < len(elems) <= MAX_ELEMS):
                continue
            s = t["target"]
            sblk = body["blocks"][s]
            st = sblk["term"]
            if st["k"] != "switch":
                continue
            arms = {a[0]: a[1] for a in st["arms"]}
            if set(arms) != {0, 1}:
                continue
            e_blk, b0 = arms[0], arms[1]
            # the discriminant read must be of the next() result
            n_local = t["dest"]["l"]
            if not any("lhs" in x and x["rv"]["k"] == "discr" and x["rv"]["p"]["l"] == n_local and not x["rv"]["p"]["p"] for x in sblk["stmts"]):
                continue
            # natural loop body: from b0 without passing h
            bset = set()
            stack = [b0]
            ok = True
            while stack:
                x = stack.pop()
                if x in bset or x == h:
                    continue
                if x == s or x == e_blk:
                    ok = False
                    break
                bset.add(x)
                stack.extend(_succs(body["blocks"][x]))
            if not ok or len(bset) > 400:
                continue
            # every body block must be able to return to the header, or end in a panic / unreachable
            back = set()
            changed = True
            while changed:
                changed = False
                for x in bset:
                    if x in back:
                        continue
                    ss = _succs(body["blocks"][x])
                    if h in ss or any(y in back for y in ss):
                        back.add(x)
                        changed = True
            bad_exit = False
            for x in bset - back:
                k = body["blocks"][x]["term"]["k"]
                ss = _succs(body["blocks"][x])
                if k == "return" or (k in ("goto", "switch") and not ss):
                    bad_exit = True
                if k == "return":
                    bad_exit = True
            if bad_exit or any(body["blocks"][x]["term"]["k"] == "return" for x in bset):
                continue
            # the iterator is used by nothing in the body except through the header
            if any(_mentions(body["blocks"][x], it) for x in bset):
                continue
            cand = (h, s, e_blk, b0, bset, n_local, it, elems)
            found.append(cand)
            if not all_of_them:
                break
    return found


def _rewrite(body, h, s, e_blk, b0, bset, n_local, it, elems):
    blocks = body["blocks"]
    region = sorted(bset)
    # locals written inside the region (whole-local) and not mentioned outside region+{h,s}: fresh per copy
    written = set()
    for x in region:
        for st in blocks[x]["stmts"]:
            if "lhs" in st and not st["lhs"]["p"]:
                written.add(st["lhs"]["l"])
        t = blocks[x]["term"]
        if t["k"] == "call" and not t["dest"]["p"]:
            written.add(t["dest"]["l"])
    outside = [i for i in range(len(blocks)) if i not in bset and i not in (h, s)]
    private = {l for l in written if l > body["arg_count"] and l != 0 and not any(_mentions(blocks[i], l) for i in outside)}
    private.add(n_local)
    names = {}
    for d in body["debug"]:
        v = d["val"]
        if "l" in v and not v["p"]:
            names.setdefault(v["l"], d["name"])
    entries = []
    for k, elem in enumerate(elems):
        base_b = len(blocks)
        lmap_tbl = {}
        for l in sorted(private):
            lmap_tbl[l] = len(body["locals"])
            body["locals"].append(copy.deepcopy(body["locals"][l]))
            if l in names:
                body["debug"].append({"name": names[l], "val": {"l": lmap_tbl[l], "p": [], "ty": body["locals"][l]["ty"]}, "arg": None, "unrolled": k})
        bmap_tbl = {x: base_b + i for i, x in enumerate(region)}

        def lm(l):
            return lmap_tbl.get(l, l)

        def bm(b):
            if b == h:
                return ("next", k)
            return bmap_tbl.get(b, b)

        for x in region:
            src = blocks[x]
            stmts = []
            for st in src["stmts"]:
                if "lhs" in st:
                    stmts.append(dict(st, lhs=_place(st["lhs"], lm), rv=_rvalue(st["rv"], lm)))
                else:
                    stmts.append(st)
            nt = _term(src["term"], lm, bm)
            blocks.append({"stmts": stmts, "term": nt, "cleanup": src["cleanup"]})
        # entry of this copy: bind the item
        eb = bmap_tbl[b0]
        nl = lm(n_local)
        opt_ty = body["locals"][n_local]["ty"]
        if "aggval" in elem:
            tmp = len(body["locals"])
            body["locals"].append({"ty": "?", "mut": False})
            bind = [{"lhs": {"l": tmp, "p": [], "ty": "?"}, "rv": copy.deepcopy(elem["aggval"]), "line": blocks[h]["term"].get("line"), "exp": False},
                    {"lhs": {"l": nl, "p": [], "ty": opt_ty}, "rv": {"k": "agg", "agg": "adt", "adt": "std::option::Option", "variant": "Some", "fields": ["0"],
                                                                      "ops": [{"move": {"l": tmp, "p": [], "ty": "?"}}]}, "line": blocks[h]["term"].get("line"), "exp": False}]
        else:
            bind = [{"lhs": {"l": nl, "p": [], "ty": opt_ty}, "rv": {"k": "agg", "agg": "adt", "adt": "std::option::Option", "variant": "Some", "fields": ["0"], "ops": [copy.deepcopy(elem)]},
                     "line": blocks[h]["term"].get("line"), "exp": False}]
        blocks[eb]["stmts"] = bind + blocks[eb]["stmts"]
        entries.append(eb)
    # wire the copies: ("next", k) -> entry k+1, or the loop exit after the last one
    for blk in blocks:
        t = blk["term"]

        def fix(b):
            if isinstance(b, tuple) and b[0] == "next":
                return entries[b[1] + 1] if b[1] + 1 < len(entries) else e_blk
            return b
        if t["k"] == "goto":
            t["target"] = fix(t["target"])
        elif t["k"] == "switch":
            t["arms"] = [[a[0], fix(a[1])] for a in t["arms"]]
            t["otherwise"] = fix(t["otherwise"])
        elif t["k"] in ("call", "drop", "assert") and t.get("target") is not None:
            t["target"] = fix(t["target"])
    # the header now jumps straight into the first copy (its next() call is gone)
    blocks[h]["term"] = {"k": "goto", "target": entries[0] if entries else e_blk, "line": blocks[h]["term"].get("line"), "exp": False, "unrolled": len(elems)}


def apply(facts):
    bodies = {j["key"]: j for j in facts["bodies"]}
    try:
        import json
        import os
        with open(os.path.join(os.path.dirname(os.path.abspath(__file__)), "known_closures.json")) as fh:
            ref_counts = json.load(fh).get("array_loops", {})
    except (OSError, ValueError):
        ref_counts = {}
    log = []
    for j in facts["bodies"]:
        if j["kind"] not in ("fn", "closure"):
            continue
        try:
            n = unroll_body(j, bodies, ref_counts.get(j["key"], 0))
        except (KeyError, IndexError, TypeError):
            n = 0
        if n:
            log.append({"function": j["key"], "loops": n})
            # each copy now has its element as a constant: tests on it are decided
            from .inline import _fold_switches, _resolve_refs
            _fold_switches(j, {a["path"]: a for a in facts["adts"]})
            _resolve_refs(j)
    facts["unrolled"] = log
    return log
