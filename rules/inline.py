"""Summaries follow calls (DESIGN 2.2): helper functions that did not exist when the rules were written are
expanded into their callers before any rule looks at a body.

The rules name the functions a property is anchored in (`make_move`, `alpha_beta`, `execute_command`, ...).  A later
change may move part of such a function into a new private helper without changing what the program does; the
rules then have to look at the anchor *with the helper expanded*.  `apply` does that on the raw facts:

  * a function is a *helper* when its key is not in `known_functions.json` (the functions of the tree the rules were
    written against), it is not recursive, and it is called directly (not stored as a function value);
  * every direct call of a helper is replaced by a copy of the helper's blocks (locals and blocks renumbered,
    arguments bound by assignments, `return` turned into a jump to the continuation);
  * in the expanded copy, switches on a value that the call site fixed to a constant are folded, and stores through
    a reference that has one definition are rewritten to the place the reference denotes;
  * a helper whose calls were all expanded is dropped from the program, so that who-may-write and who-may-call
    rules see its effects in the callers and not in a function they have never heard of.

On a tree without new functions nothing is rewritten.  The evidence records which helpers were expanded where.
"""
import copy
import json
import os

from .mir import strip_generics

HERE = os.path.dirname(os.path.abspath(__file__))
KNOWN = os.path.join(HERE, "known_functions.json")
MAX_BLOCKS = 400       # a helper larger than this is not expanded
MAX_ROUNDS = 6         # nesting depth of helpers calling helpers


def known_functions():
    """{function key: [return type, argument types...]} of the tree the rules were written against."""
    with open(KNOWN) as f:
        return json.load(f)


KNOWN_ADTS = os.path.join(HERE, "known_adts.json")


def rename_types(facts):
    """A struct / enum of the reference tree that is gone, while exactly one new type with the same variants and field names
    has appeared (moved into a new module, or renamed), is that type: its new path is replaced by the reference path
    everywhere in the facts (types of locals and fields, callee names of its impls, constants), so that rules and the
    function-rename step keep naming it as before.  Returns [(new path, reference path)]."""
    try:
        with open(KNOWN_ADTS) as f:
            known = json.load(f)
    except OSError:
        return []
    now = {a["path"]: a for a in facts["adts"]}
    missing = [m for m in known if m not in now]
    new = [n for n in now if n not in known]
    if not missing or not new:
        return []

    def shape(a):
        # a struct's single "variant" carries the struct's own name: a renamed struct is the same shape
        return sorted(("" if a["kind"] == "Struct" else v["name"], [fl["name"] for fl in v["fields"]]) for v in a["variants"])

    def known_shape(k, path=""):
        struct = len(k) == 1 and next(iter(k)) == path.rsplit("::", 1)[-1]
        return sorted(("" if struct else vn, [f[0] for f in fs]) for vn, fs in k.items())     # (the table is stored with sorted keys)
    def close(a, k, path):
        """Same shape, or an enum (of four or more variants) with exactly one variant renamed and nothing else changed."""
        sa, sk = shape(a), known_shape(k, path)
        if sa == sk:
            return True
        if a["kind"] != "Enum" or len(sa) != len(sk) or len(sk) < 4:
            return False
        gone = [x for x in sk if x not in sa]
        came = [x for x in sa if x not in sk]
        return len(gone) == 1 and len(came) == 1 and gone[0][1] == came[0][1]
    pairs = []
    used = set()
    for m in missing:
        same_name = [n for n in new if n.rsplit("::", 1)[-1] == m.rsplit("::", 1)[-1] and shape(now[n]) == known_shape(known[m], m)]
        cands = same_name or [n for n in new if close(now[n], known[m], m) and len(known[m]) + sum(len(f) for f in known[m].values()) >= 3]
        cands = [n for n in cands if n not in used]
        if len(cands) == 1:
            pairs.append((cands[0], m))
            used.add(cands[0])
    if not pairs:
        return []
    text = json.dumps(facts)
    for n, m in sorted(pairs, key=lambda p: -len(p[0])):
        text = text.replace(n, m)
    fresh = json.loads(text)
    facts.clear()
    facts.update(fresh)
    return pairs


def rename_variants(facts):
    """An enum of the reference tree with exactly one variant renamed (same fields, every other variant unchanged) gets the
    old variant name back wherever the variant is built, matched or listed.  Returns [(adt, new name, old name)]."""
    try:
        with open(KNOWN_ADTS) as f:
            known = json.load(f)
    except OSError:
        return []
    ren = {}
    for a in facts["adts"]:
        k = known.get(a["path"])
        if not k or a["kind"] != "Enum" or len(a["variants"]) != len(k) or len(k) < 4:
            continue
        now_names = [v["name"] for v in a["variants"]]
        gone = [n for n in k if n not in now_names]
        came = [v for v in a["variants"] if v["name"] not in k]
        if len(gone) == 1 and len(came) == 1 and [fl["name"] for fl in came[0]["fields"]] == [f[0] for f in k[gone[0]]]:
            ren[(a["path"], came[0]["name"])] = gone[0]
            came[0]["name"] = gone[0]
    if not ren:
        return []

    def walk_json(x):
        if isinstance(x, dict):
            if "adt" in x and "variant" in x and (x["adt"], x["variant"]) in ren:
                x["variant"] = ren[(x["adt"], x["variant"])]
            if "of" in x and "ofv" in x and (x["of"], x["ofv"]) in ren:
                x["ofv"] = ren[(x["of"], x["ofv"])]
            for v in x.values():
                walk_json(v)
        elif isinstance(x, list):
            for i, v in enumerate(x):
                # a downcast `{"d": V}` is followed by the field it reaches, which names the type
                if isinstance(v, dict) and "d" in v and i + 1 < len(x) and isinstance(x[i + 1], dict) and (x[i + 1].get("of"), v["d"]) in ren:
                    v["d"] = ren[(x[i + 1]["of"], v["d"])]
                walk_json(v)
    walk_json(facts["bodies"])
    return [(a, n, o) for (a, n), o in sorted(ren.items())]


def rename_traits(facts, known):
    """A trait of the crate that is gone (no impl and no provided method of it is left) while exactly one new trait is
    implemented for the same set of types is that trait under a new name: its path is replaced by the reference path
    everywhere.  (Its methods, if renamed too, are matched afterwards like any other renamed function.)"""
    import re

    def impls(keys):
        out = {}
        for k in keys:
            m = re.match(r"^<(.+) as ([^<>]+)>::[A-Za-z_0-9]+$", k)
            if m and not m.group(2).startswith(("std::", "core::", "alloc::")):
                out.setdefault(m.group(2), set()).add(m.group(1))
        return out
    now_keys = {j["key"] for j in facts["bodies"]}
    ref, now = impls(known), impls(now_keys)
    gone = {t: ts for t, ts in ref.items() if t not in now}
    came = {t: ts for t, ts in now.items() if t not in ref}
    pairs = []
    used = set()
    for t, ts in sorted(gone.items()):
        cands = [n for n, ns in came.items() if ns == ts and n not in used and n.rsplit("::", 1)[0] == t.rsplit("::", 1)[0]] or \
                [n for n, ns in came.items() if ns == ts and n not in used]
        if len(cands) == 1:
            pairs.append((cands[0], t))
            used.add(cands[0])
    if not pairs:
        return []
    text = json.dumps(facts)
    for n, m in sorted(pairs, key=lambda p: -len(p[0])):
        text = re.sub(r"(?<![A-Za-z0-9_])" + re.escape(n) + r"(?![A-Za-z0-9_])", m, text)
    fresh = json.loads(text)
    facts.clear()
    facts.update(fresh)
    return pairs


KNOWN_ITEMS = os.path.join(HERE, "known_items.json")


def rename_items(facts):
    """A `static` / `const` of the reference tree that is gone while exactly one new item of the same kind and name has
    appeared elsewhere (its module was moved or renamed) is that item: the new path is replaced by the reference path
    everywhere in the facts.  Returns [(new path, reference path)]."""
    try:
        with open(KNOWN_ITEMS) as f:
            known = json.load(f)
    except OSError:
        return []
    now = {("static", x["path"]) for x in facts["statics"]} | {("const", x["path"]) for x in facts["consts"]}
    ref = {(x["kind"], x["path"]) for x in known}
    ref_ty = {(x["kind"], x["path"]): x.get("ty") for x in known}
    now_ty = {("static", x["path"]): x.get("ty") for x in facts["statics"]}
    now_ty.update({("const", x["path"]): x.get("ty") for x in facts["consts"]})
    missing = sorted(ref - now)
    new = sorted(now - ref)
    pairs = []
    used = set()
    for kind, m in missing:
        if m.startswith("<"):
            continue     # associated constants follow their type
        cands = [n for k, n in new if k == kind and n.rsplit("::", 1)[-1] == m.rsplit("::", 1)[-1] and n not in used and not n.startswith("<")]
        if not cands:
            # renamed in place: the only new item of that kind and type in the same module, while the only one missing there
            mod_ = m.rsplit("::", 1)[0]
            ty_m = ref_ty.get((kind, m))
            same_mod_new = [n for k, n in new if k == kind and n.rsplit("::", 1)[0] == mod_ and now_ty.get((k, n)) == ty_m and n not in used and not n.startswith("<")]
            same_mod_missing = [x for k, x in missing if k == kind and x.rsplit("::", 1)[0] == mod_ and ref_ty.get((k, x)) == ty_m]
            if len(same_mod_new) == 1 and len(same_mod_missing) == 1 and ty_m is not None:
                cands = same_mod_new
        if len(cands) == 1:
            pairs.append((cands[0], m))
            used.add(cands[0])
    if not pairs:
        return []
    text = json.dumps(facts)
    for n, m in sorted(pairs, key=lambda p: -len(p[0])):
        text = text.replace(n, m)
    fresh = json.loads(text)
    facts.clear()
    facts.update(fresh)
    return pairs


def rename_fields(facts):
    """A struct / enum variant of the reference tree whose fields kept their number, order and types but not their
    names had its fields renamed: give them their old names back everywhere they are projected, constructed or listed, so
    that the rules (which name fields) keep deciding the same code.  Returns [(adt, variant, new name, old name)]."""
    try:
        with open(KNOWN_ADTS) as f:
            known = json.load(f)
    except OSError:
        return []
    ren = {}
    out = []
    for a in facts["adts"]:
        k = known.get(a["path"])
        if not k:
            continue
        for v in a["variants"]:
            old = k.get(v["name"])
            if old is None or len(old) != len(v["fields"]):
                continue
            names_now = [fl["name"] for fl in v["fields"]]
            names_old = [o[0] for o in old]
            if names_now == names_old:
                continue
            if [fl["ty"] for fl in v["fields"]] != [o[1] for o in old]:
                continue  # fields were reordered or retyped: not a plain rename
            changed_now = {n for n, o in zip(names_now, names_old) if n != o}
            if changed_now & set(names_old):
                continue  # an old name reappears at another position: the declaration was reordered, names stay authoritative
            for fl, o in zip(v["fields"], old):
                if fl["name"] != o[0]:
                    ren[(a["path"], v["name"], fl["name"])] = o[0]
                    out.append((a["path"], v["name"], fl["name"], o[0]))
                    fl["name"] = o[0]
    if not ren:
        return []

    def fix_place(p):
        for e in p.get("p", []):
            if isinstance(e, dict) and "n" in e and "of" in e:
                o = ren.get((e["of"], e.get("ofv"), e["n"]))
                if o is not None:
                    e["n"] = o

    def fix_op(o):
        if isinstance(o, dict):
            q = o.get("copy") or o.get("move")
            if q is not None:
                fix_place(q)

    for j in facts["bodies"]:
        for d in j.get("debug", []):
            if "l" in d.get("val", {}):
                fix_place(d["val"])
        for blk in j["blocks"]:
            for st in blk["stmts"]:
                if "lhs" not in st:
                    continue
                fix_place(st["lhs"])
                rv = st["rv"]
                for kk in ("a", "b"):
                    if kk in rv and isinstance(rv[kk], dict):
                        fix_op(rv[kk])
                for o in rv.get("ops", []):
                    fix_op(o)
                if "p" in rv and isinstance(rv["p"], dict):
                    fix_place(rv["p"])
                if rv.get("k") == "agg" and rv.get("agg") == "adt" and rv.get("fields"):
                    rv["fields"] = [ren.get((rv["adt"], rv.get("variant") or _only_variant(facts, rv["adt"]), n), n) for n in rv["fields"]]
            t = blk["term"]
            for kk in ("discr", "cond", "indirect"):
                if kk in t and isinstance(t[kk], dict):
                    fix_op(t[kk])
            for o in t.get("args", []) + t.get("aops", []):
                fix_op(o)
            if "dest" in t:
                fix_place(t["dest"])
            if t["k"] == "drop":
                fix_place(t["p"])
    return out


def _only_variant(facts, adt):
    for a in facts["adts"]:
        if a["path"] == adt and len(a["variants"]) == 1:
            return a["variants"][0]["name"]
    return None


def _parent_path(key):
    return key.rsplit("::", 1)[0] if "::" in key else ""


def rename_anchors(facts, known):
    """A function of the reference tree that is gone, while exactly one new function with the same signature has
    appeared in the same impl / module (and nothing else competes for it), was renamed: give it its old name back, so
    that the rules anchored in it keep deciding the same code.  Returns [(new name, old name)]."""
    if not isinstance(known, dict):
        return []
    present = {j["key"]: j for j in facts["bodies"] if j["kind"] == "fn"}
    def plain(k):
        # free functions, inherent methods, and methods of the crate's own traits (a trait method renamed in the trait and
        # in every impl); impls of std traits keep their method names by definition
        if "::<impl " in k:
            return False
        if k.startswith("<"):
            iid = _impl_id(k)
            return iid is not None and not iid[0].startswith(("std::", "core::", "alloc::"))
        return True
    missing = [k for k in known if k not in present and plain(k)]
    new = [k for k in present if k not in known and plain(k)]
    # trait impls moved to another module keep their identity (trait, type, method) but are spelt differently by rustc:
    # `<Type as Trait>::m` next to the type, `module::<impl Trait for Type>::m` elsewhere
    impl_pairs = []
    miss_impl = {_impl_id(k): k for k in known if k not in present and _impl_id(k)}
    for k in present:
        if k not in known and _impl_id(k) in miss_impl:
            impl_pairs.append((k, miss_impl[_impl_id(k)]))
    if impl_pairs:
        return _apply_renames(facts, impl_pairs)
    if not missing or not new:
        return []

    def sig(j):
        return [j["locals"][i]["ty"] for i in range(0, j["arg_count"] + 1)]

    cands = {}
    for m in missing:
        # renamed in place (same impl / module, same signature), or moved elsewhere under the same name
        cands[m] = [n for n in new if _parent_path(n) == _parent_path(m) and sig(present[n]) == known[m]] or \
                   [n for n in new if n.rsplit("::", 1)[-1] == m.rsplit("::", 1)[-1] and sig(present[n]) == known[m]]
    # several candidates with one signature (three `unsafe fn(self) -> u32` helpers renamed together): tell them apart by
    # who calls them
    try:
        with open(os.path.join(HERE, "known_callers.json")) as fh:
            known_callers = json.load(fh)
    except OSError:
        known_callers = {}
    callers_now = {}
    for j in facts["bodies"]:
        owner = j["key"] if j["kind"] == "fn" else (j.get("parent") or j["key"])
        for blk in j["blocks"]:
            t = blk["term"]
            if t["k"] in ("call", "tailcall") and t.get("callee") in present:
                callers_now.setdefault(t["callee"], set()).add(j["key"])
    for m, cs in list(cands.items()):
        if len(cs) > 1 and m in known_callers:
            want = set(known_callers[m])
            narrowed = [n for n in cs if callers_now.get(n, set()) == want]
            if len(narrowed) == 1:
                cands[m] = narrowed
    # still ambiguous (six FEN field parsers with one signature and one caller): tell them apart by the reference-tree
    # functions they call
    try:
        with open(os.path.join(HERE, "known_callees.json")) as fh:
            known_callees = json.load(fh)
    except OSError:
        known_callees = {}
    callees_now = {}
    for j in facts["bodies"]:
        if j["kind"] != "fn":
            continue
        cs = set()
        for blk in j["blocks"]:
            t = blk["term"]
            if t["k"] in ("call", "tailcall") and t.get("callee") in known:
                cs.add(t["callee"])
        callees_now[j["key"]] = cs
    for m, cs in list(cands.items()):
        if len(cs) > 1 and m in known_callees:
            want = {c for c in known_callees[m] if c in known and c not in missing}
            narrowed = [n for n in cs if callees_now.get(n, set()) & set(known) - set(missing) == want] if want else []
            if len(narrowed) == 1:
                cands[m] = narrowed
    pairs = []
    taken = {}
    for m, cs in cands.items():
        if len(cs) == 1:
            taken.setdefault(cs[0], []).append(m)
    for m, cs in cands.items():
        if len(cs) == 1 and len(taken.get(cs[0], [])) == 1:
            pairs.append((cs[0], m))
    if not pairs:
        return []
    return _apply_renames(facts, pairs)


def _impl_id(key):
    """(trait, type, method) of a trait-impl function key in either spelling, else None."""
    import re
    k = key
    m = re.match(r"^<(.+) as (.+)>::([A-Za-z_0-9]+)$", k)
    if m and " as " not in m.group(1):
        return (m.group(2), m.group(1), m.group(3))
    m = re.match(r"^.*?::<impl (.+) for (.+)>::([A-Za-z_0-9]+)$", k)
    if m:
        return (m.group(1), m.group(2), m.group(3))
    return None


def _apply_renames(facts, pairs):
    ren = dict(pairs)

    def fix_op(o):
        c = o.get("const") if isinstance(o, dict) else None
        if c and c.get("fn") in ren:
            c["fn"] = ren[c["fn"]]

    for j in facts["bodies"]:
        if j["key"] in ren and j["kind"] == "fn":
            j["renamed_from"] = j["key"]
            j["key"] = ren[j["key"]]
        if j.get("parent") in ren:
            j["parent"] = ren[j["parent"]]
        for blk in j["blocks"]:
            t = blk["term"]
            for fld in ("callee", "decl"):
                if t.get(fld) in ren:
                    t[fld] = ren[t[fld]]
            for a in t.get("args", []):
                fix_op(a)
            for st in blk["stmts"]:
                if "lhs" not in st:
                    continue
                rv = st["rv"]
                for k in ("a", "b"):
                    if k in rv and isinstance(rv[k], dict):
                        fix_op(rv[k])
                for o in rv.get("ops", []):
                    fix_op(o)
                if rv.get("k") == "agg" and rv.get("closure", "").startswith(tuple(n + "::" for n in ren)):
                    pass  # closure keys keep their spelling; they are found through `parent`
    return pairs


# ------------------------------------------------------------------------------------------ renaming

def _place(p, lm):
    q = dict(p)
    q["l"] = lm(p["l"])
    q["p"] = [dict(e, i=lm(e["i"])) if isinstance(e, dict) and "i" in e else e for e in p["p"]]
    return q


def _operand(o, lm):
    if "copy" in o:
        return dict(o, copy=_place(o["copy"], lm))
    if "move" in o:
        return dict(o, move=_place(o["move"], lm))
    return o


def _rvalue(rv, lm):
    k = rv["k"]
    r = dict(rv)
    if k in ("use", "cast", "unop", "repeat"):
        r["a"] = _operand(rv["a"], lm)
    elif k == "binop":
        r["a"] = _operand(rv["a"], lm)
        r["b"] = _operand(rv["b"], lm)
    elif k == "agg":
        r["ops"] = [_operand(o, lm) for o in rv["ops"]]
    elif k in ("ref", "rawptr", "discr"):
        r["p"] = _place(rv["p"], lm)
    elif k == "other":
        r["desc"] = "inlined:" + rv.get("desc", "")
    return r


def _term(t, lm, bm):
    r = dict(t)
    k = t["k"]
    if k == "goto":
        r["target"] = bm(t["target"])
    elif k == "switch":
        r["discr"] = _operand(t["discr"], lm)
        r["arms"] = [[a[0], bm(a[1])] for a in t["arms"]]
        r["otherwise"] = bm(t["otherwise"])
    elif k == "drop":
        r["p"] = _place(t["p"], lm)
        r["target"] = bm(t["target"])
    elif k in ("call", "tailcall"):
        r["args"] = [_operand(a, lm) for a in t["args"]]
        if "indirect" in t:
            r["indirect"] = _operand(t["indirect"], lm)
        if k == "call":
            r["dest"] = _place(t["dest"], lm)
            r["target"] = bm(t["target"]) if t["target"] is not None else None
    elif k == "assert":
        r["cond"] = _operand(t["cond"], lm)
        r["aops"] = [_operand(a, lm) for a in t["aops"]]
        r["target"] = bm(t["target"])
    return r


# ------------------------------------------------------------------------------------------ splicing

def _mentions(body, l, skip=None):
    """Number of places in live-or-not normal blocks that mention local `l` (as root or as index)."""
    n = 0

    def pl(p):
        nonlocal n
        if p["l"] == l:
            n += 1
        for e in p["p"]:
            if isinstance(e, dict) and e.get("i") == l:
                n += 1

    def op(o):
        q = o.get("copy") or o.get("move")
        if q is not None:
            pl(q)

    for blk in body["blocks"]:
        for s in blk["stmts"]:
            if "lhs" not in s or s is skip:
                continue
            pl(s["lhs"])
            rv = s["rv"]
            for k in ("a", "b"):
                if k in rv and isinstance(rv[k], dict):
                    op(rv[k])
            for o in rv.get("ops", []):
                op(o)
            if "p" in rv and isinstance(rv["p"], dict):
                pl(rv["p"])
        t = blk["term"]
        for k in ("discr", "cond", "indirect"):
            if k in t and isinstance(t[k], dict):
                op(t[k])
        for o in t.get("args", []) + t.get("aops", []):
            op(o)
        if "dest" in t:
            pl(t["dest"])
        if t["k"] == "drop":
            pl(t["p"])
    return n


def _splice(caller, bi, callee, tag):
    """Replace the call terminating block `bi` of `caller` by a copy of `callee` (both raw JSON bodies)."""
    t = caller["blocks"][bi]["term"]
    base_l = len(caller["locals"])
    base_b = len(caller["blocks"])
    cont = t["target"]
    dest = t["dest"]
    line = t.get("line")
    named = {d["val"]["l"] for d in caller["debug"] if "l" in d["val"] and not d["val"]["p"]}
    # the callee's return place is the caller's destination itself when that is a plain local
    ret_local = dest["l"] if not dest["p"] else None
    # ... and when the continuation starts by handing a temporary destination on (`_0 = move tmp`), the callee
    # writes that place directly
    fwd_stmt = None
    if ret_local is not None and ret_local not in named and ret_local != 0 and cont is not None:
        cb = caller["blocks"][cont]
        preds = 0
        for blk in caller["blocks"]:
            tt = blk["term"]
            tg = [tt.get("target")] if tt["k"] in ("goto", "call", "drop", "assert") else []
            if tt["k"] == "switch":
                tg = [a[1] for a in tt["arms"]] + [tt["otherwise"]]
            preds += tg.count(cont)
        first = next((s for s in cb["stmts"] if "lhs" in s), None)
        if preds == 1 and first is not None and not first["lhs"]["p"] and first["rv"]["k"] == "use":
            q = first["rv"]["a"].get("move") or first["rv"]["a"].get("copy")
            if q is not None and not q["p"] and q["l"] == ret_local and _mentions(caller, ret_local) == 2:
                fwd_stmt = first
                ret_local = first["lhs"]["l"]

    def lm(l):
        if l == 0 and ret_local is not None:
            return ret_local
        return base_l + l

    def bm(b):
        return base_b + b

    caller["locals"].extend(copy.deepcopy(callee["locals"]))
    for d in callee["debug"]:
        v = d["val"]
        if "l" in v:
            caller["debug"].append({"name": d["name"], "val": _place(v, lm), "arg": None, "inlined": tag})
    for blk in callee["blocks"]:
        stmts = []
        for s in blk["stmts"]:
            if "lhs" in s:
                stmts.append(dict(s, lhs=_place(s["lhs"], lm), rv=_rvalue(s["rv"], lm)))
            else:
                stmts.append(s)
        ct = blk["term"]
        if ct["k"] == "return" and not blk["cleanup"]:
            if ret_local is None:
                stmts.append({"lhs": dest, "rv": {"k": "use", "a": {"move": {"l": base_l, "p": [], "ty": callee["locals"][0]["ty"]}}},
                              "line": ct.get("line"), "exp": False, "inl_ret": tag})
            if cont is None:
                nt = {"k": "unreachable", "line": ct.get("line"), "exp": False}
            else:
                nt = {"k": "goto", "target": cont, "line": ct.get("line"), "exp": False}
        else:
            nt = _term(ct, lm, bm)
        caller["blocks"].append({"stmts": stmts, "term": nt, "cleanup": blk["cleanup"], "spliced": tag})   # code that is new to the caller
    if fwd_stmt is not None:
        caller["blocks"][cont]["stmts"] = [s for s in caller["blocks"][cont]["stmts"] if s is not fwd_stmt]
    # bind the arguments and jump in
    blk = caller["blocks"][bi]
    for i, a in enumerate(t["args"]):
        blk["stmts"].append({"lhs": {"l": base_l + i + 1, "p": [], "ty": callee["locals"][i + 1]["ty"]},
                             "rv": {"k": "use", "a": a}, "line": line, "exp": False, "inl_arg": tag})
    blk["term"] = {"k": "goto", "target": bm(0), "line": line, "exp": False, "inl_call": tag}


# ------------------------------------------------------------------------------------------ simplification

def _live(body):
    seen = set()
    stack = [0]
    while stack:
        b = stack.pop()
        if b in seen:
            continue
        seen.add(b)
        blk = body["blocks"][b]
        if blk["cleanup"]:
            continue
        t = blk["term"]
        k = t["k"]
        if k == "goto":
            stack.append(t["target"])
        elif k == "switch":
            stack.extend(a[1] for a in t["arms"])
            stack.append(t["otherwise"])
        elif k in ("call", "assert", "drop"):
            if t.get("target") is not None:
                stack.append(t["target"])
    return seen


def _defs(body, live):
    """local -> list of rvalues / call terms assigned to the whole local in live blocks; partial writes count."""
    d = {}
    for b in live:
        blk = body["blocks"][b]
        if blk["cleanup"]:
            continue
        for s in blk["stmts"]:
            if "lhs" not in s:
                continue
            l = s["lhs"]
            if not l["p"]:
                d.setdefault(l["l"], []).append(s["rv"])
            elif l["p"][0] != "*":
                d.setdefault(l["l"], []).append(None)
        t = blk["term"]
        if t["k"] == "call":
            l = t["dest"]
            if not l["p"]:
                d.setdefault(l["l"], []).append(None)
            elif l["p"][0] != "*":
                d.setdefault(l["l"], []).append(None)
    return d


def _borrowed_mut(body, live):
    out = set()
    for b in live:
        for s in body["blocks"][b]["stmts"]:
            if "lhs" in s and s["rv"]["k"] in ("ref", "rawptr") and (s["rv"].get("mut") or s["rv"]["k"] == "rawptr"):
                if not s["rv"]["p"]["p"]:
                    out.add(s["rv"]["p"]["l"])
    return out


def _const_variant(body, defs, borrowed, op, adts, depth=0):
    """The discriminant value of an operand that is, through single-definition copies, a constant enum value
    (`Kind::Variant {}` aggregate without data dependence, or an integer / bool constant)."""
    if depth > 8:
        return None
    if "const" in op:
        c = op["const"]
        if "int" in c:
            return c["int"]
        if "bits" in c:
            try:
                return int(c["bits"])
            except (TypeError, ValueError):
                return None
        return None
    p = op.get("copy") or op.get("move")
    if p is None or p["p"]:
        return None
    l = p["l"]
    if l <= body["arg_count"] or l in borrowed:
        return None
    ds = defs.get(l, [])
    if len(ds) != 1 or ds[0] is None:
        return None
    rv = ds[0]
    if rv["k"] == "use":
        return _const_variant(body, defs, borrowed, rv["a"], adts, depth + 1)
    if rv["k"] == "discr":
        r2 = _value_rv(body, defs, borrowed, rv["p"])
        if r2 is not None and r2["k"] == "agg" and r2.get("agg") == "adt":
            adt = adts.get(r2["adt"])
            if adt is None:
                std = {"std::option::Option": {"None": 0, "Some": 1}, "std::result::Result": {"Ok": 0, "Err": 1}}.get(r2["adt"])
                return std.get(r2.get("variant")) if std else None
            for v in adt.get("variants", []):
                if v.get("name") == r2.get("variant"):
                    dv = v.get("discr")
                    try:
                        return int(dv)
                    except (TypeError, ValueError):
                        return None
        return None
    return None


def _value_rv(body, defs, borrowed, place, depth=0):
    """The one rvalue that defines `place` when it is, through single-definition copies and through reading back a
    field of a freshly built variant (`(Some(x) as Some).0` is `x`), a value built in this body; else None."""
    if depth > 12:
        return None
    l = place["l"]
    if l <= body["arg_count"] or l in borrowed:
        return None
    ds = defs.get(l, [])
    if len(ds) != 1 or ds[0] is None:
        return None
    rv = ds[0]
    proj = place["p"]
    if rv["k"] == "use":
        q = rv["a"].get("copy") or rv["a"].get("move")
        if q is None:
            return None
        return _value_rv(body, defs, borrowed, {"l": q["l"], "p": list(q["p"]) + list(proj)}, depth + 1)
    if not proj:
        return rv
    if rv["k"] == "agg" and rv.get("agg") == "adt" and len(proj) >= 2 and isinstance(proj[0], dict) and proj[0].get("d") == rv.get("variant") \
            and isinstance(proj[1], dict) and "f" in proj[1] and proj[1]["f"] < len(rv["ops"]):
        o = rv["ops"][proj[1]["f"]]
        q = o.get("copy") or o.get("move")
        if q is None:
            return None
        return _value_rv(body, defs, borrowed, {"l": q["l"], "p": list(q["p"]) + list(proj[2:])}, depth + 1)
    return None


def _fold_switches(body, adts):
    changed = True
    n = 0
    while changed and n < 20:
        changed = False
        n += 1
        live = _live(body)
        defs = _defs(body, live)
        borrowed = _borrowed_mut(body, live)
        for b in live:
            blk = body["blocks"][b]
            t = blk["term"]
            if blk["cleanup"] or t["k"] != "switch":
                continue
            v = _const_variant(body, defs, borrowed, t["discr"], adts)
            if v is None:
                continue
            tgt = t["otherwise"]
            for a in t["arms"]:
                if a[0] == v:
                    tgt = a[1]
                    break
            blk["term"] = {"k": "goto", "target": tgt, "line": t.get("line"), "exp": t.get("exp", False), "folded": True}
            changed = True
    return body


def _resolve_refs(body):
    """Rewrite `(*_r).x...` to `PLACE.x...` when `_r` has the single definition `_r = &[mut] PLACE` (or a chain
    of moves of such a reference) and PLACE's own root is not reassigned in between (roots are arguments or
    single-definition locals in every case we rewrite)."""
    live = _live(body)
    defs = _defs(body, live)

    def target(l, depth=0):
        if depth > 8 or l <= body["arg_count"]:
            return None
        ds = defs.get(l, [])
        if len(ds) != 1 or ds[0] is None:
            return None
        rv = ds[0]
        if rv["k"] == "ref":
            p = rv["p"]
            root = p["l"]
            if root > body["arg_count"] and len(defs.get(root, [])) > 1 and "*" in p["p"]:
                return None     # a place reached through a pointer that is itself reassigned
            # (a reference to a local, or to a field path of one, denotes that storage however often the local is assigned)
            if any(isinstance(e, dict) and "i" in e for e in p["p"]):
                return None
            # the referenced place may itself start with a deref of another single-def reference
            return resolve(p, depth + 1)
        if rv["k"] == "use":
            q = rv["a"].get("copy") or rv["a"].get("move")
            if q is not None and not q["p"]:
                return target(q["l"], depth + 1)
        return None

    def resolve(p, depth=0):
        if p["p"] and p["p"][0] == "*":
            tp = target(p["l"], depth)
            if tp is not None:
                return {"l": tp["l"], "p": list(tp["p"]) + list(p["p"][1:]), "ty": p.get("ty")}
        return p

    def rv_fix(rv):
        k = rv["k"]
        r = rv
        if k in ("use", "cast", "unop", "repeat"):
            r = dict(rv, a=op_fix(rv["a"]))
        elif k == "binop":
            r = dict(rv, a=op_fix(rv["a"]), b=op_fix(rv["b"]))
        elif k == "agg":
            r = dict(rv, ops=[op_fix(o) for o in rv["ops"]])
        elif k in ("ref", "rawptr", "discr"):
            r = dict(rv, p=resolve(rv["p"]))
        return r

    def op_fix(o):
        if "copy" in o:
            return dict(o, copy=resolve(o["copy"]))
        if "move" in o:
            return dict(o, move=resolve(o["move"]))
        return o

    for b in live:
        blk = body["blocks"][b]
        if blk["cleanup"]:
            continue
        for s in blk["stmts"]:
            if "lhs" in s:
                s["lhs"] = resolve(s["lhs"])
                s["rv"] = rv_fix(s["rv"])
        t = blk["term"]
        if t["k"] == "switch":
            t["discr"] = op_fix(t["discr"])
        elif t["k"] == "call":
            t["dest"] = resolve(t["dest"])
            t["args"] = [op_fix(a) for a in t["args"]]
        elif t["k"] == "assert":
            t["cond"] = op_fix(t["cond"])
            t["aops"] = [op_fix(a) for a in t["aops"]]
    return body


# ------------------------------------------------------------------------------------------ driver

def _callee_key(t, bodies):
    if "indirect" in t:
        return None
    c = t.get("callee") or ""
    if c in bodies:
        return c
    s = strip_generics(c)
    if s in bodies:
        return s
    return None


def _fn_value_refs(bodies):
    """Keys of functions used as values (passed as arguments, stored): these cannot be expanded away."""
    out = set()

    def scan_op(o):
        c = o.get("const") if isinstance(o, dict) else None
        if c and "fn" in c:
            out.add(c["fn"])
            out.add(strip_generics(c["fn"]))

    for j in bodies.values():
        for blk in j["blocks"]:
            for s in blk["stmts"]:
                if "lhs" not in s:
                    continue
                rv = s["rv"]
                for key in ("a", "b"):
                    if key in rv:
                        scan_op(rv[key])
                for o in rv.get("ops", []):
                    scan_op(o)
            t = blk["term"]
            for a in t.get("args", []):
                scan_op(a)
    return out


def _ret_defs(j):
    live = _live(j)
    n = 0
    for b in live:
        blk = j["blocks"][b]
        if blk["cleanup"]:
            continue
        for s in blk["stmts"]:
            if "lhs" in s and s["lhs"]["l"] == 0 and not s["lhs"]["p"]:
                n += 1
        t = blk["term"]
        if t["k"] == "call" and t["dest"]["l"] == 0 and not t["dest"]["p"]:
            n += 1
    return n


def _tested(j, dest):
    """Is the (local) destination of a call branched on or combined in the caller?"""
    if dest["p"]:
        return True
    l = dest["l"]
    if l == 0:
        return False

    def is_l(o):
        p = o.get("copy") or o.get("move")
        return p is not None and p["l"] == l

    for blk in j["blocks"]:
        if blk["cleanup"]:
            continue
        t = blk["term"]
        if t["k"] == "switch" and is_l(t["discr"]):
            return True
        for s in blk["stmts"]:
            if "lhs" not in s:
                continue
            rv = s["rv"]
            if rv["k"] in ("unop", "binop") and (is_l(rv["a"]) or ("b" in rv and is_l(rv["b"]))):
                return True
            if rv["k"] == "use" and is_l(rv["a"]) and not (s["lhs"]["l"] == 0 and not s["lhs"]["p"]):
                return True
    return False


ACCESSOR_TRAITS = ("std::ops::Index", "std::ops::Deref", "std::convert::From", "std::convert::TryFrom", "std::convert::AsRef", "std::convert::AsMut", "std::borrow::Borrow", "std::iter::Iterator", "std::iter::IntoIterator",
                   "std::default::Default", "std::str::FromStr")


def helpers_of(facts, known):
    bodies = {j["key"]: j for j in facts["bodies"]}
    fnvals = _fn_value_refs(bodies)
    known_traits = {(_impl_id(k) or ("",))[0] for k in known} | {k.rsplit("::", 1)[0] for k in known}
    cand = set()
    for k, j in bodies.items():
        if j["kind"] != "fn":
            continue
        if k in known or strip_generics(k) in known:
            continue
        if k in fnvals:
            continue
        if len(j["blocks"]) > MAX_BLOCKS:
            continue
        if k.startswith("<") or "::<impl " in k:
            # trait implementations are reached through trait dispatch and named by rules as `<T as Trait>::m`;
            # a new impl is new behaviour, not a helper - except a new impl of one of std's accessor / operator / conversion
            # traits (`rights[kind]`, `Delta::from(direction)`, `for s in squares`): sugar for a call of a private helper,
            # statically resolved at every call site, and read like one
            iid = _impl_id(k)
            new_trait = iid is not None and not iid[0].startswith(("std::", "core::", "alloc::")) and iid[0] not in known_traits
            if iid is None or not (iid[0].startswith(ACCESSOR_TRAITS) or new_trait):
                # (an impl of a trait the reference tree does not have at all - a seam put in front of existing code - is a
                # helper as well: it is reached only where its call was resolved to it)
                continue
        if k.split("::")[-1] in ("main",) or "::tests::" in k or k.startswith("tests::"):
            continue
        cand.add(k)
    # drop recursive helpers (cycles among candidates, including self-calls)
    calls = {}
    for k in cand:
        cs = set()
        for blk in bodies[k]["blocks"]:
            t = blk["term"]
            if t["k"] in ("call", "tailcall"):
                ck = _callee_key(t, bodies)
                if ck in cand:
                    cs.add(ck)
        calls[k] = cs
    changed = True
    while changed:
        changed = False
        for k in list(cand):
            # reachable set
            seen = set()
            stack = list(calls[k])
            while stack:
                x = stack.pop()
                if x in seen:
                    continue
                seen.add(x)
                stack.extend(calls.get(x, ()))
            if k in seen:
                cand.discard(k)
                for c in calls.values():
                    c.discard(k)
                changed = True
    return cand


# A from-scratch computation rewritten to *call* the incremental one (the key of a position built by calling the four
# key mutators on an empty key, R2-6 / R11-2) is read as the words it XORs: these calls, which the reference tree does not
# have, are expanded in the caller although the callees are functions of the reference tree (and stay ones).
ZFROM_KEY = "<board::zkey::ZKey as std::convert::From<&board::Board>>::from"
FORCED = {ZFROM_KEY: {"board::zkey::ZKey::add_or_remove_piece", "board::zkey::ZKey::change_castling_rights",
                      "board::zkey::ZKey::change_en_passant", "board::zkey::ZKey::change_turn"}}


def force_inline(facts):
    bodies = {j["key"]: j for j in facts["bodies"]}
    adts = {a["path"]: a for a in facts["adts"]}
    log = []
    for caller, callees in FORCED.items():
        j = bodies.get(caller)
        if j is None:
            continue
        n = 0
        for _round in range(3):
            for bi in range(len(j["blocks"])):
                blk = j["blocks"][bi]
                t = blk["term"]
                if blk["cleanup"] or t["k"] != "call":
                    continue
                ck = _callee_key(t, bodies)
                if ck in callees and len(j["blocks"]) < 3000:
                    _splice(j, bi, bodies[ck], "%s@%s" % (ck, t.get("line")))
                    n += 1
        if n:
            _fold_switches(j, adts)
            _resolve_refs(j)
            log.append({"helper": "(forced) the key mutators", "into": caller, "sites": n})
    return log


def resolve_std_wrappers(facts):
    """std's generic one-liners that only forward to a trait impl of the crate are read as that impl: `s.parse::<T>()` is
    `<T as FromStr>::from_str(s)`, `x.into()` into a crate type U is `<U as From<X>>::from(x)` (the blanket impl)."""
    keys = {j["key"] for j in facts["bodies"]}
    by_id = {}
    for k in keys:
        iid = _impl_id(k)
        if iid:
            by_id[iid] = k
    log = []
    for j in facts["bodies"]:
        for blk in j["blocks"]:
            t = blk["term"]
            if t["k"] != "call" or blk["cleanup"]:
                continue
            c = t.get("callee") or ""
            tgt = None
            if c == "core::str::<impl str>::parse" and len(t.get("substs") or []) == 1:
                tgt = by_id.get(("std::str::FromStr", t["substs"][0], "from_str"))
            elif c == "<T as std::convert::Into<U>>::into" and len(t.get("substs") or []) == 2:
                tgt = by_id.get(("std::convert::From<%s>" % t["substs"][0], t["substs"][1], "from"))
            if tgt is None and t.get("ikind") == "Virtual" and (t.get("substs") or [""])[0].startswith("dyn ") and "::" in c:
                # a call through a trait object of a crate trait that has exactly one implementation goes to that one
                tr, meth = c.rsplit("::", 1)
                impls = [k for (itr, _ty, m), k in by_id.items() if itr == tr and m == meth]
                if len(impls) == 1 and not tr.startswith(("std::", "core::", "alloc::")):
                    tgt = impls[0]
            if tgt is not None:
                t["wrapper"] = c
                t["callee"] = tgt
                t["decl"] = tgt
                t["local"] = True
                t["substs"] = []
                t["inst_substs"] = []
                log.append({"in": j["key"], "wrapper": c, "now": tgt})
    facts["std_wrappers_resolved"] = log
    return log


def apply(facts, known=None):
    """Expand helper calls in place.  Returns the log: list of {helper, into, sites}."""
    if known is None:
        known = known_functions()
    resolve_std_wrappers(facts)
    # renames are resolved in rounds: a function told apart from its twin only by what it calls can be recognised once
    # the renamed functions it calls have their names back
    facts["renamed_types"] = [{"now": n, "anchor": m} for n, m in rename_types(facts)]
    facts["renamed_variants"] = [{"adt": a, "now": n, "anchor": o} for a, n, o in rename_variants(facts)]
    facts["renamed_items"] = [{"now": n, "anchor": m} for n, m in rename_items(facts)]
    facts["renamed_traits"] = [{"now": n, "anchor": m} for n, m in rename_traits(facts, known)]
    facts["renamed"] = []
    for _round in range(4):
        pairs = rename_anchors(facts, known)
        if not pairs:
            break
        facts["renamed"] += [{"now": n, "anchor": m} for n, m in pairs]
    facts["renamed_fields"] = [{"adt": a, "variant": v, "now": n, "anchor": o} for a, v, n, o in rename_fields(facts)]
    helpers = helpers_of(facts, known)
    facts["inlined"] = []
    if not helpers:
        from . import unroll, expand, pipeline
        facts["inlined"] += force_inline(facts)
        pipeline.apply(facts)
        expand.apply(facts)
        unroll.apply(facts)
        from . import specialise
        specialise.apply(facts)
        return facts["inlined"]
    bodies = {j["key"]: j for j in facts["bodies"]}
    adts = {a["path"]: a for a in facts["adts"]}
    log = {}
    touched = set()
    for _round in range(MAX_ROUNDS):
        any_site = False
        for key, j in bodies.items():
            if j["kind"] not in ("fn", "closure"):
                continue
            n = len(j["blocks"])
            for bi in range(n):
                blk = j["blocks"][bi]
                t = blk["term"]
                if blk["cleanup"] or t["k"] != "call":
                    continue
                ck = _callee_key(t, bodies)
                if ck is None or ck not in helpers or ck == key:
                    continue
                if len(j["blocks"]) + len(bodies[ck]["blocks"]) > 4000:
                    continue
                if bodies[ck]["locals"][0]["ty"] == "bool" and _ret_defs(bodies[ck]) > 1 and _tested(j, t["dest"]):
                    # a predicate with several exits (`a || !b`) whose result is branched on: expanding it would turn
                    # the caller's test into a switch on a merged value; the rules recognise such predicates as
                    # wrappers of the tests they contain instead
                    continue
                tag = "%s@%s" % (ck, t.get("line"))
                _splice(j, bi, bodies[ck], tag)
                log[(ck, key)] = log.get((ck, key), 0) + 1
                touched.add(key)
                any_site = True
        if not any_site:
            break
    for key in touched:
        _fold_switches(bodies[key], adts)
        _resolve_refs(bodies[key])
    # a helper that hands back Some(..) / None / Ok(..) built in its arms, tested by the caller right away (`match next()`,
    # `if let Some(kind) = corner_kind(..)`): each arm continues where the caller's test sends that variant
    from . import expand as _expand
    for key in touched:
        try:
            _expand.thread_variant_switches(bodies[key], adts)
        except Exception:      # a shape the threading does not know: leave the body as spliced
            pass
    # helpers with no remaining direct call are dropped
    still = set()
    for key, j in bodies.items():
        if key in helpers:
            continue
        for blk in j["blocks"]:
            t = blk["term"]
            if t["k"] in ("call", "tailcall"):
                ck = _callee_key(t, bodies)
                if ck in helpers:
                    still.add(ck)
    # a kept helper keeps the helpers it calls
    # ... and the `next` of a new iterator type stays: values of that type also travel through std adaptors (`.map(..)`,
    # `.collect()`), where nothing calls `next` directly, and the rules read what such an iterator yields from this body
    gone = {h for h in helpers if h not in still and not ((_impl_id(h) or ("",))[0].startswith("std::iter::Iterator") and h.endswith("::next"))}
    first_caller = {}
    for (h, k), _n in sorted(log.items()):
        first_caller.setdefault(h, k)
    for j in facts["bodies"]:
        hops = 0
        while j.get("parent") in gone and j["parent"] in first_caller and hops < MAX_ROUNDS:
            j["parent"] = first_caller[j["parent"]]
            hops += 1
    facts["bodies"] = [j for j in facts["bodies"] if j["key"] not in gone]
    facts["inlined"] = [{"helper": h, "into": k, "sites": n} for (h, k), n in sorted(log.items())]
    facts["helpers_dropped"] = sorted(gone)
    facts["inlined"] += force_inline(facts)
    from . import unroll, expand, pipeline
    pipeline.apply(facts)
    expand.apply(facts)
    unroll.apply(facts)
    from . import specialise
    specialise.apply(facts)
    return facts["inlined"]
