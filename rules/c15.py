"""C15  No input line can kill or wedge the engine; quit and end-of-input end it  (DESIGN 3, C15)."""
import os

from . import engine, mir, bounds
from . import common as C
from .mir import expr_str, walk, callee_is, const_int, op_place, strip_generics

PROP = "C15"
SCOPE_FILES = ("src/uci.rs", "src/uci/uci_command.rs", "src/main.rs", "src/logger.rs")
SCOPE_MODULES = ("uci::", "<uci::", "logger::", "<logger::")
ROOTS = ("uci::start", "main")
UCI_LOOP = "uci::Uci::uci_loop"
EXEC = "uci::Uci::execute_command"
UCICOMMAND = "uci::uci_command::UCICommand"

# Calls that leave the input-handling layer, with the assumption under which they cannot panic.
BOUNDARY = {
    "board::boardbuilder::BoardBuilder::construct_starting_board": "constant start position",
    "board::boardbuilder::BoardBuilder::build": "only called on the constant start position from this layer (its asserts hold for it)",
    "board::serialize::<impl board::Board>::from_fen": "statement: FEN arguments are assumed to be valid FEN",
    "board::Board::find_move": "works on a well-formed Board (C01/C02); returns Err for an unknown move",
    "board::Board::make_move": "applied to a move returned by find_move on the same board (C08.apply)",
    "search::Search::new": "clones the board; no input-dependent panic site",
    "search::limits::SearchLimits::new": "const constructor",
    "search::limits::SearchLimits::depth": "const setter", "search::limits::SearchLimits::nodes": "const setter",
    "search::limits::SearchLimits::movetime": "const setter", "search::limits::SearchLimits::white_time": "const setter",
    "search::limits::SearchLimits::black_time": "const setter", "search::limits::SearchLimits::white_increment": "const setter",
    "search::limits::SearchLimits::black_increment": "const setter",
    "board::zkey::ZTable::init": "start-up, before any input is read",
    "bench::bench": "separate `bench` sub-command, reads no input",
    "<search::limits::SearchLimits as std::cmp::PartialEq>::eq": "derived", "<search::limits::SearchLimits as std::clone::Clone>::clone": "derived",
}

# std callees that can panic on some argument values (the part of std this layer could plausibly use)
MAY_PANIC = ("::unwrap", "::expect", "::unwrap_err", "::expect_err", "::index", "::index_mut", "::split_at", "::split_at_mut",
             "::copy_from_slice", "::clone_from_slice", "::swap_remove", "Vec::remove", "Vec::insert", "Vec::drain", "Vec::split_off", "Vec::truncate_front",
             "String::remove", "String::insert", "String::insert_str", "String::drain", "String::split_off", "String::replace_range",
             "String::truncate", "str::split_at", "::split_at_mut", "::floor_char_boundary_unchecked", "str::get_unchecked", "::slice_unchecked",
             "::borrow_mut", "RefCell::borrow", "::chunks", "::chunks_exact", "::windows", "::step_by", "::from_digit", "::to_digit",
             "::pow", "::abs", "::swap", "::rotate_left", "::rotate_right", "::select_nth_unstable", "::unwrap_unchecked",
             "Duration::new", "Duration::from_secs_f64", "Duration::from_secs_f32", "<std::time::Instant as std::ops::Sub", "<std::time::Instant as std::ops::Add",
             "::join_unwrap", "thread::Builder::spawn")
BLOCKING = ("JoinHandle::join", "::recv", "::recv_timeout", "thread::park", "thread::sleep", "Condvar::wait", "Mutex::lock", "RwLock::read", "RwLock::write",
            "Barrier::wait", "::read_to_string", "::read_to_end", "::read_exact", "ScopedJoinHandle::join", "thread::scope")


def main_thread_functions(ix, roots=ROOTS):
    from . import c10
    spawned = {clo for (_b, _bi, _t, clo) in c10.spawn_sites(ix) if clo}
    seen = set()
    stack = [r for r in roots if r in ix.bodies]
    while stack:
        k = stack.pop()
        if k in seen or k in spawned:
            continue
        seen.add(k)
        stack.extend(ix.callees(k))
    return seen, spawned


def scope_bodies(ix):
    reach, spawned = main_thread_functions(ix)
    out = []
    for k in sorted(reach):
        b = ix.bodies[k]
        # the input layer: by source file, or (a file renamed or split) by module path
        if b.kind in ("fn", "closure") and (b.file in SCOPE_FILES or k.startswith(SCOPE_MODULES) or k in ("main", "start")):
            out.append(b)
    return out, reach


def capture_map_for(ix, closure_body):
    """For a closure: environment field index -> what the parent captured (place, by_ref, parent's linear
    term of the captured value, parent's slice identity), plus the parent body and the creation block."""
    parent = ix.bodies.get(closure_body.parent)
    if parent is None:
        return {}, None, None, None
    pres = bounds.Resolver(parent, ix)
    for bi, i, s in parent.stmts():
        rv = s["rv"]
        if rv.get("k") == "agg" and rv.get("agg") == "closure" and rv["closure"] == closure_body.key:
            m = {}
            for n, o in enumerate(rv["ops"]):
                p = op_place(o)
                by_ref = False
                place = p
                if p is not None and mir.is_local(p):
                    sd = parent.single_def(p["l"])
                    if sd and sd[2].get("k") == "ref":
                        by_ref = True
                        place = sd[2]["p"]
                lin = None
                if place is not None:
                    lin = pres.lin_place(place)
                    if lin[0] is not None and lin[0][0] == "var":
                        lin = None  # may be reassigned before the closure runs
                m[str(n)] = {"place": place, "by_ref": by_ref, "lin": lin,
                             "slice": pres.slice_key(place) if place is not None else "?"}
            return m, parent, bi, pres
    return {}, parent, None, pres


def site_key(b, kind, what):
    return "%s:%s:%s" % (b.key, kind, what)


def parent_facts(ix, closure_body):
    """Facts established in the parent before the closure is created, about values that cannot change
    before it runs (single-definition values and slice lengths)."""
    cmap, parent, cbi, pres = capture_map_for(ix, closure_body)
    if not cmap or cbi is None:
        return cmap, []
    facts, _g = bounds.collect_facts(pres, cbi)
    facts = facts + pres.extra_axioms
    out = []

    def tr(key):
        if key is None:
            return None
        if key[0] == "var":
            return False
        if key[0] == "len":
            return ("len", "P:" + key[1])
        return ("P", key)
    for (x, y, c) in facts:
        tx, ty = tr(x), tr(y)
        if tx is False or ty is False:
            continue
        out.append((tx, ty, c))
    return cmap, out


class SiteChecker:
    def __init__(self, ix, b):
        self.ix = ix
        self.b = b
        cmap, pfacts = ({}, [])
        if b.kind == "closure":
            cmap, pfacts = parent_facts(ix, b)
        self.res = bounds.Resolver(b, ix, capture_map=cmap)
        if cmap:
            # inside the closure a captured by-ref slice renders as `parent` expr; lens must unify with the parent's text
            pass
        self.pfacts = pfacts

    def facts_at(self, bi):
        facts, guards = bounds.collect_facts(self.res, bi)
        return facts, guards

    def prove(self, bi, goals):
        """goals: list of (x_term, y_term, extra) meaning x <= y + extra with terms (key, off)."""
        facts, guards = self.facts_at(bi)
        facts = list(facts) + list(self.pfacts)
        proved = []
        for (x, y, extra) in goals:
            goal = (x[0], y[0], y[1] - x[1] + extra)
            all_facts = facts + self.res.extra_axioms
            all_facts = all_facts + self.res.axioms(bounds.keys_of(all_facts + [goal]))
            ok = bounds.entails(all_facts, goal)
            if not ok:
                ok = self._prove_by_cases(bi, x, y, extra, facts)
            proved.append(ok)
        return proved, guards

    def _prove_by_cases(self, bi, x, y, extra, facts_at_use):
        """`let end = match v { Some(i) if i > start => i, None => args.len(), .. }; &args[start + 1..end]`: a bound that is a
        variable assigned once in each of several arms (none of them in a loop) is proved arm by arm, each with the guards of
        its arm; what is known at the use and does not mention the variable holds in every arm."""
        b = self.b
        for side in (0, 1):
            term = (x, y)[side]
            k = term[0]
            if k is None or k[0] != "var":
                continue
            l = k[1]
            defs = b.defs().get(l, [])
            if len(defs) < 2 or any(b.in_loop(d[0]) or d[2].get("k") == "partial" for d in defs) or l in b.mut_borrowed_locals() or not all(b.dominates(d[0], bi) or bi in b.reachable_from(d[0]) for d in defs):
                continue
            keep = [f for f in facts_at_use if k not in (f[0], f[1])]
            every = True
            for (db, _di, rv) in defs:
                if rv.get("k") == "call":
                    val = self.res.lin_rvalue({"k": "call", "t": rv["t"]}, l, 0)
                else:
                    val = self.res.lin_rvalue(rv, l, 0)
                if val[0] is not None and val[0][0] == "tmp":
                    every = False
                    break
                val = (val[0], val[1] + term[1])
                nx, ny = (val, y) if side == 0 else (x, val)
                goal = (nx[0], ny[0], ny[1] - nx[1] + extra)
                arm_facts, _g = bounds.collect_facts(self.res, db)
                allf = keep + list(arm_facts) + list(self.pfacts) + self.res.extra_axioms
                allf = allf + self.res.axioms(bounds.keys_of(allf + [goal]))
                if not bounds.entails(allf, goal):
                    every = False
                    break
            if every:
                return True
        return False

    def term_str(self, t):
        k, c = t
        if k is None:
            return str(c)
        if k[0] in ("var", "tmp", "arg", "payload"):
            base = self.b.local_name(k[1])
        elif k[0] == "P":
            parent = self.ix.bodies.get(self.b.parent)
            kk = k[1]
            base = "captured:" + (parent.local_name(kk[1]) if parent and kk[0] in ("var", "tmp", "arg", "payload") else str(kk[1]))
        elif k[0] == "len":
            base = "len(%s)" % k[1]
        else:
            base = str(k[1])
        return base if c == 0 else "%s%+d" % (base, c)


def norm_slice_text(res, s):
    return s


def rule_scope(ctx):
    bodies, reach = scope_bodies(ctx.ix)
    for b in bodies:
        ctx.functions.add(b.key)
    ctx.floor("input-handling functions reachable from uci::start on the main thread", len(bodies), 14)
    for k in (UCI_LOOP, EXEC, "uci::uci_command::UCICommand::new", "uci::uci_command::UCICommand::parse_go",
              "uci::uci_command::UCICommand::parse_option", "uci::uci_command::UCICommand::parse_position", "uci::Uci::load_position", "uci::Uci::go"):
        ctx.check(k in {b.key for b in bodies}, "in-scope:%s" % k, "%s is analysed" % C.short(k), bad_what="%s is not reachable from uci::start any more (anchor moved)" % k)


def rule_index(ctx):
    """Every bounds Assert and every range Index in the input layer is implied by dominating guards."""
    n = audit_index(ctx, scope_bodies(ctx.ix)[0])
    ctx.floor("index sites in the input layer", n, 2)    # 26 on the reference tree; slice patterns / get() legitimately remove sites


def type_max_of_index(ix, b, op):
    """255 / 65535 when the index operand is a u8 / u16 value widened to usize (usize::from(x), `x as usize`), else None."""
    e = mir.Sym(b, ix).operand(op)
    e = mir.strip_copies(e) if not (e[0] == "call" and e[1].endswith(">::from")) else e
    src = None
    if e[0] == "call" and isinstance(e[1], str) and e[1].endswith("From<u8> for usize>::from"):
        src = "u8"
    elif e[0] == "call" and isinstance(e[1], str) and e[1].endswith("From<u16> for usize>::from"):
        src = "u16"
    elif e[0] == "cast" and e[2] == "usize":
        p = op_place(op)
        inner = e[1]
        # the operand's own type is usize; look at what was cast (`x as usize` of a u8 / u16 is as bounded as usize::from(x))
        if p is not None and mir.is_local(p):
            sd = b.single_def(p["l"])
            if sd is not None and sd[2].get("k") == "cast" and sd[2].get("ck") == "IntToInt" and sd[2].get("from") in ("u8", "u16") and sd[2].get("to") == "usize":
                src = sd[2]["from"]
    return {"u8": 255, "u16": 65535}.get(src)


def audit_index(ctx, bodies):
    ix = ctx.ix
    n = 0
    for b in bodies:
        sc = None
        seen_keys = {}
        for blk in b.blocks:
            if blk.cleanup or blk.idx not in b.live_blocks():
                continue
            t = blk.term
            if t["k"] == "assert" and t["akind"] == "bounds":
                sc = sc or SiteChecker(ix, b)
                n += 1
                ln = sc.res.lin(t["aops"][0])
                idx = sc.res.lin(t["aops"][1])
                (ok,), guards = sc.prove(blk.idx, [(idx, ln, -1)])
                desc = "%s[%s]" % (ln[0][1] if ln[0] and ln[0][0] == "len" else "?", sc.term_str(idx))
                key = dedup(seen_keys, site_key(b, "index", desc))
                tmax = type_max_of_index(ix, b, t["aops"][1])
                if not ok and ln[0] is None and tmax is not None and tmax < ln[1]:
                    ctx.ok(key, "the index is a %s widened to usize (at most %d) and the array has %d elements" % ("u8" if tmax == 255 else "u16", tmax, ln[1]), b.where(blk.idx))
                    continue
                if ok:
                    ctx.ok(key, "index %s < %s follows from dominating guard(s) at line(s) %s with no reassignment in between"
                           % (sc.term_str(idx), sc.term_str(ln), [b.blocks[g].term["line"] for g in guards]), b.where(blk.idx))
                else:
                    ctx.bad(key, "slice index %s is not implied by any dominating length test that is still valid at this point (the index variable is reassigned after the test, or there is no test): a short argument list panics the main thread"
                            % desc, b.where(blk.idx))
            if t["k"] == "call" and callee_is(t, "*::index", "*::index_mut") and "Index" in (t.get("decl") or "") and t.get("args"):
                sc = sc or SiteChecker(ix, b)
                n += 1
                self_ty = (t.get("substs") or ["?"])[-1] if t.get("substs") else "?"
                if "str" in strip_generics(t.get("callee", "")) and "slice" not in strip_generics(t.get("callee", "")):
                    ctx.bad(site_key(b, "index", "str-slice"), "string slicing can panic on a char boundary and is not discharged by a length test", b.where(blk.idx))
                    continue
                slice_k = ("len", sc.res.slice_key(t["args"][0]))
                ity = operand_ty(b, t["args"][1])
                if ity == "usize":
                    idx = sc.res.lin(t["args"][1])
                    (ok,), guards = sc.prove(blk.idx, [(idx, (slice_k, 0), -1)])
                    desc = "%s[%s]" % (slice_k[1], sc.term_str(idx))
                    key = dedup(seen_keys, site_key(b, "index", desc))
                    ctx.check(ok, key, "index %s is within bounds by dominating guard(s) at line(s) %s" % (desc, [b.blocks[g].term["line"] for g in guards]), b.where(blk.idx),
                              bad_what="index %s is not implied by any dominating length test that is still valid here" % desc)
                    continue
                rng = range_terms(sc.res, b, t["args"][1])
                if rng is None:
                    ctx.bad(site_key(b, "index", "unknown-range"), "cannot read the range of this Index call; cannot decide", b.where(blk.idx))
                    continue
                lo, hi, kind = rng
                goals = []
                if lo is not None and hi is not None:
                    goals = [(lo, hi, 0), (hi, (slice_k, 0), 0)]
                elif lo is not None:
                    goals = [(lo, (slice_k, 0), 0)]
                elif hi is not None:
                    goals = [(hi, (slice_k, 0), 0)]
                res_ok, guards = sc.prove(blk.idx, goals)
                desc = "%s[%s..%s]" % (slice_k[1], sc.term_str(lo) if lo else "", sc.term_str(hi) if hi else "")
                key = dedup(seen_keys, site_key(b, "index", desc))
                if all(res_ok):
                    ctx.ok(key, "range %s is within bounds by dominating guard(s) at line(s) %s" % (desc, [b.blocks[g].term["line"] for g in guards]), b.where(blk.idx))
                else:
                    which = []
                    if lo is not None and hi is not None and not res_ok[0]:
                        which.append("start <= end")
                    if not res_ok[-1]:
                        which.append("end <= len")
                    ctx.bad(key, "range index %s: %s is not implied by the dominating tests; a suitable argument list panics the main thread" % (desc, " and ".join(which) or "bound"), b.where(blk.idx))
    return n


def dedup(seen, key):
    """Several sites of one function may render identically (args[idx] x8): number them in body order."""
    n = seen.get(key, 0) + 1
    seen[key] = n
    return key if n == 1 else "%s#%d" % (key, n)


def operand_ty(b, op):
    c = op.get("const")
    if c is not None:
        return c.get("ty")
    p = op_place(op)
    return p.get("ty") if p is not None else None


def range_terms(res, b, op):
    """(lo, hi, kind) linear terms of a Range / RangeFrom / RangeTo argument (hi exclusive)."""
    p = op_place(op)
    if p is None or not mir.is_local(p):
        return None
    sd = b.single_def(p["l"])
    if sd is not None and sd[2].get("k") == "call" and (sd[2]["t"].get("callee") or "").endswith(("RangeInclusive<Idx>::new", "RangeInclusive::<Idx>::new", "RangeInclusive::new")) and len(sd[2]["t"]["args"]) == 2:
        # lo..=hi is lo..hi+1
        lo, hi = res.lin(sd[2]["t"]["args"][0]), res.lin(sd[2]["t"]["args"][1])
        return (lo, (hi[0], hi[1] + 1), "range")
    if sd is None or sd[2].get("k") != "agg":
        return None
    rv = sd[2]
    adt = strip_generics(rv.get("adt", ""))
    ops = rv["ops"]
    if adt.endswith("ops::RangeFrom") or adt.endswith("range::RangeFrom"):
        return (res.lin(ops[0]), None, "from")
    if adt.endswith("ops::RangeTo"):
        return (None, res.lin(ops[0]), "to")
    if adt.endswith("ops::Range") or adt.endswith("range::Range"):
        return (res.lin(ops[0]), res.lin(ops[1]), "range")
    if adt.endswith("RangeFull"):
        return (None, None, "full")
    return None


def counter_like(b, local):
    """Every definition of the local is a constant or itself plus a small non-negative constant."""
    ds = b.defs().get(local, [])
    if not ds:
        return False
    for (_bi, _i, rv) in ds:
        k = rv.get("k")
        if k == "use":
            c = const_int(rv["a"])
            if c is not None:
                continue
            p = op_place(rv["a"])
            # idx = move tmp.0 where tmp = AddWithOverflow(idx, c)
            if p is not None and len(p["p"]) == 1 and isinstance(p["p"][0], dict) and p["p"][0].get("n") == "0":
                sd = b.single_def(p["l"])
                if sd and sd[2].get("k") == "binop" and sd[2]["op"] in ("AddWithOverflow",):
                    a, c2 = op_place(sd[2]["a"]), const_int(sd[2]["b"])
                    if a is not None and mir.is_local(a) and c2 is not None and 0 <= c2 <= 1024:
                        src = a["l"]
                        # through a copy
                        sdd = b.single_def(src)
                        if src == local or (sdd and sdd[2].get("k") == "use" and op_place(sdd[2]["a"]) and op_place(sdd[2]["a"])["l"] == local):
                            continue
            return False
        return False
    return True


def rule_arith(ctx):
    """Overflow / division asserts in the input layer cannot fire."""
    n = audit_arith(ctx, scope_bodies(ctx.ix)[0])
    if ctx.config == "dev":
        ctx.floor("arithmetic asserts in the input layer", n, 2)
    else:
        ctx.check(True, "arith-sites-enumerated", "%d arithmetic assert(s) in this configuration (overflow checks are compiled out in release)" % n)


def quotient_sum(b, t):
    """a/c1 + b/c2 with constant divisors >= 2 cannot overflow the common unsigned type."""
    for o in t["aops"]:
        p = op_place(o)
        if p is None or not mir.is_local(p):
            return False
        sd = b.single_def(p["l"])
        if not (sd and sd[2].get("k") == "binop" and sd[2]["op"] == "Div" and (const_int(sd[2]["b"]) or 0) >= 2):
            return False
    return True


def audit_arith(ctx, bodies):
    ix = ctx.ix
    n = 0
    for b in bodies:
        sc = None
        for blk in b.blocks:
            if blk.cleanup or blk.idx not in b.live_blocks():
                continue
            t = blk.term
            if t["k"] != "assert" or t["akind"] == "bounds":
                continue
            if t["akind"].startswith("other:MisalignedPointerDereference") or t["akind"].startswith("other:NullPointerDereference"):
                # debug-build checks in front of a raw-pointer dereference: not arithmetic, and not a function of the
                # input (unsafe code is audited by C16.unsafe; references and statics are always aligned and non-null)
                continue
            n += 1
            sc = sc or SiteChecker(ix, b)
            kind = t["akind"]
            if kind in ("div0", "rem0"):
                d = cond_constant(b, t)
                ctx.check(d is not None, site_key(b, "arith", "%s:const-divisor" % kind), "division by a non-zero constant", b.where(blk.idx),
                          bad_what="division whose divisor is not a non-zero constant: may panic on input")
                continue
            if kind.startswith("overflow:Add") and quotient_sum(b, t):
                ctx.ok(site_key(b, "arith", "add:quotients"), "sum of two quotients by constants >= 2 cannot overflow", b.where(blk.idx))
                continue
            if kind.startswith("overflow:Add"):
                a = sc.res.lin(t["aops"][0])
                c = sc.res.lin(t["aops"][1])
                if a[0] is None:
                    a, c = c, a
                desc = "%s+%s" % (sc.term_str(a), sc.term_str(c))
                key = site_key(b, "arith", "add:%s" % desc)
                if a[0] is None and c[0] is None and 0 <= a[1] + c[1] < 1 << 31:
                    ctx.ok(key, "sum of two small constants", b.where(blk.idx))
                elif c[0] is None and 0 <= c[1] <= 1 << 32 and a[0] is not None:
                    # bounded by a slice length (<= isize::MAX) ...
                    lens = [k for k in bounds.keys_of(sc.facts_at(blk.idx)[0] + sc.res.extra_axioms + sc.pfacts) if k and k[0] == "len"]
                    bounded = False
                    for L in lens:
                        (ok,), _g = sc.prove(blk.idx, [(a, (L, 0), 0)])
                        if ok:
                            bounded = True
                    # ... or a counter that only moves by small constants (cannot wrap within 2^63 steps)
                    if not bounded and a[0][0] == "var" and counter_like(b, a[0][1]):
                        bounded = True
                    ctx.check(bounded, key, "usize addition %s cannot wrap: the variable is bounded by a slice length or is a loop counter moved by small constants" % desc, b.where(blk.idx),
                              bad_what="addition %s may overflow (no bound found for the variable): panics in debug builds, wraps in release" % desc)
                else:
                    ctx.bad(key, "addition %s with a non-constant or huge addend may overflow" % desc, b.where(blk.idx))
                continue
            ctx.bad(site_key(b, "arith", kind), "arithmetic check `%s` is not discharged" % kind, b.where(blk.idx))
    return n


def cond_constant(b, t):
    """For div0/rem0 asserts: the divisor operand if it is a non-zero constant."""
    p = op_place(t["cond"])
    if p is None:
        return None
    sd = b.single_def(p["l"])
    if sd and sd[2].get("k") == "binop" and sd[2]["op"] == "Eq":
        c = const_int(sd[2]["a"])
        z = const_int(sd[2]["b"])
        if c is not None and z == 0 and c != 0:
            return c
    return None


def quit_filtered(ix):
    """Every call of execute_command is dominated by a test that routes UCICommand::Quit elsewhere."""
    adt = ix.adt(UCICOMMAND)
    quit_idx = [int(v["discr"]) for v in adt["variants"] if v["name"] == "Quit"]
    if not quit_idx:
        return False, "no Quit variant"
    callers = [k for k in ix.callers(EXEC) if ix.bodies[k].kind in ("fn", "closure")]
    if not callers:
        return False, "no caller"
    for ck in callers:
        cb = ix.bodies[ck]
        sym = mir.Sym(cb, ix)
        for bi, t in cb.calls():
            if not callee_is(t, EXEC):
                continue
            ok = False
            qe = C.variant_test_edges(ix, cb, UCICOMMAND, "Quit")
            for d, targets in qe.items():
                if d not in cb.dom()[bi]:
                    continue
                # the Quit edge must not reach the call
                if all(bi not in cb.threaded_reach(x) for x in targets):
                    ok = True
            if not ok:
                return False, "call in %s at line %s is not protected by a Quit test" % (ck, t["line"])
    return True, "callers: %s" % sorted(callers)


def quit_edge_reach(cb, sym, sw, target):
    """Blocks reachable when the command is Quit.  `matches!(cmd, Quit)` lowers to a bool temp set in both
    arms and switched on afterwards; follow that one indirection precisely."""
    blk = cb.blocks[target]
    # pattern: target block assigns `_f = true` then goto J; J switches on _f
    flag = None
    for s in blk.stmts:
        if mir.is_local(s["lhs"]) and s["rv"].get("k") == "use" and const_int(s["rv"]["a"]) in (0, 1):
            flag = (s["lhs"]["l"], const_int(s["rv"]["a"]))
    if flag and blk.term["k"] == "goto":
        j = cb.blocks[blk.term["target"]]
        if j.term["k"] == "switch":
            p = op_place(j.term["discr"])
            if p is not None and mir.is_local(p) and p["l"] == flag[0]:
                f, tr = C.switch_edges(j.term)
                nxt = tr if flag[1] else f
                out = set()
                for x in nxt:
                    out |= cb.reachable_from(x, include_start=True)
                return out
    return cb.reachable_from(target, include_start=True)


def rule_no_assert_on_input(ctx):
    """Diverging calls (panic!, assert!, unreachable!) in the input layer must be unreachable for every input."""
    n = audit_diverging(ctx, scope_bodies(ctx.ix)[0])
    ctx.check(True, "diverging-call-sites-enumerated", "%d diverging call site(s) enumerated in the input layer" % n)


def audit_diverging(ctx, bodies):
    ix = ctx.ix
    n = 0
    for b in bodies:
        sym = None
        for bi, t in b.calls():
            if t.get("target") is not None and not t.get("ret_never"):
                continue
            n += 1
            sym = sym or mir.Sym(b, ix)
            msg = panic_message(b, sym, bi)
            key = site_key(b, "panic", (msg or C.short(t.get("callee", "?")))[:60].replace(":", ";"))
            if b.key == EXEC and msg and "Quit" in msg:
                ok, why = quit_filtered(ix)
                ctx.check(ok, key, "the `unreachable!` of the Quit arm is dead: every caller of execute_command routes Quit away first (%s)" % why, b.where(bi),
                          bad_what="execute_command panics on Quit and a caller can pass Quit: %s" % why)
                continue
            ctx.bad(key, "an explicit panic (`%s`) is reachable here: if its condition can be true at run time the thread dies" % (msg or t.get("callee")), b.where(bi))
    return n


def panic_message(b, sym, bi):
    """Message literal feeding a panic_fmt call (looks one block back for fmt::Arguments)."""
    t = b.blocks[bi].term
    texts = []
    for a in t.get("args", []):
        e = sym.operand(a)
        for x in walk(e):
            if isinstance(x, tuple) and x[0] == "const" and isinstance(x[1], str):
                texts.append(x[1])
    return " ".join(texts) if texts else None


def rule_unwrap(ctx):
    """May-panic std calls in the input layer (unwrap/expect/remove/...)."""
    n = audit_may_panic(ctx, scope_bodies(ctx.ix)[0])
    ctx.check(True, "may-panic-sites-enumerated", "%d may-panic std call site(s) found in the input layer" % n)


def audit_may_panic(ctx, bodies):
    ix = ctx.ix
    n = 0
    for b in bodies:
        sym = None
        for bi, t in b.calls():
            c = strip_generics(t.get("callee") or "")
            if not c or t.get("local"):
                continue
            if c.endswith("::index") or c.endswith("::index_mut"):
                continue  # rule_index
            if not any(c.endswith(m) or m in c for m in MAY_PANIC):
                continue
            if c.endswith("::unwrap_or") or c.endswith("::unwrap_or_else") or c.endswith("::unwrap_or_default"):
                continue
            if c.endswith("_checked") or c.endswith("::checked_pow") or c.endswith("::checked_abs"):
                continue    # the Option-returning twins (split_at_checked, ..) do not panic
            n += 1
            sym = sym or mir.Sym(b, ix)
            recv = expr_str(sym.operand(t["args"][0])) if t.get("args") else ""
            key = site_key(b, "may-panic", "%s(%s)" % (C.short(c), recv[:70].replace(":", ";")))
            ctx.bad(key, "%s on %s can panic (an I/O error, a missing value or an out-of-range argument)" % (C.short(c), recv[:100]), b.where(bi))
    return n


def rule_boundary(ctx):
    """Calls from the input layer into the rest of the crate are the confirmed boundary table."""
    ix = ctx.ix
    bodies, reach = scope_bodies(ix)
    scope = {b.key for b in bodies}
    seen = {}
    for b in bodies:
        for bi, t in b.calls():
            for k in ix.call_targets(t):
                if k in scope:
                    continue
                kb = ix.bodies[k]
                if kb.kind == "closure" and kb.parent in scope:
                    continue
                seen.setdefault(k, (b, bi))
        for bi, i, s in b.stmts():
            rv = s["rv"]
            if rv.get("k") == "agg" and rv.get("agg") == "closure":
                pass
    for k, (b, bi) in sorted(seen.items()):
        ctx.check(k in BOUNDARY, "boundary:%s" % k, "boundary call %s (assumption: %s)" % (C.short(k), BOUNDARY.get(k)), b.where(bi),
                  bad_what="input-handling code calls %s, which is not in the confirmed boundary table: its panic sites have not been audited for input dependence" % k)
    ctx.floor("boundary callees", len(seen), 8)


def rule_move_text(ctx):
    """The boundary assumption on Board::find_move, decided: the move text (any string the GUI sends) is only ever compared
    with the notation of the legal moves - it is not parsed, sliced, indexed or converted to a square, so no string can make
    find_move panic or match a move it does not name."""
    from . import taint
    ix = ctx.ix
    b = ctx.body("board::Board::find_move")
    texts = [l for l in range(1, b.arg_count + 1) if b.locals[l]["ty"] in ("&str", "&std::string::String", "std::string::String")]
    ctx.check(len(texts) == 1, "find_move:one-text-argument", "find_move takes the move text as its one string argument", b.where(0), bad_what="find_move has %d string parameters" % len(texts))
    if len(texts) != 1:
        return
    stats = {}
    uses = taint.text_uses(ix, b, set(texts), stats=stats)
    for k in stats.get("bodies", ()):
        ctx.functions.add(k)
    for ub, bi, what in uses[:6]:
        ctx.bad("find_move:text-only-compared:%s" % C.short(ub.key), "in %s %s: arbitrary move text reaches code that can panic or accept a string that names no legal move (the text may only be compared with the legal moves' notation)" % (C.short(ub.key), what), ub.where(bi))
    ctx.check(not uses and stats.get("compares", 0) >= 1, "find_move:text-only-compared", "the move text is only compared (==) with the notation of generated moves; %d comparison site(s), followed through %d function/closure bodies" % (stats.get("compares", 0), len(stats.get("bodies", ()))),
              b.where(0), bad_what="%d other use(s) of the move text, %d comparison(s)" % (len(uses), stats.get("compares", 0)))


def rule_build_config(ctx):
    """What the build configuration contributes to "cannot kill the engine": panics unwind (a panic on the search thread -
    lock poisoning, a counter at its type's maximum - ends that thread, and the input loop keeps answering), instead of
    aborting the process."""
    cfg = ctx.ix.facts.get("cfg", {})
    ctx.check(cfg.get("panic") == "Unwind", "build:panics-unwind", "this configuration is built with panic = unwind", "Cargo.toml",
              bad_what="this configuration is built with panic = %s: any panic on the search thread now takes the whole engine down (the input loop dies with it)" % str(cfg.get("panic")).lower())


def rule_io_and_exits(ctx):
    """uci_loop: the result of read_line is inspected (no unwrap), the loop exits on count 0 (end of input),
    on a read error, and on Quit."""
    ix = ctx.ix
    b = ctx.body(UCI_LOOP)
    sym = ctx.sym(b)
    reads = [(bi, t) for bi, t in b.calls() if callee_is(t, "*::read_line", "*::read_until", "*Lines*::next")]
    # `for line in input.lines().map_while(Result::ok)`: the read happens inside `next`; the iteration ends at end of input and
    # at the first read error alike (map_while stops at the first None of Result::ok)
    line_iters = []
    for bi, t in b.calls():
        if (t.get("callee") or "").endswith("::next") and t.get("args"):
            q = op_place(t["args"][0])
            ty = b.locals[q["l"]]["ty"] if q is not None else ""
            if "std::io::Lines<" in ty:
                line_iters.append((bi, t, ty))
    if not reads and len(line_iters) == 1:
        rb, rt, ty = line_iters[0]
        ok_ty = ty.lstrip("&").replace("mut ", "").startswith("std::iter::MapWhile<std::io::Lines<") and "Result::<" in ty and "::ok}" in ty
        ctx.check(True, "%s:one-read" % UCI_LOOP, "uci_loop reads input at one site (an iterator over its lines)", b.where(rb))
        ctx.check(ok_ty, "%s:read-error-handled" % UCI_LOOP, "the line iterator ends at the first read error (map_while(Result::ok))", b.where(rb),
                  bad_what="uci_loop iterates over `%s`: a read error is neither an end of the loop nor handled (flatten()/filter_map(ok) spin on a persistent error; unwrap panics)" % ty[:120])
        parse = {bi for bi, t in b.calls() if callee_is(t, "uci::uci_command::UCICommand::new")}
        none_exit = False
        for blk in b.blocks:
            if blk.cleanup or blk.term["k"] != "switch":
                continue
            e = sym.operand(blk.term["discr"])
            if e[0] == "discr" and expr_str(e[1]) == b.local_name(rt["dest"]["l"]) or (e[0] == "discr" and isinstance(e[1], tuple) and e[1][0] == "call" and str(e[1][1]).endswith("::next") and "Lines" in ty):
                for a in blk.term["arms"]:
                    if a[0] == 0:
                        reach = b.threaded_reach(a[1])
                        none_exit = none_exit or (mir.EXIT in reach and not (reach & parse))
        ctx.check(none_exit, "%s:exit-on-end-of-input" % UCI_LOOP, "when the line iterator is exhausted the loop is left without parsing anything", b.where(rb),
                  bad_what="the exhausted line iterator does not end uci_loop")
        _quit_exit(ctx, ix, b, sym, parse, rb)
        return
    ctx.check(len(reads) == 1, "%s:one-read" % UCI_LOOP, "uci_loop reads input at one site", b.where(0), bad_what="uci_loop has %d read sites" % len(reads))
    if len(reads) != 1:
        return
    rb, rt = reads[0]
    res_local = rt["dest"]["l"]
    parse = {bi for bi, t in b.calls() if callee_is(t, "uci::uci_command::UCICommand::new")}
    # (1) the Result must not be unwrapped/expect-ed
    unwrapped = []
    for bi, t in b.calls():
        if callee_is(t, "*::unwrap", "*::expect") and t.get("args"):
            p = op_place(t["args"][0])
            if p is not None and p["l"] == res_local:
                unwrapped.append(bi)
    # read_line appends: the buffer it is given must be empty at every read (created or cleared on every way round the loop),
    # or one rejected line is glued in front of every later command
    buf = None
    if mir.callee_is(rt, "*::read_line") and len(rt["args"]) >= 2:
        q = op_place(rt["args"][1])
        for _ in range(5):
            sd = b.single_def(q["l"]) if q is not None and mir.is_local(q) else None
            if sd and sd[2].get("k") == "ref":
                q = sd[2]["p"]
                if not q["p"]:
                    buf = q["l"]
                    break
                if q["p"] == ["*"]:
                    q = {"l": q["l"], "p": []}     # a reborrow
                    continue
                break
            if sd and sd[2].get("k") == "use":
                q = op_place(sd[2]["a"])
                continue
            break
    if buf is not None:
        fresh = set()
        for bi, t in b.calls():
            c = strip_generics(t.get("callee") or "")
            if mir.is_local(t["dest"]) and t["dest"]["l"] == buf and c.endswith("String::new"):
                fresh.add(bi)
            if c.endswith("String::clear") and t.get("args"):
                a0 = op_place(t["args"][0])
                sd = b.single_def(a0["l"]) if a0 is not None and mir.is_local(a0) else None
                if sd and sd[2].get("k") == "ref" and not sd[2]["p"]["p"] and sd[2]["p"]["l"] == buf:
                    fresh.add(bi)
        for bi, i, s2 in b.stmts():
            if mir.is_local(s2["lhs"]) and s2["lhs"]["l"] == buf and s2["rv"].get("k") == "use":
                fresh.add(bi)   # moved-in fresh value
        start = rt.get("target")
        again = start is not None and rb in b.reachable_from(start, removed=fresh, include_start=True)
        first = rb in b.reachable_from(0, removed=fresh, include_start=True)
        ctx.check(not again and not first, "%s:line-buffer-empty-at-every-read" % UCI_LOOP, "the String handed to read_line is created or cleared on every path to the read", b.where(rb),
                  bad_what="read_line can be reached again with what an earlier line left in its buffer (a `continue` that skips the clear): after one rejected line every later command is glued behind it and rejected too, `quit` included")
    ctx.check(not unwrapped, "%s:read-error-handled" % UCI_LOOP, "an I/O error from read_line does not panic", b.where(rb),
              bad_what="read_line(..).unwrap(): an I/O error (e.g. invalid UTF-8 on stdin) panics the main thread")
    # (2) exit edge controlled by the byte count
    count_exits = []
    wrong_count_exits = []
    err_exits = []
    for blk in b.blocks:
        if blk.cleanup or blk.term["k"] != "switch" or blk.idx not in b.live_blocks():
            continue
        e = sym.operand(blk.term["discr"])
        f, tr = C.switch_edges(blk.term)
        if mentions_payload(e, b, res_local):
            # an edge that reaches EXIT without reaching the parse ...
            # ... and that is the edge taken when the count is 0: the count itself switched on (value 0 = `f`), or a comparison
            # of it with 0
            ee = mir.strip_copies(e)
            zero_side = None
            if ee[0] == "bin" and ee[3][0] == "const" and ee[3][1] == 0:
                zero_side = {"Eq": tr, "Ne": f, "Gt": f, "Le": tr}.get(ee[1])
            elif ee[0] == "bin" and ee[3][0] == "const" and ee[3][1] == 1:
                zero_side = {"Lt": tr, "Ge": f}.get(ee[1])
            elif ee[0] != "bin":
                zero_arm = [a[1] for a in blk.term["arms"] if a[0] == 0]
                zero_side = zero_arm if zero_arm else None
            for side in (f, tr):
                reach = set()
                for x in side:
                    reach |= b.threaded_reach(x)
                if mir.EXIT in reach and not (reach & parse):
                    if zero_side is not None and sorted(side) == sorted(zero_side):
                        count_exits.append(blk.idx)
                    else:
                        wrong_count_exits.append(blk.idx)
        if e[0] == "discr" and (expr_str(e[1]) == b.local_name(res_local) or (isinstance(e[1], tuple) and e[1][0] == "call" and str(e[1][1]).endswith("::read_line"))):
            for a in blk.term["arms"]:
                if a[0] == 1:
                    reach = b.threaded_reach(a[1])
                    if mir.EXIT in reach and not (reach & parse):
                        err_exits.append(blk.idx)
    ctx.check(not wrong_count_exits, "%s:exit-only-on-count-zero" % UCI_LOOP, "the byte count ends the loop only when it is 0", b.where(rb),
              bad_what="the loop is left on a byte count other than 0 (or the edge taken on 0 could not be identified): a one-character line ends the session, or end of input does not")
    ctx.check(bool(count_exits), "%s:exit-on-end-of-input" % UCI_LOOP,
              "the loop has an exit edge controlled by read_line's byte count (0 = end of input)", b.where(rb),
              bad_what="the byte count returned by read_line is never tested: when stdin is closed the loop spins forever on empty lines instead of terminating")
    _quit_exit(ctx, ix, b, sym, parse, rb)


def _quit_exit(ctx, ix, b, sym, parse, rb):
    # (3) Quit exit
    adt = ix.adt(UCICOMMAND)
    quit_idx = [int(v["discr"]) for v in adt["variants"] if v["name"] == "Quit"]
    execs = {bi for bi, t in b.calls() if callee_is(t, EXEC)}
    quit_ok = False
    for d, targets in C.variant_test_edges(ix, b, UCICOMMAND, "Quit").items():
        for x in targets:
            reach = b.threaded_reach(x)
            if mir.EXIT in reach and not (reach & (parse | execs | {rb})):
                quit_ok = True
    ctx.check(quit_ok, "%s:exit-on-quit" % UCI_LOOP, "Quit leaves the loop without reading or executing anything else", b.where(rb),
              bad_what="no exit edge for UCICommand::Quit that avoids further reads")


def mentions_payload(e, b, res_local):
    """Does the expression read the Ok payload (byte count) of the read_line result?"""
    name = b.local_name(res_local)

    def is_read_result(x):
        if expr_str(x) == name:
            return True
        return isinstance(x, tuple) and x[0] == "call" and isinstance(x[1], str) and (x[1].endswith("::read_line") or x[1].endswith("::read_until"))
    for x in walk(e):
        if isinstance(x, tuple) and x[0] == "as" and x[2] == "Ok" and is_read_result(mir.strip_copies(x[1])):
            return True
    return False


def rule_nonblocking(ctx):
    """The main thread never blocks on anything but the input read."""
    ix = ctx.ix
    bodies, _ = scope_bodies(ix)
    n = 0
    for b in bodies:
        for bi, t in b.calls():
            c = strip_generics(t.get("callee") or "")
            if any(c.endswith(m) or m in c for m in BLOCKING):
                n += 1
                ctx.bad(site_key(b, "blocking", C.short(c)), "%s blocks the input thread: while it waits no `stop`/`isready` can be answered" % C.short(c), b.where(bi))
    ctx.check(True, "blocking-sites-enumerated", "%d blocking call(s) on the main thread" % n)


def natural_loops(b):
    """[(header, set of blocks)] for every back edge u -> h with h dominating u."""
    live = b.live_blocks()
    loops = {}
    for u in live:
        if u < 0:
            continue
        for h in b.succ(u):
            if h >= 0 and b.dominates(h, u):
                body = {h, u}
                stack = [u]
                while stack:
                    x = stack.pop()
                    if x == h:
                        continue
                    for p in b.pred(x):
                        if p not in body and p in live:
                            body.add(p)
                            stack.append(p)
                loops.setdefault(h, set()).update(body)
    return sorted(loops.items())


def increments(b, blocks):
    """{local: [block]} for statements `v = v + c` (c >= 1), through the checked-add tuple if present."""
    out = {}
    for bi in blocks:
        for s in b.blocks[bi].stmts:
            if not mir.is_local(s["lhs"]):
                continue
            v = s["lhs"]["l"]
            rv = s["rv"]
            src = None
            if rv.get("k") == "binop" and rv["op"] in ("Add", "AddUnchecked"):
                src = rv
            elif rv.get("k") == "use":
                p = op_place(rv["a"])
                if p is not None and len(p["p"]) == 1 and isinstance(p["p"][0], dict) and p["p"][0].get("n") == "0":
                    sd = b.single_def(p["l"])
                    if sd and sd[2].get("k") == "binop" and sd[2]["op"] == "AddWithOverflow":
                        src = sd[2]
            if src is None:
                continue
            a, c = op_place(src["a"]), const_int(src["b"])
            if a is None or c is None or c < 1:
                continue
            base = a["l"]
            sd = b.single_def(base)
            if sd and sd[2].get("k") == "use" and op_place(sd[2]["a"]) is not None:
                base = op_place(sd[2]["a"])["l"]
            if base == v and mir.is_local(a):
                out.setdefault(v, []).append(bi)
    return out


def rule_loops(ctx):
    """Every loop of the input layer makes progress on every cycle: it advances a (finite) iterator, reads input, or
    increments the counter its exit test compares -- so no input line can make the main thread spin."""
    ix = ctx.ix
    bodies, _ = scope_bodies(ix)
    n = 0
    seen = {}
    for b in bodies:
        for h, blocks in natural_loops(b):
            n += 1
            prog = set()
            kinds = set()
            for bi in blocks:
                t = b.blocks[bi].term
                if t["k"] == "call":
                    c = strip_generics(t.get("callee") or "")
                    if c.endswith("::next") or c.endswith("::next_back"):
                        prog.add(bi)
                        kinds.add("iterator")
                    if c.endswith("::read_line") or c.endswith("::read_until"):
                        prog.add(bi)
                        kinds.add("input")
            incs = increments(b, blocks)
            # counters compared by a test that can leave the loop
            for v, bis in incs.items():
                compared = False
                for bi in blocks:
                    t = b.blocks[bi].term
                    if t["k"] == "switch" and any(x not in blocks for x in b.succ(bi)):
                        p = op_place(t["discr"])
                        sd = b.single_def(p["l"]) if p is not None and mir.is_local(p) else None
                        if sd and sd[2].get("k") == "binop" and sd[2]["op"] in ("Lt", "Le", "Gt", "Ge", "Ne"):
                            for o in (sd[2]["a"], sd[2]["b"]):
                                q = op_place(o)
                                if q is not None and mir.is_local(q):
                                    l = q["l"]
                                    sdd = b.single_def(l)
                                    if sdd and sdd[2].get("k") == "use" and op_place(sdd[2]["a"]) is not None:
                                        l = op_place(sdd[2]["a"])["l"]
                                    if l == v:
                                        compared = True
                if compared:
                    prog.update(bis)
                    kinds.add("counter `%s`" % b.local_name(v))
            # a progress-free cycle: h reachable from h inside the loop without touching a progress block
            free = False
            if h not in prog:
                stack = [x for x in b.succ(h) if x in blocks and x not in prog]
                vis = set()
                while stack:
                    x = stack.pop()
                    if x == h:
                        free = True
                        break
                    if x in vis:
                        continue
                    vis.add(x)
                    stack.extend(y for y in b.succ(x) if y in blocks and y not in prog)
            key = dedup(seen, site_key(b, "loop", "progress"))
            ctx.check(not free and bool(prog), key, "loop at line %s advances on every cycle (%s)" % (b.blocks[h].term["line"], ", ".join(sorted(kinds)) or "-"), b.where(h),
                      bad_what="the loop at line %s has a cycle that neither advances an iterator, reads input, nor increments the counter its exit test compares: some input can make the main thread spin forever" % b.blocks[h].term["line"])
    ctx.floor("loops in the input layer", n, 3)


def rule_errors_continue(ctx):
    from . import c10
    c10.rule_no_swallow(ctx)


def rule_counter_widths(ctx):
    """The audit of `position .. moves` accepted `clock + 1` / `counter + 1` in make_move because the counters are 16 bits
    wide: overflowing them takes a command of more than 65 000 moves.  That argument is gone if a counter is narrowed (a
    `u8` half-move clock overflows on the 256th reversible ply of a replayed game, panicking the input thread in debug
    builds and wrapping in release)."""
    ix = ctx.ix
    want = (("board::ply::Ply", "halfmove_clock"), ("board::Board", "fullmove_counter"), ("board::boardbuilder::BoardBuilder", "halfmove_clock"),
            ("board::boardbuilder::BoardBuilder", "fullmove_counter"))
    for adt, fld in want:
        a = ix.adts.get(adt)
        ty = next((f["ty"] for v in (a or {}).get("variants", []) for f in v["fields"] if f["name"] == fld), None)
        bits = {"u16": 16, "u32": 32, "u64": 64, "usize": 64, "u128": 128}.get(ty)
        ctx.check(bits is not None, "%s.%s" % (adt.split("::")[-1], fld), "%s.%s is %s: at least 16 bits, so a replayed game cannot overflow it" % (adt.split("::")[-1], fld, ty), None,
                  bad_what="%s.%s has type %s: narrower than the 16 bits the panic audit of make_move relies on (`+ 1` overflows after %s moves of a `position .. moves` line)"
                  % (adt.split("::")[-1], fld, ty, {"u8": 255, "i8": 127, "i16": 32767}.get(ty, "few")))


RULES = [("counter-widths", rule_counter_widths), ("scope", rule_scope), ("index", rule_index), ("arith", rule_arith), ("no-assert-on-input", rule_no_assert_on_input),
         ("unwrap", rule_unwrap), ("boundary", rule_boundary), ("move-text", rule_move_text), ("build-config", rule_build_config), ("io-exits", rule_io_and_exits), ("nonblocking", rule_nonblocking),
         ("loops", rule_loops), ("errors-continue", rule_errors_continue)]
# `position fen <valid FEN>` reaches the FEN loader's panic arms only for strings outside the alphabet; that the alphabet the
# loader accepts is the whole valid one is C07's tables (a half-open `'a'..'h'` makes a valid FEN kill the input thread)
RULES += engine.premise_rules("c07", ["letters", "side-ep", "castle-letters", "fields"])


CLIPPY_LINTS = ("indexing_slicing", "unwrap_used", "expect_used", "panic", "unreachable", "unimplemented", "todo", "exit")


def clippy_cross_reference():
    """Thorough tier (iii): an independent inventory of panic-capable sites (clippy's opt-in restriction lints, run on
    /repo's current tree) must be a subset of the sites this audit enumerated, by file and line, inside the input layer."""
    import json as _json
    import shutil
    import subprocess
    import tempfile
    from . import facts as F, mir as M
    tmp = tempfile.mkdtemp(prefix="rce-clippy-")
    insts = []
    cov = {}
    try:
        env = dict(os.environ, CARGO_TARGET_DIR=os.path.join(tmp, "target"), CARGO_NET_OFFLINE="true")
        cmd = ["cargo", "+nightly", "clippy", "--offline", "--bin", F.CRATE, "--message-format=json", "--", "-A", "clippy::all", "-A", "clippy::pedantic", "-A", "clippy::nursery"]
        for l in CLIPPY_LINTS:
            cmd += ["-W", "clippy::" + l]
        r = subprocess.run(cmd, cwd=F.REPO, env=env, capture_output=True, text=True)
        sites = set()
        for line in r.stdout.splitlines():
            try:
                m = _json.loads(line)
            except ValueError:
                continue
            if m.get("reason") != "compiler-message":
                continue
            d = m["message"]
            code = (d.get("code") or {}).get("code") or ""
            if not code.startswith("clippy::") or code.split("::")[1] not in CLIPPY_LINTS:
                continue
            for sp in d.get("spans", []):
                if sp.get("is_primary") and sp["file_name"] in SCOPE_FILES:
                    sites.add((code.split("::")[1], sp["file_name"], sp["line_start"]))
        ran = r.returncode == 0
        facts, meta = F.load()
        ix = M.Index(facts)
        ctx = engine.run_rules(PROP, [(n, f) for n, f in RULES if n in ("index", "arith", "no-assert-on-input", "unwrap")], ix, "dev")
        audited = set()
        for i in ctx.insts:
            if ":" in (i.where or ""):
                f_, ln = i.where.rsplit(":", 1)
                if ln.isdigit():
                    audited.add((f_, int(ln)))
        # test modules are not part of the bin target; everything clippy reports here is production code
        missing = sorted(s for s in sites if (s[1], s[2]) not in audited)
        cov = {"clippy_cross_reference": {"ran": ran, "lints": list(CLIPPY_LINTS), "sites_in_input_layer": len(sites), "audited_lines": len(audited), "unaudited": [list(m) for m in missing]}}
        inst = engine.Inst("cross-ref", "%s:cross-ref:clippy-inventory-is-covered" % PROP, ran and not missing,
                           "all %d panic-capable sites clippy lists in the input layer (%s) are among the %d lines this audit enumerated" % (len(sites), ", ".join(CLIPPY_LINTS[:5]), len(audited)) if ran and not missing else
                           ("clippy did not run" if not ran else "clippy lists panic-capable site(s) in the input layer that the audit did not enumerate: %s" % missing))
        insts.append(inst)
    finally:
        shutil.rmtree(tmp, ignore_errors=True)
    return insts, cov


def run(tier):
    return engine.main(
        PROP, "no input line kills or wedges the engine", RULES, "other",
        explanation=("Panic-site audit plus exit analysis of the input-handling layer (every function of uci.rs, uci_command.rs, main.rs, logger.rs reachable "
                     "from uci::start on the main thread): every bounds Assert and range Index is entailed by dominating length tests that are still valid at the use "
                     "(difference constraints over index variables, slice lengths and position() results; a reassignment between test and use kills the fact); "
                     "every overflow/division Assert is discharged; the move text handed to Board::find_move is followed through copies, conversions and closure captures and is only ever compared with the legal moves' notation (never parsed, sliced or indexed); explicit panics, unwrap/expect and other may-panic std calls are violations unless proved dead; "
                     "calls leaving the layer must be in the confirmed boundary table; the command loop exits on end of input, on a read error and on Quit, "
                     "never blocks on anything but the read, and logs-and-continues on both error paths. Decides: no input line (for all token sequences) panics "
                     "or wedges the main thread within this layer; the counters make_move steps are at least 16 bits wide (the premise under which `+ 1` on them was accepted); the FEN alphabet the loader "
                     "accepts is the whole valid one (C07 tables). Does not decide: panics inside the board layer for syntactically valid but chess-illegal FENs (assumed valid by the statement), stdout failures."),
        assumptions=["FEN arguments are valid FEN (statement)", "slice lengths are <= isize::MAX", "println!/eprintln! do not fail (stdout/stderr stay open)",
                     "std functions outside the may-panic list do not panic for any argument value (list in rules/c15.py)"],
        tier=tier, thorough_hook=clippy_cross_reference)
