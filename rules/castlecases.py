"""make_move_castling_checks walked case by case (per-case constant propagation, rules/cases.py).

A case fixes the mover (kind, colour, start square), the victim (none, or kind, colour, square) and which castling rights
are still there; the walk then has no data-dependent test left and yields, per path, the rights it set to Unavailable and
the castling words it toggled in the key.  The rules compare that relation with the FIDE table (C03) and require toggles
and revocations to go together (C04), independently of how the function is spelt: twelve match arms, one helper per right,
a lookup from (piece, corner) to right followed by one revocation, ...

Squares: the four corners, one square that is no corner, and every square that can be formed from the small integer
constants the function (after expansion of new helpers) compares bytes against -- a test on some other rank or file would
make that rank or file one of the cases."""
from . import cases
from .mir import expr_str, strip_generics, callee_name

RIGHTS = ("white_kingside", "white_queenside", "black_kingside", "black_queenside")
KIND_FIELD = {"WhiteKingside": "white_kingside", "WhiteQueenside": "white_queenside", "BlackKingside": "black_kingside", "BlackQueenside": "black_queenside"}
CORNER_LIST = [(0, 0), (0, 7), (7, 0), (7, 7)]
CAPS = [None, ("Rook", "White"), ("Rook", "Black"), ("Queen", "White"), ("Knight", "Black")]
TOGGLE = "board::zkey::ZKey::change_castling_rights"


def squares_of_interest(b):
    vals = set()
    for blk in b.blocks:
        t = blk.term
        if t["k"] == "switch" and t.get("discr_ty") == "u8":
            for a in t["arms"]:
                if isinstance(a[0], int) and 0 <= a[0] <= 7:
                    vals.add(a[0])
    sq = list(CORNER_LIST) + [(3, 3)]
    for r in sorted(vals):
        for f in sorted(vals):
            if (r, f) not in sq:
                sq.append((r, f))
    return sq[:40]


def _sq(r, f):
    return ("agg", "board::square::Square", "Square", (("const", r, "u8"), ("const", f, "u8")), ("rank", "file"))


def _kind(ix, k, c):
    return cases.enum_val(ix, "board::piece::Kind", k, [cases.enum_val(ix, "board::piece::Color", c)])


def all_cases(b):
    """Full product over the corners and one other square; every further square of interest once as the mover's start (each
    mover, no capture) and once as the victim's square (each victim, taken by a queen from the middle)."""
    squares = squares_of_interest(b)
    base, extra = squares[:5], squares[5:]
    movers = [(mk, mc) for mk in ("King", "Rook", "Queen", "Bishop", "Knight", "Pawn") for mc in ("White", "Black")]
    for mk, mc in movers:
        for ms in base:
            for cap in CAPS:
                for cd in (base if cap is not None else [(4, 4)]):
                    yield (mk, mc, ms, cap, cd)
    for sq in extra:
        for mk, mc in movers:
            yield (mk, mc, sq, None, (4, 4))
        for cap in CAPS[1:]:
            yield ("Queen", "White" if cap[1] == "Black" else "Black", (3, 3), cap, sq)


def inputs(ix, case, available=None, b=None):
    mk, mc, ms, cap, cd = case
    # the move record: `new_move: &mut Ply` in the reference tree; a refactoring may pass and return it by value
    pre = "*new_move."
    if b is not None:
        for l in range(1, b.arg_count + 1):
            if b.locals[l]["ty"].replace("&mut ", "").lstrip("&") == "board::ply::Ply":
                pre = ("*" if b.locals[l]["ty"].startswith("&") else "") + b.local_name(l) + "."
    inp = {pre + "piece": _kind(ix, mk, mc), pre + "start": _sq(*ms), pre + "dest": _sq(*cd),
           pre + "is_castles": ("const", 0, "bool"),
           pre + "captured_piece": cases.option("Some", [_kind(ix, *cap)]) if cap else cases.option("None")}
    if available is not None:
        for f in RIGHTS:
            inp[pre + "castling_rights." + f] = cases.enum_val(ix, "board::ply::castling::CastlingStatus", "Available" if f in available else "Unavailable")
    return inp


def walk(ix, b, case, available=None):
    """[(rights set Unavailable, [toggled kinds], other stores into the rights)] per returning path, and undecided?"""
    run = cases.run(ix, b, inputs(ix, case, available, b))
    out = []
    for p in run.paths:
        if p.end != "return":
            continue
        lost, other, toggled = set(), set(), []
        for e in p.events:
            if e[0] == "store" and "castling_rights." in e[2]:
                f = e[2].split("castling_rights.")[-1]
                if e[3][0] == "agg" and e[3][2] == "Unavailable":
                    lost.add(f)
                else:
                    other.add((f, expr_str(e[3])[:30]))
            elif e[0] == "call" and e[2] == TOGGLE:
                a = e[3][1] if len(e[3]) > 1 else None
                toggled.append(a[2] if a is not None and a[0] == "agg" and a[2] in KIND_FIELD else None)
        out.append((lost, toggled, other))
    undecided = run.overflow or any(p.end not in ("return", "panic", "unreachable") for p in run.paths)
    return out, undecided


def pairing(ix, b):
    """C04: in every case and for every combination 'all four rights there / none / exactly one', every path toggles exactly
    the words of the rights it takes away that were there.  Returns (n cases walked, [violations], [undecided cases])."""
    bad, und = [], []
    n = 0
    scen = [frozenset(RIGHTS), frozenset()] + [frozenset([f]) for f in RIGHTS]
    for case in all_cases(b):
        for av in scen:
            paths, u = walk(ix, b, case, av)
            n += 1
            if u:
                und.append((case, sorted(av)))
                continue
            for lost, toggled, other in paths:
                want = sorted(f for f in lost if f in av)
                got = sorted(KIND_FIELD.get(k, "?") if k else "?" for k in toggled)
                if want != got:
                    bad.append((case, sorted(av), want, got))
    return n, bad, und
