"""Canonical names, so that rules never depend on how the source spells a parameter or a local.

* Parameters: `canon_args.json` (frozen from the pinned tree) gives, per function and position, the name the rules use;
  it is applied whenever the function still has the same number of parameters.  Renaming a parameter in /repo therefore
  changes nothing for the rules.
* Locals with a role in the search functions (alpha, beta, score, best_ply, total_legal_moves, pvs) and a few
  "the local that is returned / committed" cases are recognised by how they are defined and used, and renamed to the
  canonical role name.  If a role cannot be recognised the debug name is kept and the rules fail closed."""
import json
import os

from . import mir
from .mir import op_place, const_int, is_local, callee_is

_HERE = os.path.dirname(os.path.abspath(__file__))
with open(os.path.join(_HERE, "canon_args.json")) as _fh:
    CANON_ARGS = json.load(_fh)

SEARCH_FNS = ("search::Search::alpha_beta", "search::Search::alpha_beta_start", "search::Search::quiescence")


def canonicalise(ix):
    for key, b in ix.bodies.items():
        names = CANON_ARGS.get(key)
        if names and len(names) == b.arg_count:
            for i, nm in enumerate(names):
                _set_name(b, i + 1, nm)
    for key in SEARCH_FNS:
        b = ix.bodies.get(key)
        if b is not None:
            _search_roles(ix, b)
    _returned_local(ix, "board::zkey::ZTable::init", "table")
    for k in ("<board::piece::rook::Rook as board::piece::Magic>::get_attacks_slow", "<board::piece::bishop::Bishop as board::piece::Magic>::get_attacks_slow"):
        _returned_local(ix, k, "attacks")
    _committed_board(ix)


def _set_name(b, l, nm):
    # drop any other local currently carrying that name, then assign
    for k, v in list(b.names.items()):
        if v == nm and k != l:
            b.names[k] = "_%d" % k
    b.names[l] = nm


def _defs(b, l):
    return [d for d in b.defs().get(l, []) if d[2].get("k") != "partial"]


def _returned_local(ix, key, nm):
    b = ix.bodies.get(key)
    if b is None:
        return
    ds = _defs(b, 0)
    if len(ds) == 1 and ds[0][2].get("k") == "use":
        p = op_place(ds[0][2]["a"])
        if p is not None and is_local(p):
            _set_name(b, p["l"], nm)


def _committed_board(ix):
    b = ix.bodies.get("uci::Uci::load_position")
    if b is None:
        return
    for bi, i, s in b.stmts():
        if s["lhs"]["l"] == 1 and mir.fields_of(s["lhs"]) == ("board",) and s["rv"].get("k") == "use":
            p = op_place(s["rv"]["a"])
            for _ in range(4):
                if p is None or not is_local(p):
                    break
                sd = b.single_def(p["l"])
                if sd and sd[2].get("k") == "use":
                    p = op_place(sd[2]["a"])
                else:
                    break
            if p is not None and is_local(p):
                _set_name(b, p["l"], "board")


def _search_roles(ix, b):
    n = len(b.locals)
    ty = lambda l: b.locals[l]["ty"]
    multi = [l for l in range(b.arg_count + 1, n) if len(_defs(b, l)) >= 2]
    # score: every definition is (a copy of) a saturating_neg result
    score = None
    for l in multi:
        if ty(l) != "i16":
            continue
        ok = True
        for (_bi, _i, rv) in _defs(b, l):
            if rv.get("k") == "call":
                ok = ok and callee_is(rv["t"], "core::num::<impl i16>::saturating_neg")
            elif rv.get("k") == "use":
                p = op_place(rv["a"])
                sd = b.single_def(p["l"]) if p is not None and is_local(p) else None
                ok = ok and bool(sd) and sd[2].get("k") == "call" and callee_is(sd[2]["t"], "core::num::<impl i16>::saturating_neg")
            else:
                ok = False
        if ok:
            score = l
    if score is not None:
        _set_name(b, score, "score")
    # alpha / beta
    alpha = beta = None
    for l in range(b.arg_count + 1, n):
        if ty(l) != "i16":
            continue
        ds = _defs(b, l)
        for (_bi, _i, rv) in ds:
            if rv.get("k") != "use":
                continue
            p = op_place(rv["a"])
            c = const_int(rv["a"])
            if p is not None and is_local(p) and 1 <= p["l"] <= b.arg_count and ty(p["l"]) == "i16":
                # first i16 parameter -> alpha, second -> beta
                i16_args = [a for a in range(1, b.arg_count + 1) if ty(a) == "i16"]
                if i16_args and p["l"] == i16_args[0] and len(ds) >= 2:
                    alpha = l
                elif len(i16_args) > 1 and p["l"] == i16_args[1] and len(ds) >= 2:
                    beta = l
            elif c == -32768 and len(ds) >= 2:
                alpha = l
    if alpha is not None:
        _set_name(b, alpha, "alpha")
    if beta is not None:
        _set_name(b, beta, "beta")
    # best_ply: a Ply local assigned in the block where alpha is assigned from score
    if alpha is not None and score is not None:
        blocks = set()
        for (bi, i, rv) in _defs(b, alpha):
            if rv.get("k") == "use":
                p = op_place(rv["a"])
                src = p["l"] if p is not None and is_local(p) else None
                sd = b.single_def(src) if src is not None else None
                if src == score or (sd and sd[2].get("k") == "use" and op_place(sd[2]["a"]) is not None and op_place(sd[2]["a"])["l"] == score):
                    blocks.add(bi)
        for l in multi:
            if ty(l).endswith("ply::Ply") and any(d[0] in blocks for d in _defs(b, l)):
                _set_name(b, l, "best_ply")
    # total_legal_moves: an integer counter with a constant-0 definition and a self + 1 definition
    for l in multi:
        ds = _defs(b, l)
        if ty(l) in ("i32", "u32", "usize", "u64", "i64", "u16", "u8") and any(rv.get("k") == "use" and const_int(rv["a"]) == 0 for (_b, _i, rv) in ds):
            inc = False
            for (_b, _i, rv) in ds:
                if rv.get("k") == "use":
                    p = op_place(rv["a"])
                    if p is not None and p["p"] and isinstance(p["p"][0], dict) and p["p"][0].get("n") == "0":
                        sd = b.single_def(p["l"])
                        if sd and sd[2].get("k") == "binop" and sd[2]["op"].startswith("Add") and const_int(sd[2]["b"]) == 1:
                            a = op_place(sd[2]["a"])
                            if a is not None and (a["l"] == l or (b.single_def(a["l"]) and op_place(b.single_def(a["l"])[2].get("a", {})) is not None and op_place(b.single_def(a["l"])[2]["a"])["l"] == l)):
                                inc = True
                if rv.get("k") == "binop" and rv["op"] == "Add" and const_int(rv["b"]) == 1:
                    inc = True
            if inc:
                _set_name(b, l, "total_legal_moves")
    # pvs: a bool set to constant false and constant true
    for l in multi:
        ds = _defs(b, l)
        if ty(l) == "bool" and l in b.names and {const_int(rv["a"]) for (_b, _i, rv) in ds if rv.get("k") == "use"} == {0, 1} and len(ds) == 2:
            # only user-named bools (compiler drop flags have no debug name)
            _set_name(b, l, "pvs")
