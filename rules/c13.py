"""C13  An interrupted search leaves nothing behind that can mislead a later one  (DESIGN 3, C13)."""
from . import engine, mir
from . import common as C
from .mir import expr_str, walk, strip_generics, op_place

PROP = "C13"


def store_label(ix, body, acc):
    """Describe a cache write by what it stores (bound kind), not by where it is."""
    sym = mir.Sym(body, ix)
    t = acc["term"]
    kinds = set()
    # the entry argument: follow its aggregate; the bound field may be assigned in two arms
    for a in t["args"][1:]:
        p = mir.op_place(a)
        if p is None:
            continue
        e = sym.operand(a)
        for x in walk(e):
            if isinstance(x, tuple) and x[0] == "agg" and isinstance(x[1], str) and x[1].endswith("Bounds"):
                kinds.add(x[2])
            if isinstance(x, tuple) and x[0] == "var":
                # multi-assigned temp (if/else): collect every aggregate assigned to it
                for l, nm in [(l, body.local_name(l)) for l in range(len(body.locals))]:
                    if nm == x[1]:
                        for (_b, _i, rv) in body.defs().get(l, []):
                            if rv.get("k") == "agg" and rv.get("adt", "").endswith("Bounds"):
                                kinds.add(rv["variant"])
    return "%s[%s]" % (acc["method"], "|".join(sorted(kinds)) if kinds else "?")


def rule_guard(ctx):
    """Every cache write W and every call R to an abortable search function in the same body:
    W must be unreachable from R's return once the abort-guard blocks are deleted, for the
    is_running guards and, separately, for the limits_exceeded guards."""
    ix = ctx.ix
    abortable = C.abortable_functions(ix)
    n_w = 0
    n_pairs = 0
    for b in ix.fn_bodies():
        stores = C.tt_stores(ix, b)
        if not stores:
            continue
        ctx.functions.add(b.key)
        rcalls = C.calls_to(ix, b, abortable)
        for w in stores:
            n_w += 1
            label = store_label(ix, b, w)
            wb = w["block"]
            by_callee = {}
            for (rb, rt, rk) in rcalls:
                by_callee.setdefault(rk, []).append((rb, rt))
            for rk, sites in sorted(by_callee.items()):
                for kind in ("running", "limits"):
                    guards = set(C.guard_blocks(ix, b, kind, {wb}))
                    bad_sites = []
                    for (rb, rt) in sites:
                        if rt["target"] is None:
                            continue
                        start = rt["target"]
                        reach = b.reachable_from(start, removed=guards, include_start=True)
                        if start not in guards and wb in reach:
                            bad_sites.append(rb)
                    n_pairs += len(sites)
                    key = "%s:write=%s:after=%s:guard=%s" % (b.key, label, rk, kind)
                    where = b.where(wb)
                    if bad_sites:
                        ctx.bad(key,
                                "the cache write %s in %s is reachable from the return of %d call(s) to %s without re-testing %s: a value derived from an aborted (dummy) child result can be stored"
                                % (label, C.short(b.key), len(bad_sites), C.short(rk), "is_running()" if kind == "running" else "limits_exceeded()"),
                                where,
                                detail="unguarded call sites at lines %s; write at line %s" % (sorted(b.blocks[x].term["line"] for x in bad_sites), b.blocks[wb].term["line"]))
                    else:
                        ctx.ok(key, "every path from the %d return(s) of %s to the cache write %s passes a %s guard whose abort edge cannot reach the write"
                               % (len(sites), C.short(rk), label, kind), where,
                               detail={"guard_blocks_lines": sorted(b.blocks[g].term["line"] for g in guards), "call_lines": sorted(b.blocks[x].term["line"] for x, _ in sites)})
    ctx.floor("cache-writes", n_w, 3)
    ctx.floor("write-after-search-call pairs", n_pairs, 2 * (2 + 2 + 2))  # three writes, each after at least two search calls, two guards


def rule_child_score(ctx):
    """The value a child search hands back may be the dummy of a cut search: it is not copied anywhere (into alpha, the best
    score, a field) before both abort tests have been repeated.  (Cache writes are covered by `guard`.)"""
    ix = ctx.ix
    abortable = C.abortable_functions(ix)
    n = 0
    for b in ix.fn_bodies():
        if not C.tt_stores(ix, b) and b.key != C.ALPHA_BETA_START:
            continue
        rcalls = C.calls_to(ix, b, abortable)
        if not rcalls:
            continue
        sym = ctx.sym(b)
        # locals that carry a child's result: the call's destination, and what is computed from it alone (`-child`)
        carriers = {rt["dest"]["l"] for (_rb, rt, _rk) in rcalls if mir.is_local(rt["dest"])}
        for _round in range(4):
            for l in range(b.arg_count + 1, len(b.locals)):
                if l in carriers:
                    continue
                ds = b.defs().get(l, [])
                if not ds:
                    continue
                ok = True
                for (_db, _di, rv) in ds:
                    if rv.get("k") == "call" and (rv["t"].get("callee") or "").endswith(("std::ops::Neg>::neg", "::saturating_neg", "::wrapping_neg", "::checked_neg")) and len(rv["t"]["args"]) == 1 and (op_place(rv["t"]["args"][0]) or {}).get("l") in carriers:
                        continue        # `-child` (a call in the overflow-checked build)
                    if rv.get("k") not in ("use", "unop", "cast"):
                        ok = False
                        break
                    ops = [op_place(o) for o in mir.rv_operands(rv)]
                    ops = [o for o in ops if o is not None]
                    if not ops or not all(o["l"] in carriers and not o["p"] or (o["l"] in carriers and o["p"] and o["p"][-1] == {"f": 0} ) or (o["l"] in carriers) for o in ops):
                        ok = False
                        break
                if ok:
                    carriers.add(l)
        names = {b.local_name(l) for l in carriers}

        def mentions(e):
            return any(isinstance(x, tuple) and x[0] == "var" and x[1] in names for x in mir.walk(e)) or any(
                isinstance(x, tuple) and x[0] == "call" and strip_generics(x[1]) in abortable for x in mir.walk(e))
        uses = set()
        for blk in b.blocks:
            if blk.cleanup or blk.idx not in b.live_blocks():
                continue
            # (a comparison that only decides whether another child is searched - the PVS re-search - is not a use: that
            # child is cut as well and the re-test behind it discards everything; the uses are the copies)
            for st in blk.stmts:
                if mir.is_local(st["lhs"]) and st["lhs"]["l"] in carriers:
                    continue
                if st["rv"].get("k") in ("use",) and any((op_place(o) or {}).get("l") in carriers for o in mir.rv_operands(st["rv"])):
                    uses.add(blk.idx)
        if not uses:
            continue
        n += 1
        ctx.functions.add(b.key)
        for kind in ("running", "limits"):
            guards = set(C.guard_blocks(ix, b, kind, uses))
            bad = []
            for (rb, rt, rk) in rcalls:
                if rt["target"] is None:
                    continue
                reach = b.reachable_from(rt["target"], removed=guards, include_start=True)
                hit = sorted(u for u in uses if u in reach and rt["target"] not in guards)
                if hit:
                    bad.append((rb, hit[0]))
            ctx.check(not bad, "%s:child-score-used-only-after-%s-test" % (b.key, kind),
                      "every decision taken with a child's result in %s (%d site(s)) lies behind the %s abort test" % (C.short(b.key), len(uses), kind), b.where(sorted(uses)[0]),
                      bad_what="in %s the result of the child search called at %s is used at %s before the %s abort test is repeated: the dummy value of a cut search can become alpha, the best move or a cut-off"
                      % (C.short(b.key), b.where(bad[0][0]) if bad else "?", b.where(bad[0][1]) if bad else "?", "is_running()" if kind == "running" else "limits_exceeded()"))
    ctx.floor("functions deciding with a child's score", n, 2)


def rule_final(ctx):
    """What an interrupted search leaves behind must be what an uninterrupted one would also have left: a node's entry is
    written when the node's value is final - no further child is searched in the same node after the write (the cut-off store
    returns, the other store follows the move loop).  An entry written in the middle of the move loop holds a partial
    maximum; if the search is cut before the loop ends it stays."""
    ix = ctx.ix
    abortable = C.abortable_functions(ix)
    n = 0
    for b in ix.fn_bodies():
        stores = C.tt_stores(ix, b)
        if not stores:
            continue
        rcalls = C.calls_to(ix, b, abortable)
        for w in stores:
            n += 1
            wb = w["block"]
            label = store_label(ix, b, w)
            tgt = b.blocks[wb].term.get("target")
            reach = b.reachable_from(tgt, include_start=True) if tgt is not None else set()
            later = sorted(rb for (rb, rt, rk) in rcalls if rb in reach)
            ctx.check(not later, "%s:write=%s:node-is-finished" % (b.key, label), "after the cache write %s no further child of the node is searched" % label, b.where(wb),
                      bad_what="after the cache write %s in %s the node goes on to search further children (%s): the entry holds a provisional value, and an interruption before the node finishes leaves it in the table"
                      % (label, C.short(b.key), ", ".join(b.where(x) for x in later[:3])))
    ctx.floor("cache-writes", n, 3)


def rule_dummy(ctx):
    """Aborted nodes return before doing anything: in every abortable recursive search function the
    abort guard dominates every other effect (recursive calls, make_move, cache writes)."""
    ix = ctx.ix
    n = 0
    for key in (C.ALPHA_BETA, C.QUIESCENCE):
        b = ctx.body(key)
        abortable = C.abortable_functions(ix)
        protect = set()
        for bi, t in b.calls():
            tg = ix.call_targets(t)
            if any(k in abortable for k in tg) or mir.callee_is(t, "board::Board::make_move", "*::evaluate"):
                protect.add(bi)
        for w in C.tt_stores(ix, b):
            protect.add(w["block"])
        for kind in ("running", "limits"):
            guards = set(C.guard_blocks(ix, b, kind, set()))
            # guards whose abort edge returns without passing a protected block
            guards = {g for g in guards}
            reach = b.reachable_from(0, removed=guards, include_start=True)
            bad = sorted(protect & reach)
            n += 1
            ctx.check(not bad, "%s:entry-guard=%s" % (key, kind),
                      "%s: the %s test is passed before any recursive call, make_move, evaluation or cache write (%d protected sites)" % (C.short(key), kind, len(protect)),
                      b.where(0),
                      bad_what="%s: %d effect site(s) are reachable from entry without passing the %s abort test (lines %s)"
                      % (C.short(key), len(bad), kind, [b.blocks[x].term["line"] for x in bad]))
    ctx.floor("entry-guards", n, 4)


def _cond_leaves(body, sym, bi):
    sc = C.switch_cond(body, sym, bi)
    return sc[0] if sc else None


def rule_sticky(ctx):
    """limits_exceeded: every path returning true either clears the shared flag first (sticky) or is
    decided by a monotone quantity (elapsed clock, node counter) against a search-constant limit."""
    ix = ctx.ix
    b = ctx.body(C.LIMITS_EXCEEDED)
    sym = ctx.sym(b)
    # fields of Search written while the tree is walked (by the search functions and everything they call)
    from . import effects
    eff = effects.Effects(ix)
    mutable = set()
    for k in (C.ALPHA_BETA_START, C.ALPHA_BETA, C.QUIESCENCE):
        for (path, how) in eff.writes(k):
            if path:
                mutable.add(path[0])
    _CTX.update(b=b, sym=sym, ix=ix, mutable=mutable)
    ctx.check({"board", "info"} <= mutable, "search-mutable-fields", "the tree walk modifies Search.{%s}: tests on them are not constant during a search" % ",".join(sorted(mutable)), b.where(0),
              bad_what="cannot establish which fields of Search the tree walk modifies (found %s)" % sorted(mutable))
    # the other abort predicate: is_running() is the shared flag itself, so that `false` stays `false` (the flag is only
    # ever cleared during a search: C10.flag-writers)
    ir = ctx.body(C.IS_RUNNING)
    r = ctx.sym(ir).local(0)
    pure = r[0] == "call" and r[1] == C.ATOMIC_LOAD and any(isinstance(x, tuple) and x[0] == "field" and x[-1] == "running" for x in walk(r)) and len(ir.blocks) <= 3
    ctx.check(pure, "is_running:is-the-flag", "is_running() is exactly self.running.load(..): once false it stays false for the rest of the search", ir.where(0),
              bad_what="is_running() returns `%s`: it can answer `true` again after having answered `false`, so a parent re-asking after an aborted child may accept the dummy value" % expr_str(r)[:100])
    # which blocks clear the flag
    clear_blocks = set()
    for bi, t in b.calls():
        if mir.callee_is(t, C.ATOMIC_STORE) and len(t["args"]) >= 2 and mir.const_int(t["args"][1]) == 0:
            clear_blocks.add(bi)
    # info.nodes is monotone if the crate only ever increments it
    nodes_monotone = counter_is_monotone(ix, ("info", "nodes"))
    n = 0
    for bi, i, s in b.stmts():
        if not (mir.is_local(s["lhs"]) and s["lhs"]["l"] == 0):
            continue
        rv = s["rv"]
        val = sym.rvalue(rv)
        if val == ("const", 0, "bool"):
            continue
        n += 1
        # the controlling condition: nearest dominating switch whose false edge does not reach this block
        conds = []
        if val != ("const", 1, "bool"):
            conds.append(val)
        for d in sorted(b.dom()[bi]):
            if d == bi or b.blocks[d].term["k"] != "switch":
                continue
            sc = C.switch_cond(b, sym, d)
            if sc is None:
                continue
            f, tr = C.switch_edges(b.blocks[d].term)
            # condition matters if one of its edges cannot reach bi
            rf = any(bi in b.reachable_from(x, include_start=True) for x in f)
            rt = any(bi in b.reachable_from(x, include_start=True) for x in tr)
            positive = (rt and not rf) if not sc[1] else (rf and not rt)
            if positive:
                conds.append(sc[0])
        sticky = any(b.dominates(c, bi) for c in clear_blocks)
        # ... and every test on some way to this block whose other outcome can end in a `false` answer: in `a || b`
        # neither disjunct dominates, yet both decide whether the answer stays `true` on the next call
        for c in _deciding_tests(b, sym, bi):
            if not any(c == o for o in conds):
                conds.append(c)
        label = classify_conditions(conds)
        key = "%s:returns-true:on=%s" % (b.key, label)
        where = b.where(line=s.get("line"))
        if sticky:
            ctx.ok(key, "limit `%s` clears the running flag before returning true (the parent's is_running test sees it)" % label, where)
        elif label.startswith("clock>=limits") or (label.startswith("nodes>=limits") and nodes_monotone):
            ctx.ok(key, "limit `%s` is a monotone comparison (a later limits_exceeded call also returns true)" % label, where)
        elif label.startswith("ply==MAX"):
            ctx.note(key, "the ply-counter overflow clause returns true without clearing the flag and is not monotone; it is outside the statement's 'stop, node budget or clock' and is recorded only", where)
        else:
            ctx.bad(key, "limits_exceeded returns true on `%s` without clearing the running flag, and the condition is not monotone: a parent re-asking after an aborted child may get `false` and cache the dummy value" % label, where,
                    detail=[expr_str(c) for c in conds])
    ctx.floor("true-returning paths of limits_exceeded", n, 3)


_CTX = {}


def _deciding_tests(b, sym, bi, max_paths=400):
    """Conditions of the switches passed on some acyclic path from entry to `bi` whose not-taken side can reach an
    assignment of something other than `true` to the return place without passing `bi`.  A bool test required false is
    returned negated (a monotone comparison required *false* is not monotone in the direction that matters)."""
    falsy = set()
    for fb, i, s in b.stmts():
        if mir.is_local(s["lhs"]) and s["lhs"]["l"] == 0 and fb != bi and sym.rvalue(s["rv"]) != ("const", 1, "bool"):
            falsy.add(fb)
    for fb, t in b.calls():
        if mir.is_local(t["dest"]) and t["dest"]["l"] == 0 and fb != bi:
            falsy.add(fb)
    out = []
    n_paths = [0]
    seen_lit = set()

    def succs(x):
        t = b.blocks[x].term
        k = t["k"]
        if k == "goto":
            return [t["target"]]
        if k == "switch":
            return [a[1] for a in t["arms"]] + [t["otherwise"]]
        if k in ("call", "drop", "assert") and t.get("target") is not None:
            return [t["target"]]
        return []

    def walk_paths(x, on_path, lits):
        if n_paths[0] > max_paths:
            return
        if x == bi:
            n_paths[0] += 1
            for lit in lits:
                seen_lit.add(lit)
            return
        if x in on_path or bi not in b.reachable_from(x, include_start=True):
            return
        t = b.blocks[x].term
        if t["k"] == "switch":
            for tgt in dict.fromkeys(succs(x)):
                walk_paths(tgt, on_path | {x}, lits + [(x, tgt)])
        else:
            for tgt in succs(x):
                walk_paths(tgt, on_path | {x}, lits)

    import sys
    sys.setrecursionlimit(max(sys.getrecursionlimit(), 5000))
    walk_paths(0, frozenset(), [])
    if n_paths[0] > max_paths:
        return [("unknown", "too many paths to the true answer")]
    for d, tgt in sorted(seen_lit):
        t = b.blocks[d].term
        others = [x for x in dict.fromkeys(succs(d)) if x != tgt]
        harmful = any(falsy & b.reachable_from(o, removed={bi}, include_start=True) for o in others)
        if not harmful:
            continue
        sc = C.switch_cond(b, sym, d)
        if sc is None:
            continue
        e = sc[0]
        if t.get("discr_ty") == "bool":
            f, tr = C.switch_edges(t)
            truth = (tgt in tr) != sc[1]
            if not truth:
                e = ("un", "Not", e)
        out.append(e)
    return out


def expand_vars(c, depth=0):
    """Replace each variable leaf by what defines it: a variable assigned in the arms of a test (`let own = match
    self.board.current_turn { .. }`) is as (in)constant as that test and those values.  Returns a list of expressions whose
    leaves together are everything the condition depends on."""
    b, sym, ix = _CTX.get("b"), _CTX.get("sym"), _CTX.get("ix")
    out = [c]
    if b is None or depth > 4:
        return out
    seen = set()
    for x in walk(c):
        if isinstance(x, tuple) and x[0] == "var" and x[1] not in seen:
            seen.add(x[1])
            ls = [l for l in range(len(b.locals)) if b.local_name(l) == x[1]]
            for l in ls:
                for (db, di, rv) in b.defs().get(l, []):
                    if rv.get("k") == "partial":
                        rv = rv["rv"]
                    v = sym.rvalue(rv) if rv.get("k") != "call" else ("call", strip_generics(mir.callee_name(rv["t"])), tuple(sym.operand(a) for a in rv["t"]["args"]))
                    out.extend(expand_vars(v, depth + 1))
                    for cc in C.constraints_for(ix, b, sym, db):
                        out.extend(expand_vars(cc[3], depth + 1))
    return out


def cond_kind(c):
    """One positively-required condition of a true-returning path: 'const' (cannot change during a search),
    'clock>=limit' / 'nodes>=limit' (monotone), 'ply==MAX', 'ply-vs-depth-limit', or 'other'."""
    deps = expand_vars(c)
    dep_fields = {f for d in deps for x in walk(d) if isinstance(x, tuple) and x[0] == "field" for f in x[2:]}
    # fields of Search that the tree walk itself modifies: a test on them can flip between a child and its parent
    if dep_fields & _CTX.get("mutable", set()) - {"info"}:
        return "other"
    leaves = list(walk(c))
    fields = {x[2:] for x in leaves if isinstance(x, tuple) and x[0] == "field"}
    flat = {f for fs in fields for f in fs}
    has_clock = any(isinstance(x, tuple) and x[0] == "call" and isinstance(x[1], str) and ("Instant::elapsed" in x[1] or "Instant::now" in x[1]) for x in leaves)
    reads_info = "info" in flat
    if not has_clock and not reads_info:
        # only limits fields / constants: fixed for the whole search
        return "const"
    if c[0] == "bin" and c[1] in ("Ge", "Gt"):
        lhs, rhs = c[2], c[3]
        lf = {f for x in walk(lhs) if isinstance(x, tuple) and x[0] == "field" for f in x[2:]}
        rf = {f for x in walk(rhs) if isinstance(x, tuple) and x[0] == "field" for f in x[2:]}
        lclock = any(isinstance(x, tuple) and x[0] == "call" and isinstance(x[1], str) and "Instant::elapsed" in x[1] for x in walk(lhs))
        rconst = "info" not in rf and not any(isinstance(x, tuple) and x[0] == "call" and isinstance(x[1], str) and "Instant" in x[1] for x in walk(rhs))
        plain_l = lhs[0] in ("field", "call")  # the quantity itself, not an arithmetic function of it
        if lclock and rconst and plain_l and not any(isinstance(x, tuple) and x[0] == "bin" for x in walk(lhs)):
            return "clock>=limit"
        if lf >= {"info", "nodes"} and "depth" not in lf and rconst and lhs[0] == "field":
            return "nodes>=limit"
        if lf >= {"info", "depth"} and rconst:
            return "ply-vs-depth-limit"
    if c[0] == "bin" and c[1] == "Eq" and "depth" in flat and any(isinstance(x, tuple) and x[0] == "const" and x[1] == 255 for x in leaves):
        return "ply==MAX"
    return "other"


def classify_conditions(conds):
    kinds = [cond_kind(c) for c in conds]
    leaves = [x for c in conds for x in walk(c)]
    fields = {x[2:] for x in leaves if isinstance(x, tuple) and x[0] == "field"}
    lim = sorted({fs[-1] for fs in fields if "limits" in fs and fs[-1] != "limits"})
    suffix = "limits.{%s}" % ",".join(lim) if lim else "const"
    nonconst = [k for k in kinds if k != "const"]
    if not nonconst:
        return "const:" + suffix
    if "other" in nonconst:
        txt = " && ".join(expr_str(c) for c, k in zip(conds, kinds) if k == "other")
        return "other(%s)" % txt[:70]
    if set(nonconst) == {"ply==MAX"}:
        return "ply==MAX"
    if "ply-vs-depth-limit" in nonconst or "ply==MAX" in nonconst:
        return "ply>=" + suffix
    if set(nonconst) == {"nodes>=limit"}:
        return "nodes>=" + suffix
    if set(nonconst) <= {"clock>=limit", "nodes>=limit"}:
        return "clock>=" + suffix
    return "other(%s)" % ",".join(nonconst)


def counter_is_monotone(ix, path):
    """True if every assignment to a field path ending in `path` anywhere in the crate is x = x + c, c >= 0
    (or an initialisation inside a constructor aggregate, which is not an assignment)."""
    for b in ix.fn_bodies():
        sym = None
        for bi, i, s in b.stmts():
            fp = mir.fields_of(s["lhs"])
            if len(fp) >= len(path) and tuple(fp[-len(path):]) == tuple(path):
                if sym is None:
                    sym = mir.Sym(b, ix)
                e = sym.rvalue(s["rv"])
                ok = False
                # _x = AddWithOverflow(field, c); field = move _x.0
                for x in walk(e):
                    if isinstance(x, tuple) and x[0] == "bin" and x[1] in ("Add", "AddWithOverflow", "AddUnchecked"):
                        c = x[3]
                        if c[0] == "const" and isinstance(c[1], int) and c[1] >= 0:
                            ok = True
                if not ok:
                    return False
    return True


def rule_writers(ctx):
    """Nothing else writes state that outlives a search: the persistent statics are written only
    from the search functions and cleared only by bench (shared with C12.writers)."""
    ix = ctx.ix
    statics = C.persistent_statics(ix)
    ctx.check(statics == [C.TT_STATIC], "persistent-statics", "the only static that can change after initialisation is %s" % C.TT_STATIC,
              bad_what="persistent statics are %s (expected exactly the transposition table): new process-wide state is not covered by the guard rule" % statics)
    writers = {}
    for b in ix.fn_bodies():
        for a in C.static_accesses(ix, b, statics):
            if a["mode"] == "write" and not a["wrapper"]:
                writers.setdefault(b.key, set()).add(a["method"])
    allowed = {C.ALPHA_BETA: {"insert"}, C.ALPHA_BETA_START: {"insert"}, "bench::bench": {"clear"}}
    for k, ms in sorted(writers.items()):
        ctx.functions.add(k)
        # emptying the cache cannot plant a wrong bound or a value of an aborted search, whoever does it (whether it may race
        # with a running search is C16.no-race's question)
        if ms == {"clear"} and k not in allowed:
            ctx.ok("writer:%s" % k, "%s only clears the cache" % C.short(k), ix.bodies[k].where(0))
            continue
        ctx.check(k in allowed and ms <= allowed[k], "writer:%s" % k,
                  "%s writes the cache with {%s} (confirmed by reading; guarded by C13.guard / clear only)" % (C.short(k), ",".join(sorted(ms))),
                  ix.bodies[k].where(0),
                  bad_what="%s writes the process-wide cache with {%s}; this writer has not been confirmed" % (k, ",".join(sorted(ms))))
    ctx.floor("cache writers", len(writers), 3)


RULES = [("guard", rule_guard), ("child-score", rule_child_score), ("final", rule_final), ("dummy", rule_dummy), ("sticky", rule_sticky), ("writers", rule_writers)]


def run(tier):
    return engine.main(
        PROP, "interrupted search leaves nothing behind", RULES, "proof",
        explanation=("Decides the structural clause of C13 for every position and every cut point at once: on the MIR control-flow graph of every "
                     "function that writes the process-wide cache, each write is unreachable from the return of any call into an abortable search "
                     "function unless the path re-tests both abort predicates (is_running and limits_exceeded) on an edge whose abort side cannot "
                     "reach the write; aborted nodes return before any effect; after a cache write the node searches no further child (an entry is written when the node's value is final, so an interruption cannot leave a provisional one); every way limits_exceeded says 'stop' is sticky or monotone; no "
                     "other function writes persistent state. This is a sufficient condition for the statement, not a sample of budgets."),
        assumptions=["rustc's MIR (mir-opt-level=0) is a faithful control-flow graph of the source",
                     "an aborted node is one whose entry test `!is_running() || limits_exceeded()` fired; the clock is monotone and limits are not modified during a search (checked: SearchLimits is written only in Search::search before iter_deep)",
                     "the ply-counter overflow clause (info.depth == 255) is outside the statement and recorded as a note"],
        trusted_base=["rustc nightly MIR construction and callee resolution (Instance::try_resolve)", "/verif/engine/mirfacts driver (fact extraction)", "/verif/rules/mir.py reachability and dominator computation"],
        tier=tier)
