"""Run the mirfacts driver over /repo's current working tree and load the facts (DESIGN 2.1, 2.4).

Facts are cached under /verif/.cache keyed by a hash of every source byte of /repo (except target/
and .git/), the build configuration and the driver binary, so that the 17 checks of one tree share
one driver run while any changed byte gives a new key.
"""
import fcntl
import hashlib
import json
import os
import shutil
import subprocess
import sys
import tempfile
import time

VERIF = os.path.dirname(os.path.dirname(os.path.abspath(__file__)))
REPO = os.environ.get("VERIF_REPO", "/repo")
DRIVER_DIR = os.path.join(VERIF, "engine", "mirfacts")
DRIVER = os.path.join(DRIVER_DIR, "target", "debug", "mirfacts")
CACHE = os.path.join(VERIF, ".cache")
CRATE = "rust_chess_engine"
MIN_FN_BODIES = 380  # hand count on the pinned tree: 400


class BuildError(Exception):
    pass


def _nightly_sysroot():
    out = subprocess.run(["rustc", "+nightly", "--print", "sysroot"], capture_output=True, text=True)
    if out.returncode != 0:
        raise BuildError("nightly toolchain not found: " + out.stderr)
    return out.stdout.strip()


def ensure_driver():
    src_newer = False
    if os.path.exists(DRIVER):
        t = os.path.getmtime(DRIVER)
        for root, _d, files in os.walk(os.path.join(DRIVER_DIR, "src")):
            for f in files:
                if os.path.getmtime(os.path.join(root, f)) > t:
                    src_newer = True
    if not os.path.exists(DRIVER) or src_newer:
        env = dict(os.environ, CARGO_NET_OFFLINE="true")
        r = subprocess.run(["cargo", "build", "--offline"], cwd=DRIVER_DIR, env=env,
                           capture_output=True, text=True)
        if r.returncode != 0:
            raise BuildError("driver build failed:\n" + r.stderr[-4000:])
    return DRIVER


def tree_hash(repo=REPO):
    h = hashlib.sha256()
    for root, dirs, files in os.walk(repo):
        dirs[:] = sorted(d for d in dirs if d not in ("target", ".git"))
        for f in sorted(files):
            p = os.path.join(root, f)
            if os.path.islink(p) or not os.path.isfile(p):
                continue
            h.update(os.path.relpath(p, repo).encode())
            h.update(b"\0")
            with open(p, "rb") as fh:
                h.update(fh.read())
            h.update(b"\0")
    return h.hexdigest()


def _driver_hash():
    with open(DRIVER, "rb") as fh:
        return hashlib.sha256(fh.read()).hexdigest()[:16]


def run_driver(repo, out_path, release=False):
    """One driver run on `repo` with a fresh target dir (defeats cargo's freshness cache)."""
    sysroot = _nightly_sysroot()
    tmp = tempfile.mkdtemp(prefix="rce-verif-facts-")
    try:
        env = dict(os.environ)
        env.update({
            "LD_LIBRARY_PATH": os.path.join(sysroot, "lib") + ":" + env.get("LD_LIBRARY_PATH", ""),
            "RUSTFLAGS": "-Zmir-opt-level=0 -Awarnings",
            "RUSTC_WORKSPACE_WRAPPER": DRIVER,
            "MIRFACTS_OUT": out_path,
            "MIRFACTS_CRATE": CRATE,
            "CARGO_TARGET_DIR": os.path.join(tmp, "target"),
            "CARGO_NET_OFFLINE": "true",
        })
        env.pop("RUSTC_WRAPPER", None)
        cmd = ["cargo", "check", "--offline", "--bin", CRATE]
        if release:
            cmd.append("--release")
        t0 = time.time()
        r = subprocess.run(cmd, cwd=repo, env=env, capture_output=True, text=True)
        dt = time.time() - t0
        if r.returncode != 0:
            raise BuildError("cargo check of %s failed (exit %d):\n%s" % (repo, r.returncode, r.stderr[-6000:]))
        if not os.path.exists(out_path):
            raise BuildError("driver produced no facts file (was the crate %s built?)\n%s" % (CRATE, r.stderr[-2000:]))
        return dt
    finally:
        shutil.rmtree(tmp, ignore_errors=True)


def load(release=False, repo=REPO, use_cache=True):
    """Return (facts dict, meta dict)."""
    ensure_driver()
    os.makedirs(CACHE, exist_ok=True)
    th = tree_hash(repo)
    key = "%s-%s-%s" % (th[:32], "release" if release else "dev", _driver_hash())
    path = os.path.join(CACHE, "facts-%s.json" % key)
    lock = open(os.path.join(CACHE, "lock-%s" % key), "w")
    fcntl.flock(lock, fcntl.LOCK_EX)
    try:
        driver_s = 0.0
        cached = os.path.exists(path) and use_cache
        if not cached:
            tmp_out = path + ".tmp%d" % os.getpid()
            driver_s = run_driver(repo, tmp_out, release=release)
            os.replace(tmp_out, path)
            _prune_cache(keep=path)
        with open(path) as fh:
            facts = json.load(fh)
    finally:
        fcntl.flock(lock, fcntl.LOCK_UN)
        lock.close()
    if facts.get("crate") != CRATE:
        raise BuildError("facts file is for crate %r" % facts.get("crate"))
    if facts.get("cfg", {}).get("test"):
        raise BuildError("facts file was produced from a test build")
    if facts.get("n_fn_bodies", 0) < MIN_FN_BODIES:
        raise BuildError("only %d function bodies seen (floor %d): the build did not cover the crate"
                         % (facts.get("n_fn_bodies", 0), MIN_FN_BODIES))
    from . import inline
    inlined = inline.apply(facts)
    meta = {"tree_hash": th, "config": "release" if release else "dev", "cached": cached,
            "helpers_expanded": inlined, "renamed_anchors": facts.get("renamed", []), "renamed_fields": facts.get("renamed_fields", []), "renamed_types": facts.get("renamed_types", []), "loops_unrolled": facts.get("unrolled", []), "combinators_expanded": facts.get("expanded_combinators", []), "pipelines_lowered": facts.get("pipelines_lowered", []),
            "driver_s": round(driver_s, 2), "facts_file": path, "cfg": facts.get("cfg"),
            "n_fn_bodies": facts.get("n_fn_bodies")}
    return facts, meta


def _prune_cache(keep, max_files=12):
    try:
        files = [os.path.join(CACHE, f) for f in os.listdir(CACHE) if f.startswith("facts-") and f.endswith(".json")]
        files.sort(key=os.path.getmtime, reverse=True)
        for f in files[max_files:]:
            if f != keep:
                os.remove(f)
        kept = {os.path.basename(f)[6:-5] for f in files[:max_files]} | {os.path.basename(keep)[6:-5]}
        for f in os.listdir(CACHE):
            if f.startswith("lock-") and f[5:] not in kept:
                try:
                    os.remove(os.path.join(CACHE, f))
                except OSError:
                    pass
    except OSError:
        pass


if __name__ == "__main__":
    f, m = load(release="--release" in sys.argv)
    print(json.dumps(m, indent=1))
