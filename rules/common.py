"""Recognisers shared by several properties (anchors are def paths and types, never lines or text)."""
import re
from . import mir
from .mir import callee_is, callee_name, strip_generics, walk, op_place, const_int

IS_RUNNING = "search::Search::is_running"
LIMITS_EXCEEDED = "search::Search::limits_exceeded"
ALPHA_BETA = "search::Search::alpha_beta"
ALPHA_BETA_START = "search::Search::alpha_beta_start"
QUIESCENCE = "search::Search::quiescence"
ITER_DEEP = "search::Search::iter_deep"
SEARCH = "search::Search::search"
TT_STATIC = "board::transposition_table::TRANSPOSITION_TABLE"
ATOMIC_STORE = "std::sync::atomic::Atomic::store"
ATOMIC_LOAD = "std::sync::atomic::Atomic::load"

WRAPPERS = ("::expect", "::unwrap", "::unwrap_or_else", "::deref_mut", "::deref", "::borrow_mut", "::as_mut")


def persistent_statics(ix):
    """Statics whose contents can change after initialisation (interior mutability, not OnceLock)."""
    out = []
    for p, s in ix.statics.items():
        if s["mutable"] or (s["interior_mut"] and not s["ty"].startswith("std::sync::OnceLock<")):
            out.append(p)
    return sorted(out)


def expr_statics(e):
    return [x[1] for x in walk(e) if isinstance(x, tuple) and x and x[0] == "static"]


def expr_calls(e):
    return [x for x in walk(e) if isinstance(x, tuple) and x and x[0] == "call" and isinstance(x[1], str)]


def static_accesses(ix, body, statics):
    """Calls in `body` whose receiver (first argument) derives from one of `statics`.

    Returns dicts: block, term, method (last path segment), mode ('write'|'read'|'other'), static,
    wrapper (True for lock/unwrap/deref plumbing)."""
    sym = mir.Sym(body, ix)
    out = []
    for bi, t in body.calls():
        if not t.get("args"):
            continue
        recv = sym.operand(t["args"][0])
        ss = [s for s in expr_statics(recv) if s in statics]
        if not ss:
            continue
        c = strip_generics(callee_name(t))
        method = c.split("::")[-1]
        calls = [x[1] for x in expr_calls(recv)]
        mode = "other"
        if any(x.endswith("RwLock::write") or x.endswith("Mutex::lock") or x.endswith("RwLock::try_write") for x in calls):
            mode = "write"
        elif any(x.endswith("RwLock::read") or x.endswith("RwLock::try_read") for x in calls):
            mode = "read"
        wrapper = c.endswith(WRAPPERS) or method in ("write", "read", "lock", "try_write", "try_read", "get_or_init", "get")
        if method in ("write", "lock", "try_write"):
            mode = "write"
        out.append({"block": bi, "term": t, "method": method, "callee": c, "mode": mode, "static": ss[0], "wrapper": wrapper, "recv": recv})
    return out


def tt_stores(ix, body):
    """Mutations of a persistent static through a write guard, other than plumbing and `clear`."""
    statics = persistent_statics(ix)
    return [a for a in static_accesses(ix, body, statics)
            if a["mode"] == "write" and not a["wrapper"] and a["method"] not in ("clear",)]


def tt_clears(ix, body):
    statics = persistent_statics(ix)
    return [a for a in static_accesses(ix, body, statics)
            if a["mode"] == "write" and not a["wrapper"] and a["method"] == "clear"]


# ------------------------------------------------------------------------------------ abort guards

def switch_cond(body, sym, bi):
    """(expr, negated) of the value a block switches on; None if the block is not a switch.
    `negated` is True when an odd number of Not wrappers was stripped."""
    t = body.blocks[bi].term
    if t["k"] != "switch":
        return None
    e = sym.operand(t["discr"])
    neg = False
    while isinstance(e, tuple) and e[0] == "un" and e[1] == "Not":
        e = e[2]
        neg = not neg
    return e, neg


def switch_edges(t):
    """(false_targets, true_targets) of a boolean switch."""
    f = [a[1] for a in t["arms"] if a[0] == 0]
    tr = [a[1] for a in t["arms"] if a[0] != 0]
    if f:
        tr = tr + [t["otherwise"]]
    else:
        f = [t["otherwise"]]
    return f, tr


def guard_blocks(ix, body, kind, protect):
    """Abort-guard blocks of `kind` ('running' | 'limits') w.r.t. the protected block set `protect`:
    blocks that branch on the result of is_running / limits_exceeded and whose *abort* edge
    (is_running == false, limits_exceeded == true) cannot reach any protected block."""
    sym = mir.Sym(body, ix)
    out = []
    for blk in body.blocks:
        if blk.cleanup or blk.term["k"] != "switch":
            continue
        sc = switch_cond(body, sym, blk.idx)
        if sc is None:
            continue
        e, neg = sc
        if not (isinstance(e, tuple) and e[0] == "call"):
            continue
        pol = predicate_polarity(ix, e, kind)
        if pol is None:
            continue
        abort_on_true = pol
        if neg:
            abort_on_true = not abort_on_true
        f, tr = switch_edges(blk.term)
        abort_targets = tr if abort_on_true else f
        cont_targets = f if abort_on_true else tr
        # the abort edge must not reach a protected block
        bad = False
        for a in abort_targets:
            reach = body.reachable_from(a, removed={blk.idx}, include_start=True)
            if reach & protect:
                bad = True
        if not bad:
            out.append(blk.idx)
    return out


def abort_edges(ix, body):
    """Edges (block, target) taken when an abort test fires: is_running() == false, limits_exceeded() == true, or the
    abort value of a predicate wrapping them."""
    sym = mir.Sym(body, ix)
    out = set()
    for blk in body.blocks:
        if blk.cleanup or blk.term["k"] != "switch":
            continue
        sc = switch_cond(body, sym, blk.idx)
        if sc is None:
            continue
        e, neg = sc
        if not (isinstance(e, tuple) and e[0] == "call"):
            continue
        for kind in ("running", "limits"):
            pol = predicate_polarity(ix, e, kind)
            if pol is None:
                continue
            abort_on_true = pol != neg
            f, tr = switch_edges(blk.term)
            for tgt in (tr if abort_on_true else f):
                out.add((blk.idx, tgt))
    return out


def reach_avoiding(body, start, removed_blocks=frozenset(), forbidden_edges=frozenset()):
    """Blocks reachable from `start` without entering `removed_blocks` and without taking `forbidden_edges`."""
    seen = set()
    stack = [start]
    while stack:
        b = stack.pop()
        if b in seen or b in removed_blocks:
            continue
        seen.add(b)
        if b >= 0:
            for s in body.succ(b):
                if (b, s) not in forbidden_edges:
                    stack.append(s)
    return seen


_WRAP = {}


def predicate_polarity(ix, e, kind, depth=0):
    """If branching on the call expression `e` tests the abort predicate `kind` ('running' | 'limits'):
    True when a true result means abort, False when a false result means abort, None when it is not such a test.
    Direct calls of is_running / limits_exceeded, a direct load of a `running` atomic, and crate helper functions
    whose one return value guarantees the predicate's continue side (e.g. `fn should_abort(&self, start) -> bool
    { !self.is_running() || self.limits_exceeded(start) }`) are recognised."""
    if kind == "running" and is_running_expr(ix, e):
        return False
    if kind == "limits" and e[1] == LIMITS_EXCEEDED:
        return True
    if depth > 2 or not isinstance(e[1], str) or e[1] not in ix.bodies or e[1] in (IS_RUNNING, LIMITS_EXCEEDED):
        return None
    key = (ix.uid, e[1], kind)
    if key not in _WRAP:
        _WRAP[key] = None
        _WRAP[key] = _wrapper_polarity(ix, ix.bodies[e[1]], kind, depth)
    return _WRAP[key]


def _wrapper_polarity(ix, h, kind, depth):
    if not h.locals or h.locals[0]["ty"] != "bool":
        return None
    sym = mir.Sym(h, ix)
    defs = [d for d in h.defs().get(0, []) if d[2].get("k") != "partial"]
    if not defs:
        return None
    for abort_value in (True, False):
        ok = True
        for (db, di, rv) in defs:
            v = sym.rvalue(rv) if rv.get("k") != "call" else ("call", mir.strip_generics(mir.callee_name(rv["t"])), tuple(sym.operand(a) for a in rv["t"]["args"]))
            if v == ("const", 1 if abort_value else 0, "bool"):
                continue  # this definition signals abort: nothing to prove
            # this definition may yield the continue value: the predicate's continue side must be guaranteed
            neg = False
            x = v
            while isinstance(x, tuple) and x[0] == "un" and x[1] == "Not":
                x = x[2]
                neg = not neg
            direct = None
            if isinstance(x, tuple) and x[0] == "call":
                direct = predicate_polarity(ix, x, kind, depth + 1)
            if direct is not None:
                # value == predicate (possibly negated): continue value of H must coincide with continue side of the predicate
                if (direct != neg) == abort_value:
                    continue
            # otherwise: reaching this definition must already imply the continue side (guards inside the helper)
            guards = set(guard_blocks(ix, h, kind, {db})) if depth < 2 else set()
            if guards and db not in h.reachable_from(0, removed=guards, include_start=True):
                continue
            ok = False
            break
        if ok:
            return abort_value
    return None


def is_running_expr(ix, e):
    """call to Search::is_running, or a direct load of a `running` atomic"""
    if e[0] != "call":
        return False
    if e[1] == IS_RUNNING:
        return True
    if e[1] == ATOMIC_LOAD:
        return any(isinstance(x, tuple) and x[0] == "field" and "running" in x[2:] for x in walk(e))
    return False


def abortable_functions(ix):
    """Crate functions from which the abort test is reachable (they may return a dummy value)."""
    ix.body(IS_RUNNING)
    ix.body(LIMITS_EXCEEDED)
    out = set()
    for b in ix.fn_bodies():
        if b.key in (IS_RUNNING, LIMITS_EXCEEDED):
            continue
        # helpers that merely wrap the abort predicates are tests, not searches
        if b.locals and b.locals[0]["ty"] == "bool" and any(_wrapper_polarity(ix, b, k, 0) is not None for k in ("running", "limits")):
            continue
        r = ix.reachable([b.key])
        if IS_RUNNING in r or LIMITS_EXCEEDED in r:
            out.add(b.key)
    return out


def calls_to(ix, body, keys):
    """(block, term, target key) for calls in `body` that may reach one of `keys`."""
    out = []
    for bi, t in body.calls():
        for k in ix.call_targets(t):
            if k in keys:
                out.append((bi, t, k))
                break
    return out


def short(k):
    return mir.short(k)


def value_cases(body, sym, bi, rv):
    """The values a stored rvalue can take, each with the block that decides it: `x = if c { A } else { B }` stores a
    temporary that is assigned in both arms; this returns [(arm block, A), (arm block, B)] so that a rule sees the
    same cases as for `if c { x = A } else { x = B }`.  The same holds for `let m = match k { .. }; use(m)`.
    A plain value gives [(bi, value)]."""
    if rv.get("k") == "use":
        p = op_place(rv["a"])
        # `let (lo, hi) = if c { (a, b) } else { (d, e) }`: a component of a tuple built in the arms
        if p is not None and len(p["p"]) == 1 and isinstance(p["p"][0], dict) and "f" in p["p"][0] and p["l"] > body.arg_count and p["l"] not in body.names:
            l = p["l"]
            defs = body.defs().get(l, [])
            if len(defs) >= 2 and all(d[2].get("k") == "agg" and d[2].get("agg") in ("tuple", "adt") and p["p"][0]["f"] < len(d[2]["ops"]) for d in defs) \
                    and l not in body.mut_borrowed_locals():
                blocks = [d[0] for d in defs]
                if len(set(blocks)) == len(blocks) and not any(o in body.reachable_from(d, removed={bi}) for d in blocks for o in blocks):
                    return [(db, sym.operand(drv["ops"][p["p"][0]["f"]])) for (db, di, drv) in defs]
        if p is not None and mir.is_local(p) and p["l"] > body.arg_count:
            sdp = body.single_def(p["l"])
            if sdp and sdp[2].get("k") == "use":
                q = op_place(sdp[2]["a"])
                if q is not None and len(q["p"]) == 1 and isinstance(q["p"][0], dict) and "f" in q["p"][0] and q["l"] not in body.names and body.single_def(q["l"]) is None:
                    return value_cases(body, sym, sdp[0], sdp[2])     # a pattern binding of such a component
        if p is not None and mir.is_local(p) and p["l"] > body.arg_count:
            l = p["l"]
            defs = body.defs().get(l, [])
            if len(defs) == 1 and defs[0][2].get("k") == "use" and l not in body.names:
                q = op_place(defs[0][2]["a"])
                if q is not None and mir.is_local(q):
                    return value_cases(body, sym, defs[0][0], defs[0][2])  # a copy of the variable into a temporary
            if len(defs) >= 2 and all(d[2].get("k") != "partial" for d in defs) and l not in body.mut_borrowed_locals():
                # assigned once per path: no definition can be followed by another one
                blocks = [d[0] for d in defs]
                # (on the way to this use: inside a loop every definition reaches the others again, but only through the use)
                once = len(set(blocks)) == len(blocks) and not any(
                    o in body.reachable_from(d, removed={bi}) for d in blocks for o in blocks)
                if once:
                    out = []
                    for (db, di, drv) in defs:
                        if drv.get("k") == "call":
                            t = drv["t"]
                            v = ("call", strip_generics(callee_name(t)), tuple(sym.operand(a) for a in t["args"]))
                            out.append((db, v))
                        else:
                            out.extend(value_cases(body, sym, db, drv))
                    return out
    return [(bi, sym.rvalue(rv))]


def depends_on(body, sym, e, depth=0, _seen=None):
    """Every expression the value `e` can come from: e itself and, for each compiler temporary in it that is assigned in
    several arms (the result of an `if` / `match` / expanded combinator), the values assigned there, transitively.  For
    questions of the form "does the printed text derive from field F"."""
    out = [e]
    if depth > 4:
        return out
    seen = _seen if _seen is not None else set()
    for x in walk(e):
        if isinstance(x, tuple) and x[0] == "var" and isinstance(x[1], str) and x[1] not in seen:
            seen.add(x[1])
            ls = [l for l in range(body.arg_count + 1, len(body.locals)) if body.local_name(l) == x[1]]
            for l in ls:
              for (db, di, rv) in body.defs().get(l, []):
                if rv.get("k") == "partial":
                    rv = rv["rv"]
                if rv.get("k") == "call":
                    t = rv["t"]
                    v = ("call", strip_generics(callee_name(t)), tuple(sym.operand(a) for a in t["args"]))
                else:
                    v = sym.rvalue(rv)
                out.extend(depends_on(body, sym, v, depth + 1, seen))
    return out


def operand_cases(body, sym, bi, op):
    """value_cases for an operand (e.g. a call argument)."""
    return value_cases(body, sym, bi, {"k": "use", "a": op})


# ------------------------------------------------------------------------------- decision tables

STD_VARIANTS = {"std::option::Option": ["None", "Some"], "std::result::Result": ["Ok", "Err"], "core::option::Option": ["None", "Some"]}


def variant_names(ix, ty):
    """Variant names by discriminant value for an enum type string."""
    base = ty.lstrip("&").replace("mut ", "").strip()
    head = base.split("<")[0]
    if head in STD_VARIANTS:
        return {i: n for i, n in enumerate(STD_VARIANTS[head])}
    a = ix.adts.get(head)
    if a and a["kind"] == "Enum":
        out = {}
        for i, v in enumerate(a["variants"]):
            d = int(v["discr"]) if v["discr"] is not None else i
            out[d] = v["name"]
        return out
    return None


def discr_type_of_switch(body, bi):
    """Type of the place whose discriminant a block switches on (None if not a discriminant switch)."""
    t = body.blocks[bi].term
    p = op_place(t["discr"])
    if p is None or not mir.is_local(p):
        return None
    sd = body.single_def(p["l"])
    if sd and sd[2].get("k") == "discr":
        return sd[2]["p"]["ty"]
    return None


def _bool_flag_defs(body, discr_op):
    """For a switch operand that is (a copy of) a bool local assigned only constants in >= 2 places:
    {True: [def blocks], False: [def blocks]}; otherwise None."""
    p = op_place(discr_op)
    if p is None or not mir.is_local(p):
        return None
    l = p["l"]
    for _ in range(3):
        sd = body.single_def(l)
        if sd and sd[2].get("k") == "use" and op_place(sd[2]["a"]) is not None and mir.is_local(op_place(sd[2]["a"])):
            l = op_place(sd[2]["a"])["l"]
        else:
            break
    if 1 <= l <= body.arg_count or l in body.names:
        return None  # a variable of the program (`pvs`), not a temporary of the lowering
    defs = body.defs().get(l, [])
    if len(defs) < 2 or any(d[2].get("k") != "use" or const_int(d[2]["a"]) not in (0, 1) for d in defs):
        return None
    out = {True: [], False: []}
    for d in defs:
        out[bool(const_int(d[2]["a"]))].append(d[0])
    return out


def merged_bool_source(body, sym, discr_op, allow_named=False):
    """For a switch operand that is (a copy of) an unnamed bool temporary assigned constants of one truth value in some
    arms and one computed value in exactly one arm (`o.is_some_and(|x| P(x))` after expansion: false when None, P(x) when
    Some): (block of the computed definition, its expression, the constants' truth value); otherwise None."""
    p = op_place(discr_op)
    if p is None or not mir.is_local(p):
        return None
    l = p["l"]
    for _ in range(3):
        sd = body.single_def(l)
        if sd and sd[2].get("k") == "use" and op_place(sd[2]["a"]) is not None and mir.is_local(op_place(sd[2]["a"])):
            l = op_place(sd[2]["a"])["l"]
        else:
            break
    if 1 <= l <= body.arg_count:
        return None
    defs = body.defs().get(l, [])
    if len(defs) < 2:
        return None
    if l in body.names and not allow_named:
        # a named flag is read the same way when it is assigned once per path and never again: `let ok = a && b;` outside
        # any loop, not borrowed mutably (a `let mut found = false; for .. { found = true }` flag is not that)
        if any(body.in_loop(d[0]) for d in defs) or l in body.mut_borrowed_locals():
            return None
    consts = [d for d in defs if d[2].get("k") == "use" and const_int(d[2]["a"]) in (0, 1)]
    comp = [d for d in defs if d not in consts]
    if len(comp) != 1 or not consts or len({const_int(d[2]["a"]) for d in consts}) != 1 or comp[0][2].get("k") == "partial":
        return None
    db, di, rv = comp[0]
    if rv.get("k") == "call":
        e = ("call", strip_generics(callee_name(rv["t"])), tuple(sym.operand(a) for a in rv["t"]["args"]))
    else:
        e = sym.rvalue(rv)
    return db, e, bool(const_int(consts[0][2]["a"]))


def constraints_for(ix, body, sym, block, _depth=0):
    """Constraints that hold on every path reaching `block`: for each dominating switch of which only some
    arms lead to the block: (text of the switched expression, frozenset of value names, switch block)."""
    out = []
    doms = body.dom().get(block) or set()
    for d in sorted(doms):
        if d == block or body.blocks[d].term["k"] != "switch":
            continue
        t = body.blocks[d].term
        arms = [(a[0], a[1]) for a in t["arms"]] + [("otherwise", t["otherwise"])]
        # arms that lead straight to `unreachable` (exhaustive matches) carry no information
        arms = [(v, tgt) for v, tgt in arms if not (tgt >= 0 and body.blocks[tgt].term["k"] == "unreachable" and not body.blocks[tgt].stmts)]
        leading = []
        for v, tgt in arms:
            if block in body.reachable_from(tgt, removed={d}, include_start=True):
                leading.append(v)
        if len(leading) == len(arms):
            continue
        e = sym.operand(t["discr"])
        neg = False
        while isinstance(e, tuple) and e[0] == "un" and e[1] == "Not":
            e = e[2]
            neg = not neg
        # `matches!(x, Pat)` lowers to a bool temporary set in the arms of a switch on x: translate back
        fl = resolve_flag(ix, body, sym, t["discr"]) if t.get("discr_ty") == "bool" else None
        if fl is not None:
            fe, by_val, fblock = fl
            want = set()
            for v in leading:
                if v == "otherwise":
                    bools = [x for x in (0, 1) if x not in [a[0] for a in t["arms"]]]
                else:
                    bools = [v]
                for bv in bools:
                    want |= by_val.get(bool(bv) != neg, set())
            out.append((mir.expr_str(fe), frozenset(want), fblock, fe))
            continue
        # a bool flag set to constants at the end of a compound test (`matches!(x, P if g)`, `let ok = a && b`):
        # passing the edge for value v means one of the `flag = v` blocks was executed, so whatever holds at all of
        # them holds here
        fd = _bool_flag_defs(body, t["discr"]) if t.get("discr_ty") == "bool" and _depth < 4 else None
        if fd is not None:
            want = set()
            for v in leading:
                bools = [x for x in (0, 1) if x not in [a[0] for a in t["arms"]]] if v == "otherwise" else [v]
                want |= {bool(bv) for bv in bools}
            if len(want) == 1:
                blocks = fd[next(iter(want))]
                common = None
                for db in blocks:
                    cs = constraints_for(ix, body, sym, db, _depth + 1)
                    common = cs if common is None else [c for c in common if any(c[0] == c2[0] and c[1] == c2[1] for c2 in cs)]
                for c in common or []:
                    if not any(c[0] == o[0] and c[1] == o[1] for o in out):
                        out.append(c)
                continue
        # a bool that is a constant in all arms but one: leaving by the other truth value means the computed arm was taken
        # and its value is that truth value
        ms = merged_bool_source(body, sym, t["discr"]) if t.get("discr_ty") == "bool" and _depth < 4 else None
        if ms is not None:
            want = set()
            for v in leading:
                bools = [x for x in (0, 1) if x not in [a[0] for a in t["arms"]]] if v == "otherwise" else [v]
                want |= {bool(bv) != neg for bv in bools}
            db, me, cv = ms
            if want == {not cv}:
                for c in constraints_for(ix, body, sym, db, _depth + 1):
                    if not any(c[0] == o[0] and c[1] == o[1] for o in out):
                        out.append(c)
                mneg = False
                while isinstance(me, tuple) and me[0] == "un" and me[1] == "Not":
                    me = me[2]
                    mneg = not mneg
                out.append((mir.expr_str(me), frozenset([(not cv) != mneg]), d, me))
                continue
        names = None
        ty = discr_type_of_switch(body, d)
        if ty:
            names = variant_names(ix, ty)
        vals = []
        explicit = [a[0] for a in t["arms"]]
        for v in leading:
            if v == "otherwise":
                if names:
                    vals.extend(n for dv, n in names.items() if dv not in explicit)
                elif t.get("discr_ty") == "bool":
                    vals.extend(x for x in (0, 1) if x not in explicit)
                else:
                    vals.append("not{%s}" % ",".join(str(x) for x in explicit))
            else:
                vals.append(names.get(v, v) if names else v)
        if t.get("discr_ty") == "bool":
            vals = [bool(v) != neg if isinstance(v, int) else v for v in vals]
        # `o.is_some()` / `o.is_none()` is the discriminant test of `if let Some(..) = o` / `match o`
        if e[0] == "call" and e[1] in ("std::option::Option::is_some", "std::option::Option::is_none") and len(e[2]) == 1 \
                and vals and all(isinstance(v, bool) for v in vals) and len(set(vals)) == 1:
            truth = next(iter(vals)) == e[1].endswith("is_some")
            e = ("discr", mir.strip_refs(e[2][0]))
            vals = ["Some" if truth else "None"]
        # a variant test on a value merged from several arms, all but one of which build a variant that fails the test
        # (`a.and_then(|()| b).is_ok()` after expansion is `match a { Ok(()) => b, Err(x) => Err(x) }.is_ok()`): passing it
        # means the remaining arm was taken and its value passes the test
        mg = _merged_variant_test(ix, body, sym, d, e, vals, _depth)
        if mg is not None:
            for c in mg:
                if not any(c[0] == o[0] and c[1] == o[1] for o in out):
                    out.append(c)
            continue
        # discr(c.opposite()) in {White} is discr(c) in {Black} (Color::opposite's table is decided by C04)
        if e[0] == "discr":
            inner = mir.strip_copies(e[1])
            if inner[0] == "call" and isinstance(inner[1], str) and inner[1].endswith("piece::Color::opposite") and len(inner[2]) == 1 \
                    and all(v in ("White", "Black") for v in vals):
                e = ("discr", inner[2][0])
                vals = ["Black" if v == "White" else "White" for v in vals]
        out.append((mir.expr_str(e), frozenset(vals), d, e))
        # `x == Enum::Variant` through a derived PartialEq is the same test as `match x { Enum::Variant => .. }`:
        # add the discriminant form next to the call form so that rules written for either spelling see it
        dq = _eq_as_discr(ix, e, vals)
        if dq is not None and not any(o[0] == mir.expr_str(dq[0]) and o[1] == dq[1] for o in out):
            out.append((mir.expr_str(dq[0]), dq[1], d, dq[0]))
    return out


_VARIANT_TESTS = {"std::result::Result::is_ok": "Ok", "std::result::Result::is_err": "Err",
                  "std::option::Option::is_some": "Some", "std::option::Option::is_none": "None"}


def _merged_variant_test(ix, body, sym, d, e, vals, depth):
    if depth >= 4 or e[0] != "call" or e[1] not in _VARIANT_TESTS or len(e[2]) != 1:
        return None
    if not vals or not all(isinstance(v, bool) for v in vals) or len(set(vals)) != 1:
        return None
    truth = next(iter(vals))
    inner = mir.strip_refs(e[2][0])
    if inner[0] != "var" or not isinstance(inner[1], str) or not inner[1].startswith("_"):
        return None
    try:
        l = int(inner[1][1:])
    except ValueError:
        return None
    if l in body.names or l <= body.arg_count:
        return None
    cases = value_cases(body, sym, d, {"k": "use", "a": {"copy": {"l": l, "p": [], "ty": "?"}}})
    if len(cases) < 2:
        return None
    want = _VARIANT_TESTS[e[1]]
    live = []
    for db, v in cases:
        v2 = mir.strip_copies(v)
        if v2[0] == "agg" and v2[2] is not None:
            if (v2[2] == want) == truth:
                live.append((db, v, True))   # passes the test by construction
            continue
        live.append((db, v, False))
    if len(live) != 1 or live[0][2]:
        return None
    db, v, _ = live[0]
    out = list(constraints_for(ix, body, sym, db, depth + 1))
    te = ("call", e[1], (("ref", v),))
    out.append((mir.expr_str(te), frozenset([truth]), d, te))
    return out


_DERIVED_EQ = {}


def _derived_discr_eq(ix, callee):
    """Is `callee` a `<T as PartialEq>::eq` / `ne` of the crate whose body compares the two discriminants and
    nothing else (the derive on a field-less enum)?  Returns (type path, is_ne) or None."""
    key = (ix.uid, callee)
    if key in _DERIVED_EQ:
        return _DERIVED_EQ[key]
    res = None
    m = re.match(r"^<(.+) as std::cmp::PartialEq>::(eq|ne)$", callee or "")
    if m:
        ty, which = m.group(1), m.group(2)
        eqb = ix.bodies.get("<%s as std::cmp::PartialEq>::eq" % ty)
        a = ix.adts.get(ty)
        if eqb is not None and a is not None and a["kind"] == "Enum" and all(not v["fields"] for v in a["variants"]):
            r = mir.Sym(eqb, ix).local(0)
            if (r[0] == "bin" and r[1] == "Eq" and r[2][0] == "discr" and r[3][0] == "discr"
                    and {mir.expr_str(mir.strip_refs(r[2][1])), mir.expr_str(mir.strip_refs(r[3][1]))} == {"self", "other"}):
                if which == "eq" or ("<%s as std::cmp::PartialEq>::ne" % ty) not in ix.bodies:
                    res = (ty, which == "ne")
    _DERIVED_EQ[key] = res
    return res


def derived_variant_test(ix, e):
    """For `<T as PartialEq>::eq(a, b)` / `ne` where T is an enum of the crate whose PartialEq is derived (the body carries
    the span of the derive attribute) and one side is a constant field-less variant V: (the other side, V, is_ne).
    Equality with a field-less variant holds exactly when the discriminants agree, also when other variants carry data."""
    if not (isinstance(e, tuple) and e[0] == "call" and isinstance(e[1], str) and len(e[2]) == 2):
        return None
    m = re.match(r"^<(.+) as std::cmp::PartialEq>::(eq|ne)$", e[1])
    if not m:
        return None
    ty, which = m.group(1), m.group(2)
    a = ix.adts.get(ty)
    eqb = ix.bodies.get("<%s as std::cmp::PartialEq>::eq" % ty)
    if a is None or a["kind"] != "Enum" or eqb is None:
        return None
    derived = eqb.line_lo == eqb.line_hi and all(st.get("exp") for blk in eqb.blocks[:1] for st in blk.stmts)
    if not derived or (which == "ne" and ("<%s as std::cmp::PartialEq>::ne" % ty) in ix.bodies):
        return None
    fieldless = {v["name"] for v in a["variants"] if not v["fields"]}
    x, y = mir.strip_refs(e[2][0]), mir.strip_refs(e[2][1])
    for p, q in ((x, y), (y, x)):
        if p[0] == "agg" and p[1] == ty and p[2] in fieldless and not p[3]:
            return q, p[2], which == "ne"
    return None


def variant_test_edges(ix, body, adt_path, variant):
    """{test block: set of successor blocks taken exactly when the tested value is `variant`} over the three spellings:
    `match x { V => .. }` (a discriminant switch, possibly setting a flag that is tested next: the `matches!` lowering),
    and `x == T::V` through a derived PartialEq."""
    sym = mir.Sym(body, ix)
    adt = ix.adts.get(adt_path)
    if adt is None:
        return {}
    idx = [int(v["discr"]) for v in adt["variants"] if v["name"] == variant]
    out = {}
    for blk in body.blocks:
        if blk.cleanup or blk.term["k"] != "switch":
            continue
        t = blk.term
        e = sym.operand(t["discr"])
        ty = discr_type_of_switch(body, blk.idx)
        if e[0] == "discr" and idx and ty and ty.lstrip("&").replace("mut ", "").strip() == adt_path and any(a[0] == idx[0] for a in t["arms"]):
            out[blk.idx] = {a[1] for a in t["arms"] if a[0] == idx[0]}
            continue
        if t.get("discr_ty") == "bool":
            fl = resolve_flag(ix, body, sym, t["discr"])
            if fl is not None and fl[1].get(True) == {variant}:
                f_, tr_ = switch_edges(t)
                out[blk.idx] = set(tr_)
                out.pop(fl[2], None)  # the discriminant switch only sets the flag
                continue
            neg = False
            x = e
            while isinstance(x, tuple) and x[0] == "un" and x[1] == "Not":
                x = x[2]
                neg = not neg
            dv = derived_variant_test(ix, x)
            if dv is not None and dv[1] == variant:
                f_, tr_ = switch_edges(t)
                is_true_edge = (not dv[2]) != neg
                out[blk.idx] = set(tr_ if is_true_edge else f_)
    return out


def _eq_as_discr(ix, e, vals):
    if not (isinstance(e, tuple) and e[0] == "call" and isinstance(e[1], str) and len(e[2]) == 2):
        return None
    if not vals or not all(isinstance(v, bool) for v in vals) or len(set(vals)) != 1:
        return None
    d = _derived_discr_eq(ix, e[1])
    if d is None:
        return None
    ty, is_ne = d
    a, b = mir.strip_refs(e[2][0]), mir.strip_refs(e[2][1])
    variant = None
    other = None
    for x, y in ((a, b), (b, a)):
        if x[0] == "agg" and x[1] == ty and x[2] and not x[3]:
            variant, other = x[2], y
    if variant is None:
        return None
    truth = next(iter(vals)) != is_ne
    names = [v["name"] for v in ix.adts[ty]["variants"]]
    vs = {variant} if truth else {n for n in names if n != variant}
    return ("discr", other), frozenset(vs)


def resolve_flag(ix, body, sym, discr_op):
    """A bool local assigned constants in the arms of one switch on expression E (the `matches!` idiom):
    returns (E, {True: value names reaching the `true` assignments, False: ...}, switch block) or None."""
    p = op_place(discr_op)
    if p is None or not mir.is_local(p):
        return None
    l = p["l"]
    for _ in range(3):
        sd = body.single_def(l)
        if sd and sd[2].get("k") == "use" and op_place(sd[2]["a"]) is not None and mir.is_local(op_place(sd[2]["a"])):
            l = op_place(sd[2]["a"])["l"]
        else:
            break
    defs = body.defs().get(l, [])
    if len(defs) < 2 or any(d[2].get("k") != "use" or const_int(d[2]["a"]) not in (0, 1) for d in defs):
        return None
    blocks = {d[0]: bool(const_int(d[2]["a"])) for d in defs}
    # the switch whose arms lead to those blocks
    cands = None
    for b in blocks:
        ds = {x for x in (body.dom().get(b) or set()) if x != b and x >= 0 and body.blocks[x].term["k"] == "switch"}
        cands = ds if cands is None else cands & ds
    for sw in sorted(cands or [], reverse=True):
        t = body.blocks[sw].term
        if t.get("discr_ty") == "bool":
            continue
        arms = [(a[0], a[1]) for a in t["arms"]] + [("otherwise", t["otherwise"])]
        ty = discr_type_of_switch(body, sw)
        names = variant_names(ix, ty) if ty else None
        explicit = [a[0] for a in t["arms"]]
        by_val = {True: set(), False: set()}
        ok = True
        for v, tgt in arms:
            reach = body.reachable_from(tgt, removed={sw}, include_start=True)
            hit = {blocks[b] for b in blocks if b in reach and not any(o != b and o in reach and body.dominates(o, b) for o in blocks)}
            first = set()
            for b in blocks:
                if b in reach:
                    first.add(blocks[b])
            if len(first) != 1:
                ok = False
                break
            val = next(iter(first))
            if v == "otherwise":
                if names:
                    by_val[val] |= {n for dv, n in names.items() if dv not in explicit}
                else:
                    by_val[val].add("not{%s}" % ",".join(str(x) for x in explicit))
            else:
                by_val[val].add(names.get(v, v) if names else v)
        if ok:
            return sym.operand(t["discr"]), by_val, sw
    return None


# ---------------------------------------------------------------------------------------------- the pop-lowest-bit loop
def _is_struct_local(body, name):
    for l in range(len(body.locals)):
        if body.local_name(l) == name:
            return body.locals[l]["ty"] not in ("board::bitboard::Bitboard",)
    return False


def pop_loop(body, sym, at):
    """The loop around block `at` read as "once for every set bit of a mask, lowest bit first":

        while m != 0 { i = m.trailing_zeros(); ...; m &= m - 1 }         (m an integer local)
        while !m.is_empty() { i = m.drop_forward(); ... }                 (m a Bitboard local)

    Returns (None, info) when the loop has that shape, info = {"mask": local, "init": symbolic value of the mask on entry,
    "index": the call that yields the bit index, "blocks": loop blocks}; otherwise (reason, None).  What is required: the loop
    has exactly one branch point (asserts aside), which leaves the loop exactly when the mask is empty; exactly one pop per
    iteration, on every way round; in the integer form the index is read before the bit is cleared; nothing else writes the
    mask inside the loop; the mask has one definition outside the loop."""
    live = body.live_blocks()
    loop = {x for x in live if not body.blocks[x].cleanup and (x == at or (body.reaches(x, at) and body.reaches(at, x)))}
    if at not in body.reachable_from(at):
        return "the block is not in a loop", None
    def returns(y):
        return any(body.blocks[z].term["k"] == "return" for z in body.reachable_from(y, include_start=True))
    # the ways out of the loop (panic paths aside): exactly one, a branch
    outs = sorted({x for x in loop for y in body.succ(x) if y not in loop and not body.blocks[y].cleanup and returns(y)})
    if len(outs) != 1 or body.blocks[outs[0]].term["k"] != "switch":
        return "the loop can be left at %d places, not just at its emptiness test" % len(outs), None
    h = outs[0]
    t = body.blocks[h].term
    if len(t["arms"]) != 1 or t["arms"][0][0] != 0:
        return "the loop test is not a two-way test", None
    on_false, on_true = t["arms"][0][1], t["otherwise"]
    d = sym.operand(t["discr"])
    neg = False
    while d[0] == "un" and d[1] == "Not":
        d, neg = d[2], not neg
    mexpr = None
    if d[0] == "bin" and d[1] in ("Ne", "Eq", "Gt") and d[3][0] == "const" and d[3][1] == 0:
        mexpr, empty_when = d[2], (d[1] == "Eq")
    elif d[0] == "call" and d[1].endswith("Bitboard::is_empty") and len(d[2]) == 1:
        mexpr, empty_when = d[2][0], True
    if mexpr is None:
        return "the loop test `%s` is not an emptiness test of a mask" % mir.expr_str(d)[:80], None
    if neg:
        empty_when = not empty_when
    exit_t, stay_t = (on_true, on_false) if empty_when else (on_false, on_true)
    if exit_t in loop or stay_t not in loop:
        return "the loop does not leave exactly when the mask is empty", None
    mexpr = mir.strip_copies(mir.strip_refs(mexpr))
    while mexpr[0] == "field" and mexpr[-1] == "0" and len(mexpr) == 3 and mir.strip_copies(mexpr[1])[0] in ("var", "field"):
        inner = mir.strip_copies(mexpr[1])
        if inner[0] == "var" and not _is_struct_local(body, inner[1]):
            mexpr = inner       # `m.0 != 0` on a Bitboard local
        else:
            break
    # the mask is a local, or one field of a local iterator struct (`iter.remaining` after `next` was expanded in place)
    mproj = ()
    base = mexpr
    if base[0] == "field" and mir.strip_copies(base[1])[0] == "var":
        mproj = tuple(base[2:])
        base = mir.strip_copies(base[1])
    if base[0] != "var":
        return "the tested mask `%s` is not a local variable (or a field of one)" % mir.expr_str(mexpr)[:60], None
    ml = [l for l in range(len(body.locals)) if body.local_name(l) == base[1]]
    if len(ml) != 1:
        return "cannot identify the mask local", None
    m = ml[0]

    def proj_names(place):
        return tuple(x.get("n") if isinstance(x, dict) else x for x in place["p"])

    defs = body.defs().get(m, [])
    if mproj:
        whole = [x for x in defs if x[2].get("k") != "partial"]
        part = [x for x in defs if x[2].get("k") == "partial" and proj_names(x[2]["lhs"])[:len(mproj)] == mproj]
        if [x for x in whole if x[0] in loop] or len([x for x in whole if x[0] not in loop]) != 1 or [x for x in part if x[0] not in loop]:
            return "the iterator holding the mask is rebuilt inside the loop or built more than once before it", None
        ob, oi, orv = [x for x in whole if x[0] not in loop][0]
        built = sym.rvalue(orv) if orv.get("k") not in ("call",) else ("call", orv["t"].get("callee") or "?", tuple(sym.operand(a) for a in orv["t"]["args"]))
        built = mir.strip_copies(built)
        while built[0] == "call" and built[1] == "<I as std::iter::IntoIterator>::into_iter" and len(built[2]) == 1:
            built = mir.strip_copies(built[2][0])      # the blanket impl for iterators: the iterator itself
        if not (built[0] == "agg" and len(built) > 4 and built[4] and mproj[0] in built[4]):
            return "the iterator holding the mask is not built as a struct literal before the loop", None
        init = built[3][list(built[4]).index(mproj[0])]
        inside = [(x[0], x[1], x[2]["rv"]) for x in part if x[0] in loop]
        outside = [(ob, oi, orv)]
    else:
        inside = [x for x in defs if x[0] in loop]
        outside = [x for x in defs if x[0] not in loop]
        if len(outside) != 1 or outside[0][2].get("k") in ("partial",):
            return "the mask has %d definitions before the loop" % len(outside), None
        ob, oi, orv = outside[0]
        init = sym.rvalue(orv) if orv.get("k") != "call" else sym.local(m)
        if orv.get("k") == "call":
            tt = orv["t"]
            init = ("call", tt.get("callee") or "?", tuple(sym.operand(a) for a in tt["args"]))

    def once(x):
        return x in loop and h not in body.reachable_from(stay_t, removed={x}, include_start=True) or x == stay_t

    borrows = []
    for x in sorted(loop):
        for s in body.blocks[x].stmts:
            rv = s["rv"]
            if rv["k"] in ("ref", "rawptr") and rv.get("mut", rv["k"] == "rawptr") and rv["p"]["l"] == m and proj_names(rv["p"])[:len(mproj)] == mproj:
                borrows.append((x, s["lhs"]["l"]))
    pops = [(x, body.blocks[x].term) for x in sorted(loop) if body.blocks[x].term["k"] == "call" and (body.blocks[x].term.get("callee") or "").endswith("Bitboard::drop_forward")
            and mir.strip_copies(mir.strip_refs(sym.operand(body.blocks[x].term["args"][0]))) == mexpr]
    if pops:
        if len(pops) != 1 or inside or len(borrows) != 1:
            return "the mask is popped %d times and otherwise written %d times per iteration" % (len(pops), len(inside) + len(borrows) - 1), None
        if not once(pops[0][0]):
            return "drop_forward is not reached exactly once on every way round the loop", None
        return None, {"mask": m, "init": init, "index": ("call", pops[0][1]["callee"], None), "pop_block": pops[0][0], "blocks": loop, "head": h, "once": once}
    if borrows:
        return "the mask is mutably borrowed inside the loop", None
    if len(inside) != 1 or inside[0][2].get("k") in ("partial", "call"):
        return "the mask is written %d times per iteration" % len(inside), None
    ub, ui, urv = inside[0]
    u = sym.rvalue(urv)
    v = mexpr
    ok = u[0] == "bin" and u[1] == "BitAnd" and any(
        a == v and bb[0] == "bin" and bb[1].startswith("Sub") and bb[2] == v and bb[3][0] == "const" and bb[3][1] == 1 for a, bb in ((u[2], u[3]), (u[3], u[2])))
    if not ok:
        return "the mask is updated by `%s`, not m & (m - 1)" % mir.expr_str(u)[:80], None
    if not once(ub):
        return "the lowest bit is not cleared exactly once on every way round the loop", None
    tz = [x for x in sorted(loop) if body.blocks[x].term["k"] == "call" and (body.blocks[x].term.get("callee") or "").endswith("::trailing_zeros")
          and mir.strip_copies(sym.operand(body.blocks[x].term["args"][0])) == v]
    if len(tz) != 1 or not once(tz[0]) or not body.dominates(tz[0], ub) or tz[0] == ub:
        return "the bit index is not read (trailing_zeros of the mask) exactly once before the bit is cleared", None
    return None, {"mask": m, "init": init, "index": ("call", body.blocks[tz[0]].term["callee"], (v,)), "pop_block": tz[0], "blocks": loop, "head": h, "once": once}


def returns_param(ix, key, allowed_fields):
    """If crate function `key` returns one of its by-value parameters on every return, having written (as a whole or in part)
    only the fields `allowed_fields` of it: that parameter's position (1-based); else None.  `f(mut m: Ply) -> Ply` that fills
    in one field and hands the record back is, for its caller, the record it was given with that field updated."""
    b = ix.bodies.get(key)
    if b is None:
        return None
    sym = mir.Sym(b, ix)
    rets = b.defs().get(0, [])
    if not rets:
        return None
    src = set()
    for (_db, _di, rv) in rets:
        if rv.get("k") in ("call", "partial"):
            return None
        v = mir.strip_copies(sym.rvalue(rv))
        if v[0] != "arg":
            return None
        src.add(v[1])
    if len(src) != 1:
        return None
    name = next(iter(src))
    pos = [l for l in range(1, b.arg_count + 1) if b.local_name(l) == name]
    if len(pos) != 1 or b.locals[pos[0]]["ty"].startswith("&"):
        return None
    l = pos[0]
    for bi, i, st in b.stmts():
        if st["lhs"]["l"] == l:
            path = [x.get("n") for x in st["lhs"]["p"] if isinstance(x, dict) and "n" in x]
            if not path or path[0] not in allowed_fields:
                return None
    for bi, t in b.calls():
        if t["dest"]["l"] == l:
            return None
    if l in b.mut_borrowed_locals():
        return None
    return l
