"""Bounds discharge in the difference-constraint fragment  x - y <= c  (DESIGN App. A 'bounds discharge').

Terms are (key, offset) with key None for constants.  Keys:
  ('var', local)     a multi-definition local (user variable such as `idx`); facts about it are only
                     used when no definition lies between the guard and the use
  ('tmp', local)     a single-definition local (a value computed once, e.g. the result of position())
  ('len', slice_key) the length of a slice / Vec identified by its canonical expression
  ('cap', i)         inside a closure: the value behind captured reference i (mapped to the parent)
"""
from . import mir
from .mir import callee_is, op_place, is_local, const_int

INF = float("inf")

LEN_CALLEES = ("core::slice::<impl [T]>::len", "std::vec::Vec::len", "alloc::vec::Vec::len", "core::str::<impl str>::len", "std::string::String::len")
EMPTY_CALLEES = ("core::slice::<impl [T]>::is_empty", "std::vec::Vec::is_empty", "core::str::<impl str>::is_empty", "std::string::String::is_empty")


class Resolver:
    def __init__(self, body, ix, capture_map=None):
        self.body = body
        self.ix = ix
        self.sym = mir.Sym(body, ix)
        self.capture_map = capture_map or {}
        self.extra_axioms = []

    # -- slices -----------------------------------------------------------------------------
    def slice_key(self, op_or_place):
        """Canonical identity of the indexed container (refs and derefs stripped)."""
        if "l" in op_or_place:
            e = self.sym.place(op_or_place)
        else:
            e = self.sym.operand(op_or_place)
        e = mir.strip_copies(e)
        # Vec -> slice deref calls
        while isinstance(e, tuple) and e[0] == "call" and isinstance(e[1], str) and (e[1].endswith("::deref") or e[1].endswith("::as_slice") or e[1].endswith("::as_str")) and len(e[2]) == 1:
            e = mir.strip_copies(e[2][0])
        e = self._map_capture_expr(e)
        if isinstance(e, tuple) and e[0] == "parent":
            return e[1]
        return mir.expr_str(e)

    def _map_capture_expr(self, e):
        # inside a closure the environment field k (possibly behind derefs) is the parent's captured place
        if not self.capture_map:
            return e
        x = e
        while isinstance(x, tuple) and x[0] == "deref":
            x = x[1]
        if isinstance(x, tuple) and x[0] == "field" and len(x) == 3:
            base = x[1]
            while isinstance(base, tuple) and base[0] == "deref":
                base = base[1]
            if base == ("arg", self.body.local_name(1)) and x[2] in self.capture_map:
                return ("parent", "P:" + self.capture_map[x[2]]["slice"])
        return e

    # -- linear terms -----------------------------------------------------------------------
    def lin(self, op, depth=0):
        """(key, offset) of an operand."""
        c = const_int(op)
        if c is not None:
            return (None, c)
        p = op_place(op)
        if p is None:
            return (("opaque", id(op)), 0)
        return self.lin_place(p, depth)

    def lin_place(self, p, depth=0):
        body = self.body
        if depth > 30:
            return (("opaque", id(p)), 0)
        l = p["l"]
        proj = p["p"]
        if not proj:
            if 1 <= l <= body.arg_count:
                return (("arg", l), 0)
            sd = body.single_def(l)
            if sd is None:
                return (("var", l), 0)
            rv = sd[2]
            return self.lin_rvalue(rv, l, depth + 1)
        # `.0` of a checked-arithmetic tuple
        if len(proj) == 1 and isinstance(proj[0], dict) and proj[0].get("n") == "0":
            sd = body.single_def(l)
            if sd and sd[2].get("k") == "binop" and sd[2]["op"].endswith("WithOverflow"):
                return self.lin_binop(sd[2], depth + 1)
        # component of a tuple (or struct) literal held in a single-definition local: that operand
        if len(proj) == 1 and isinstance(proj[0], dict) and "f" in proj[0]:
            sd = body.single_def(l)
            if sd and sd[2].get("k") == "agg" and sd[2].get("agg") in ("tuple", "adt") and proj[0]["f"] < len(sd[2]["ops"]):
                return self.lin(sd[2]["ops"][proj[0]["f"]], depth + 1)
        # deref of a single-def reference
        if proj[0] == "*" and len(proj) == 1:
            sd = body.single_def(l)
            if sd and sd[2].get("k") == "ref":
                return self.lin_place(sd[2]["p"], depth + 1)
            if sd and sd[2].get("k") == "use" and op_place(sd[2]["a"]) is not None:
                cap = self._capture_of_place(op_place(sd[2]["a"]), deref=True)
                if cap is not None:
                    return cap
        cap = self._capture_of_place(p)
        if cap is not None:
            return cap
        # payload of an Option/Result held in a local: identity = that local; remember where it came from
        if len(proj) == 2 and isinstance(proj[0], dict) and "d" in proj[0] and isinstance(proj[1], dict) and proj[1].get("n") == "0":
            key = ("payload", l)
            src = self.payload_origin(l)
            if src is not None:
                self.extra_axioms.append((key, src, -1))  # payload - len <= -1
            return (key, 0)
        return (("place", mir.pstr(p)), 0)

    def payload_origin(self, l, depth=0):
        """If local `l` holds (a pass-through of) slice.iter().position(..), return ('len', slice)."""
        body = self.body
        if depth > 8:
            return None
        sd = body.single_def(l)
        if sd is None:
            return None
        rv = sd[2]
        if rv.get("k") == "use":
            p = op_place(rv["a"])
            if p is not None and is_local(p):
                return self.payload_origin(p["l"], depth + 1)
            return None
        if rv.get("k") != "call":
            return None
        t = rv["t"]
        if callee_is(t, "*::position", "*::rposition"):
            recv = self.sym.operand(t["args"][0])
            for x in mir.walk(recv):
                if isinstance(x, tuple) and x[0] == "call" and isinstance(x[1], str) and x[1].endswith("::iter") and len(x[2]) == 1:
                    return ("len", mir.expr_str(self._map_capture_expr(mir.strip_copies(x[2][0]))))
            return None
        if callee_is(t, "*::branch", "*::ok_or", "*::ok_or_else", "*::map_err", "*::ok", "*::copied", "*::cloned"):
            p = op_place(t["args"][0])
            if p is not None and is_local(p):
                return self.payload_origin(p["l"], depth + 1)
        return None

    def _capture_of_place(self, p, deref=False):
        """Environment read `_1.k` (by-value capture) or `*(_1.k)` (by-reference capture) -> parent's term."""
        if not self.capture_map or p["l"] != 1:
            return None
        names = [e.get("n") for e in p["p"] if isinstance(e, dict) and "n" in e]
        derefs = [e for e in p["p"] if e == "*"]
        if len(names) != 1 or names[0] not in self.capture_map or len(p["p"]) != len(names) + len(derefs):
            return None
        info = self.capture_map[names[0]]
        if info["lin"] is None:
            return None
        # a by-reference capture must be dereferenced to reach the value; a by-value capture must not
        field_pos = [i for i, e in enumerate(p["p"]) if isinstance(e, dict) and "n" in e][0]
        derefs_after = len([e for e in p["p"][field_pos + 1:] if e == "*"]) + (1 if deref else 0)
        if info["by_ref"] != (derefs_after >= 1):
            return None
        k, off = info["lin"]
        return (("P", k) if k is not None else None, off)

    def lin_rvalue(self, rv, l, depth):
        k = rv.get("k")
        if k == "use":
            return self.lin(rv["a"], depth)
        if k == "binop":
            return self.lin_binop(rv, depth, l)
        if k == "unop" and rv["op"] == "PtrMetadata":
            return (("len", self.slice_key(rv["a"])), 0)
        if k == "cast" and rv.get("ck", "").startswith("IntToInt"):
            return self.lin(rv["a"], depth)
        if k == "call":
            t = rv["t"]
            if callee_is(t, *LEN_CALLEES):
                return (("len", self.slice_key(t["args"][0])), 0)
        return (("tmp", l), 0)

    def lin_binop(self, rv, depth, l=None):
        op = rv["op"]
        a = self.lin(rv["a"], depth)
        b = self.lin(rv["b"], depth)
        if op in ("Add", "AddWithOverflow", "AddUnchecked"):
            if b[0] is None:
                return (a[0], a[1] + b[1])
            if a[0] is None:
                return (b[0], a[1] + b[1])
        if op in ("Sub", "SubWithOverflow", "SubUnchecked"):
            if b[0] is None:
                return (a[0], a[1] - b[1])
        return (("tmp", l if l is not None else id(rv)), 0)

    # -- facts from a branch ----------------------------------------------------------------
    def cond_facts(self, bi):
        """For a switch block: ([facts on the false edge], [facts on the true edge]); a fact is
        (x_key, y_key, c) meaning x - y <= c."""
        body = self.body
        t = body.blocks[bi].term
        if t["k"] != "switch":
            return None
        p = op_place(t["discr"])
        if p is None or not is_local(p):
            return None
        neg = False
        rv = None
        l = p["l"]
        for _ in range(6):
            sd = body.single_def(l)
            if sd is None:
                return self._merged_flag_facts(bi, l, neg)
            rv = sd[2]
            if rv.get("k") == "use" and op_place(rv["a"]) and is_local(op_place(rv["a"])):
                l = op_place(rv["a"])["l"]
                continue
            if rv.get("k") == "unop" and rv["op"] == "Not" and op_place(rv["a"]) and is_local(op_place(rv["a"])):
                neg = not neg
                l = op_place(rv["a"])["l"]
                continue
            break
        f_facts, t_facts = [], []
        if rv.get("k") == "binop" and rv["op"] in ("Lt", "Le", "Gt", "Ge", "Eq", "Ne"):
            a = self.lin(rv["a"])
            b = self.lin(rv["b"])
            op = rv["op"]
            t_facts, f_facts = cmp_facts(op, a, b)
        elif rv.get("k") == "call" and callee_is(rv["t"], *EMPTY_CALLEES):
            ln = ("len", self.slice_key(rv["t"]["args"][0]))
            # is_empty true: len <= 0 ; false: len >= 1  <=>  0 - len <= -1
            t_facts = [(ln, None, 0)]
            f_facts = [(None, ln, -1)]
        else:
            return None
        if neg:
            f_facts, t_facts = t_facts, f_facts
        return f_facts, t_facts

    def _rv_facts(self, rv):
        """(false facts, true facts) of a comparison / emptiness rvalue, or None."""
        if rv.get("k") == "binop" and rv["op"] in ("Lt", "Le", "Gt", "Ge", "Eq", "Ne"):
            t_facts, f_facts = cmp_facts(rv["op"], self.lin(rv["a"]), self.lin(rv["b"]))
            return f_facts, t_facts
        if rv.get("k") == "call" and callee_is(rv["t"], *EMPTY_CALLEES):
            ln = ("len", self.slice_key(rv["t"]["args"][0]))
            return [(None, ln, -1)], [(ln, None, 0)]
        return None

    def _merged_flag_facts(self, bi, l, neg, depth=0):
        """`let ok = a && b;` (a flag that is a constant in every arm but one, not assigned in a loop, not borrowed
        mutably): on the edge where the flag has the other truth value, the computed arm was taken - what guards that arm
        holds, and the computed value has that truth value."""
        body = self.body
        if depth > 3 or 1 <= l <= body.arg_count or l in body.mut_borrowed_locals():
            return None
        defs = body.defs().get(l, [])
        consts = [d for d in defs if d[2].get("k") == "use" and const_int(d[2]["a"]) in (0, 1)]
        comp = [d for d in defs if d not in consts]
        if len(defs) < 2 or len(comp) != 1 or len({const_int(d[2]["a"]) for d in consts}) != 1 or any(body.in_loop(d[0]) for d in defs) or comp[0][2].get("k") == "partial":
            return None
        cv = bool(const_int(consts[0][2]["a"]))
        db, _di, rv = comp[0]
        # the computed value may itself be a copy of another such flag
        own = self._rv_facts(rv)
        inherited, _g = collect_facts(self, db)
        # facts inherited from the guards of the computed arm must still hold at the switch: none of their variables is
        # redefined between the arm and the switch
        on_path = {x for x in body.reachable_from(db, include_start=True) if x >= 0 and (x == bi or bi in body.reachable_from(x))}
        alldefs = body.defs()
        kept = []
        for fct in inherited:
            vs = var_locals(fct[0]) | var_locals(fct[1])
            if not any(d[0] in on_path and d[0] != db for v in vs for d in alldefs.get(v, [])):
                kept.append(fct)
        side = list(kept) + (list(own[0] if cv else own[1]) if own is not None else [])
        # flag == !cv: `side` holds; flag == cv: nothing is known
        f_facts, t_facts = ([], side) if not cv else (side, [])
        if neg:
            f_facts, t_facts = t_facts, f_facts
        return f_facts, t_facts

    def axioms(self, keys):
        """Facts that hold by construction: len >= 0; a position() result is < len of its slice."""
        out = []
        body = self.body
        for k in keys:
            if k is None:
                continue
            if k[0] == "len":
                out.append((None, k, 0))
            if k[0] in ("tmp", "var", "arg", "P", "place", "payload"):
                out.append((None, k, 0))  # usize >= 0
        return out


def cmp_facts(op, a, b):
    """facts (x,y,c): x - y <= c for `a op b` being true / false.  a,b are (key, offset)."""
    ka, ca = a
    kb, cb = b

    def le(x, y, extra=0):
        # x <= y + extra  with x=(kx,cx), y=(ky,cy):  kx - ky <= cy - cx + extra
        return (x[0], y[0], y[1] - x[1] + extra)
    if op == "Lt":
        return [le(a, b, -1)], [le(b, a, 0)]
    if op == "Le":
        return [le(a, b, 0)], [le(b, a, -1)]
    if op == "Gt":
        return [le(b, a, -1)], [le(a, b, 0)]
    if op == "Ge":
        return [le(b, a, 0)], [le(a, b, -1)]
    if op == "Eq":
        return [le(a, b, 0), le(b, a, 0)], []
    if op == "Ne":
        return [], [le(a, b, 0), le(b, a, 0)]
    return [], []


def entails(facts, goal):
    """Does the conjunction of difference constraints entail goal (x - y <= c)?  Floyd-Warshall."""
    gx, gy, gc = goal
    nodes = set()
    for (x, y, c) in facts + [goal]:
        nodes.add(x)
        nodes.add(y)
    nodes = list(nodes)
    idx = {n: i for i, n in enumerate(nodes)}
    n = len(nodes)
    d = [[INF] * n for _ in range(n)]
    for i in range(n):
        d[i][i] = 0
    for (x, y, c) in facts:
        # x - y <= c : edge y -> x weight c
        i, j = idx[y], idx[x]
        if c < d[i][j]:
            d[i][j] = c
    for k in range(n):
        for i in range(n):
            if d[i][k] == INF:
                continue
            for j in range(n):
                if d[i][k] + d[k][j] < d[i][j]:
                    d[i][j] = d[i][k] + d[k][j]
    if gx == gy:
        return gc >= 0
    return d[idx[gy]][idx[gx]] <= gc


def keys_of(facts):
    out = set()
    for (x, y, c) in facts:
        out.add(x)
        out.add(y)
    return out


def var_locals(key):
    if key is not None and key[0] == "var":
        return {key[1]}
    return set()


def collect_facts(res, use_block, stop_at_entry=True):
    """Facts that hold on entry to `use_block`: for every dominating switch whose taken edge is
    determined (only one side reaches the use), the facts of that side -- provided no variable the
    fact mentions is redefined on a path from the guard to the use that does not re-pass the guard."""
    body = res.body
    facts = []
    used_guards = []
    doms = body.dom().get(use_block) or set()
    defs = body.defs()
    for g in sorted(doms):
        if g == use_block or g < 0:
            continue
        cf = res.cond_facts(g)
        if cf is None:
            continue
        f_facts, t_facts = cf
        fe, te = _edges(body.blocks[g].term)
        reach_f = any(use_block in body.reachable_from(x, removed={g}, include_start=True) for x in fe)
        reach_t = any(use_block in body.reachable_from(x, removed={g}, include_start=True) for x in te)
        if reach_f == reach_t:
            continue
        side = t_facts if reach_t else f_facts
        starts = te if reach_t else fe
        region = set()
        for x in starts:
            region |= body.reachable_from(x, removed={g}, include_start=True)
        # blocks on a path guard-edge -> use (without re-passing the guard)
        on_path = {x for x in region if x >= 0 and (x == use_block or use_block in body.reachable_from(x, removed={g}))}
        for fct in side:
            vs = var_locals(fct[0]) | var_locals(fct[1])
            killed = False
            for v in vs:
                for (db, di, _rv) in defs.get(v, []):
                    if db in on_path and db != use_block:
                        killed = True
                    if db == use_block:
                        killed = True  # conservatively: a definition in the same block as the use
            if not killed:
                facts.append(fct)
                used_guards.append(g)
    return facts, sorted(set(used_guards))


def _edges(t):
    f = [a[1] for a in t["arms"] if a[0] == 0]
    tr = [a[1] for a in t["arms"] if a[0] != 0]
    if f:
        tr = tr + [t["otherwise"]]
    else:
        f = [t["otherwise"]]
    return f, tr


def same_block_def_before(body, local, block, before_stmt=None):
    """Is `local` assigned in `block` (used to refine the conservative same-block kill)."""
    for (db, di, _rv) in body.defs().get(local, []):
        if db == block:
            return True
    return False
