"""C01  Legal move generation and check status are exactly the rules of chess  (DESIGN 3, C01).

FIDE-exactness of the generated set for all positions is value-level and is NOT decided.  Decided are the
structural clauses: the legality filter, the castling preconditions and masks, the colour / piece indexed tables."""
import os
import sys

from . import engine, mir, tables, c01tables
from . import common as C
from . import c04
from .c06 import ceval
from .mir import expr_str, walk, callee_is, const_int, op_place, strip_generics, fields_of

sys.path.insert(0, os.path.dirname(os.path.dirname(os.path.abspath(__file__))))
from oracles import geometry as G  # noqa: E402

PROP = "C01"
B_ = "board::Board::"
LEGAL = B_ + "is_legal_move"
KING_MS = "<board::piece::king::King as board::piece::Piece>::get_moveset"
PAWN_MS = "<board::piece::pawn::Pawn as board::piece::Piece>::get_moveset"


def rule_filter(ctx):
    """get_legal_moves = get_all_moves() retained by is_legal_move(mv).is_ok()."""
    ix = ctx.ix
    b = ctx.body(B_ + "get_legal_moves")
    sym = ctx.sym(b)
    calls = [strip_generics(t.get("callee") or "") for _b, t in b.calls()]
    ok = calls.count(B_ + "get_all_moves") == 1 and any(c.endswith("Vec::retain") for c in calls) and not any(c.endswith(("::push", "::extend", "::insert", "::append", "::truncate", "::dedup", "::pop", "::remove")) for c in calls)
    r = sym.local(0)
    ctx.check(ok, "get_legal_moves:retain-only", "the result is get_all_moves() with elements only removed (retain), nothing added", b.where(0), bad_what="get_legal_moves calls %s" % [C.short(c) for c in calls])
    pred_ok = False
    for cb in ix.closures_of(B_ + "get_legal_moves"):
        csym = mir.Sym(cb, ix)
        v = csym.local(0)
        ctx.functions.add(cb.key)
        if v[0] == "call" and v[1] == "std::result::Result::is_ok":
            inner = mir.strip_copies(v[2][0])
            pred_ok = inner[0] == "call" and inner[1] == LEGAL and mir.strip_copies(inner[2][1])[0] == "arg"
    ctx.check(pred_ok, "get_legal_moves:predicate", "the retain predicate is is_legal_move(*mv).is_ok()", b.where(0), bad_what="the retain predicate is not `is_legal_move(*mv).is_ok()`")


def rule_probe(ctx):
    """is_legal_move: Err exactly when the MOVER's king is attacked after the move, tested between make and unmake."""
    ix = ctx.ix
    b = ctx.body(LEGAL)
    sym = ctx.sym(b)
    checks = [(bi, t) for bi, t in b.calls() if callee_is(t, B_ + "is_in_check")]
    makes = [bi for bi, t in b.calls() if callee_is(t, B_ + "make_move")]
    unmakes = [bi for bi, t in b.calls() if callee_is(t, B_ + "unmake_move")]
    ctx.check(len(checks) == 1 and len(makes) == 1, "is_legal_move:one-check", "one is_in_check after one make_move", b.where(0), bad_what="%d is_in_check / %d make_move" % (len(checks), len(makes)))
    if len(checks) != 1 or len(makes) != 1:
        return
    cb, ct = checks[0]
    col = sym.operand(ct["args"][1])
    after_make = b.dominates(makes[0], cb) and not any(u in b.dom()[cb] for u in unmakes)
    txt = expr_str(col)
    # accepted forms of "the mover's colour"
    form = None
    if col[0] == "call" and col[1].endswith("Kind::get_color") and mir.strip_copies(col[2][0])[-1] == "piece" and mir.strip_copies(col[2][0])[1] == ("arg", "ply"):
        form = "ply.piece.get_color()"
    elif col[0] == "call" and col[1].endswith("Color::opposite") and "current_turn" in txt and after_make:
        form = "current_turn.opposite() read after make_move"
    elif "current_turn" in txt and col[0] == "field":
        # read before make_move = mover; read after = opponent (rejected)
        rd = [bi for bi, i, s in b.stmts() if "current_turn" in fields_of(s["rv"].get("a", {}).get("copy", {"p": []})) ] if False else []
        p = op_place(ct["args"][1])
        sd = b.single_def(p["l"]) if p is not None and mir.is_local(p) else None
        if sd and not b.dominates(makes[0], sd[0]) or (sd and sd[0] == makes[0] and False):
            form = "current_turn read before make_move"
        else:
            form = None
    ctx.check(form is not None and after_make, "is_legal_move:checks-movers-king", "after make_move the test is is_in_check(%s) (the side that just moved)" % form, b.where(cb),
              bad_what="is_legal_move tests is_in_check(%s)%s: after make_move the side to move has flipped, so the mover's colour must be ply.piece.get_color() / current_turn.opposite(); testing the wrong side lets moves through that leave the own king in check" % (txt, "" if after_make else " not between make and unmake"))
    # Err iff in check
    errs = {bi for bi, i, s in b.stmts() if mir.is_local(s["lhs"]) and s["lhs"]["l"] == 0 and s["rv"].get("variant") == "Err"}
    oks = {bi for bi, i, s in b.stmts() if mir.is_local(s["lhs"]) and s["lhs"]["l"] == 0 and s["rv"].get("variant") == "Ok"}
    good = bool(errs) and bool(oks)
    for eb in errs:
        cons = C.constraints_for(ix, b, sym, eb)
        good = good and any(c[3][0] == "call" and c[3][1] == B_ + "is_in_check" and True in c[1] for c in cons) and len(cons) == 1
    for ob in oks:
        cons = C.constraints_for(ix, b, sym, ob)
        good = good and any(c[3][0] == "call" and c[3][1] == B_ + "is_in_check" and False in c[1] for c in cons) and len(cons) == 1
    ctx.check(good, "is_legal_move:err-iff-in-check", "Err exactly when that test is true, Ok(ply) otherwise", b.where(cb), bad_what="the Err / Ok returns are not decided by the check test alone")


def _is_empty_board(x):
    """Bitboard::new(0), or a constant of type Bitboard whose value is 0 (a named `EMPTY`)."""
    if not isinstance(x, tuple):
        return False
    if x[0] == "call" and x[1] == "board::bitboard::Bitboard::new" and x[2] == (("const", 0, "u64"),):
        return True
    return x[0] == "const" and x[1] == 0 and isinstance(x[2], str) and x[2].endswith("bitboard::Bitboard")


def rule_check_mirror(ctx):
    ix = ctx.ix
    b = ctx.body(B_ + "is_in_check")
    sym = ctx.sym(b)
    king = {}
    for bi, i, s in b.stmts():
        for o in mir.rv_operands(s["rv"]):
            p = op_place(o)
            if p is not None and fields_of(p)[-1:] in (("white_king",), ("black_king",)):
                for c in C.constraints_for(ix, b, sym, bi):
                    for v in c[1]:
                        king[v] = fields_of(p)[-1]
    ctx.check(king == {"White": "white_king", "Black": "black_king"}, "is_in_check:king-of-colour", "is_in_check(c) looks at c's king", b.where(0), bad_what="is_in_check king table: %s" % king)
    r = sym.local(0)
    att = [x for x in walk(r) if isinstance(x, tuple) and x[0] == "call" and x[1] == B_ + "get_attacked_squares"]
    ctx.check(len(att) == 1 and att[0][2][1] == ("arg", "color") and "is_empty" in expr_str(r) and "Not" in expr_str(r), "is_in_check:king-and-attacks", "is_in_check(c) = king(c) & get_attacked_squares(c) is non-empty", b.where(0), bad_what="is_in_check returns `%s`" % expr_str(r)[:140])
    g = ctx.body(B_ + "get_attacked_squares")
    gsym = ctx.sym(g)
    atk = {}
    for bi, i, s in g.stmts():
        for o in mir.rv_operands(s["rv"]):
            p = op_place(o)
            if p is not None and fields_of(p)[-1:] in (("white_pieces",), ("black_pieces",)):
                for c in C.constraints_for(ix, g, gsym, bi):
                    for v in c[1]:
                        atk[v] = fields_of(p)[-1]
    ctx.check(atk == {"White": "black_pieces", "Black": "white_pieces"}, "get_attacked_squares:attackers-are-the-other-side", "squares attacked from c's perspective are those attacked by the other side's pieces", g.where(0), bad_what="attacker table: %s" % atk)
    # every attacking piece contributes piece.get_attacks(square of that piece)
    ga = [(bi, t) for bi, t in g.calls() if callee_is(t, "board::piece::Kind::get_attacks")]
    ok = len(ga) == 1 and g.in_loop(ga[0][0])
    # the loop may also run over the set bits of the attackers' board (`for square in attackers`): then the square is the popped
    # bit and membership needs no test
    pl = None
    if ok and not [1 for _b, t in g.calls() if "Range" in (t.get("callee") or "") and (t.get("callee") or "").endswith("::next")]:
        pl_why, pl = C.pop_loop(g, gsym, ga[0][0])
    if ok and pl is not None:
        pe = gsym.operand(ga[0][1]["args"][0])
        sq = mir.strip_copies(gsym.operand(ga[0][1]["args"][1]))
        idx = sq
        while idx[0] == "cast" or (idx[0] == "call" and idx[1].endswith("Square as std::convert::From<u8>>::from") and len(idx[2]) == 1):
            idx = mir.strip_copies(idx[1] if idx[0] == "cast" else idx[2][0])
        ok = idx[0] == "call" and idx[1] == pl["index"][1] and any(isinstance(x, tuple) and x[0] == "call" and x[1] == B_ + "get_piece" and len(x[2]) == 2 and mir.strip_copies(x[2][1]) == sq for x in walk(pe))
    elif ok:
        pe = gsym.operand(ga[0][1]["args"][0])
        sq = gsym.operand(ga[0][1]["args"][1])
        ok = "get_piece" in expr_str(pe) and expr_str(sq).count("next") >= 1 and expr_str(pe).count("next") >= 1
    ctx.check(ok, "get_attacked_squares:union-of-piece-attacks", "attacks |= piece.get_attacks(square, self) for the piece found on each attacker square", g.where(0), bad_what="get_attacked_squares does not OR the attacks of the piece on each attacker square")
    if len(ga) == 1:
        # ... for exactly the squares whose bit is set in the attackers' board, and for nothing else
        attackers = {g.local_name(s["lhs"]["l"]) for bi, i, s in g.stmts() if mir.is_local(s["lhs"]) and
                     any(op_place(o) is not None and fields_of(op_place(o))[-1:] in (("white_pieces",), ("black_pieces",)) for o in mir.rv_operands(s["rv"]))}
        cons = C.constraints_for(ix, g, gsym, ga[0][0])
        member, other = [], []
        for c in cons:
            e = c[3]
            if e[0] == "discr" and "::next" in expr_str(e) and c[1] == frozenset(["Some"]):
                continue    # the loop itself
            ands = [x for x in walk(e) if isinstance(x, tuple) and x[0] == "call" and "BitAnd" in x[1] and len(x[2]) == 2]
            zero = [x for x in walk(e) if _is_empty_board(x)]
            is_eq = e[0] == "call" and ("PartialEq>::eq" in e[1] or "PartialEq::eq" in e[1])
            is_ne = e[0] == "call" and ("PartialEq>::ne" in e[1] or "PartialEq::ne" in e[1])
            good = False
            if len(ands) == 1 and e[0] == "call" and e[1].endswith("Bitboard::is_empty") and len(e[2]) == 1 and mir.strip_copies(e[2][0]) == ands[0]:
                # `(attackers & (1 << square)).is_empty()` false
                a0, a1 = mir.strip_copies(mir.strip_refs(ands[0][2][0])), mir.strip_copies(mir.strip_refs(ands[0][2][1]))
                bit = a1[0] == "bin" and a1[1].startswith("Shl") and a1[2][:2] == ("const", 1) and "::next" in expr_str(a1[3])
                good = a0[0] == "var" and a0[1] in attackers and bit and c[1] == frozenset([False])
            elif len(ands) == 1 and zero and (is_eq or is_ne):
                a0, a1 = mir.strip_copies(mir.strip_refs(ands[0][2][0])), mir.strip_copies(mir.strip_refs(ands[0][2][1]))
                bit = a1[0] == "bin" and a1[1].startswith("Shl") and a1[2][:2] == ("const", 1) and "::next" in expr_str(a1[3])
                good = a0[0] == "var" and a0[1] in attackers and bit and c[1] == frozenset([is_ne])
            (member if good else other).append(c)
        if pl is not None:
            init = mir.strip_copies(pl["init"])
            if init[0] == "field" and init[-1] == "0" and len(init) == 3:
                init = mir.strip_copies(init[1])
            masktxt = expr_str(gsym.operand(g.blocks[pl["head"]].term["discr"]))
            other = [c for c in member + other if c[2] != pl["head"]]
            member = [("the loop runs over the set bits of the attackers' board", frozenset(["by iteration"]), pl["head"], ())] if init[0] == "var" and init[1] in attackers and pl["once"](ga[0][0]) else []
        ctx.check(len(member) == 1 and not other, "get_attacked_squares:every-attacker-and-only-attackers", "a square contributes iff its bit is set in the attackers' board (nothing else decides)", g.where(ga[0][0]),
                  bad_what="the contribution of a square is decided by %s: not exactly `attackers & (1 << square) != 0`" % ([c[0][:80] + " in " + str(sorted(map(str, c[1]))) for c in member + other] or "nothing"))
        # the contributions are OR-ed into what is returned, which starts empty
        r = gsym.local(0)
        acc_name = r[1] if r[0] == "var" else None
        ors = []
        for bi, t in g.calls():
            cn = strip_generics(t.get("callee") or "")
            if "BitOrAssign" in cn and len(t["args"]) == 2:
                tgt = mir.strip_refs(gsym.operand(t["args"][0]))
                val = gsym.operand(t["args"][1])
                ors.append((tgt, val))
            elif "BitOr" in cn and len(t["args"]) == 2 and mir.is_local(t["dest"]) and g.local_name(t["dest"]["l"]) == acc_name:
                ors.append((mir.strip_copies(gsym.operand(t["args"][0])), gsym.operand(t["args"][1])))
        ok_or = acc_name is not None and len(ors) == 1 and ors[0][0] == ("var", acc_name) and any(isinstance(x, tuple) and x[0] == "call" and x[1] == "board::piece::Kind::get_attacks" for x in walk(ors[0][1]))
        inits = [gsym.rvalue(rv) if rv.get("k") != "call" else ("call", strip_generics(mir.callee_name(rv["t"])), tuple(gsym.operand(a) for a in rv["t"]["args"]))
                 for l in range(len(g.locals)) if g.local_name(l) == acc_name for (db, di, rv) in g.defs().get(l, []) if not g.in_loop(db)]
        ok_init = len(inits) == 1 and _is_empty_board(inits[0])
        ctx.check(ok_or and ok_init, "get_attacked_squares:accumulates-from-empty", "the result starts as the empty board and each contribution is OR-ed into it", g.where(0),
                  bad_what="the returned board is not `empty | contribution | ..` (accumulator %s, OR sites %d, initial value %s)" % (acc_name, len(ors), [expr_str(x)[:40] for x in inits]))


def rule_castle_pre(ctx):
    """castling_ability is Available only when rights, empty path and unattacked path all hold for the same kind; wrong-turn table."""
    ix = ctx.ix
    b = ctx.body(B_ + "castling_ability")
    sym = ctx.sym(b)
    avail = [bi for bi, i, s in b.stmts() if s["rv"].get("k") == "agg" and s["rv"].get("variant") == "Available" and s["rv"].get("adt", "").endswith("CastlingStatus")]
    ctx.check(len(avail) == 1, "castling_ability:one-available", "one place yields Available", b.where(0), bad_what="%d places yield Available" % len(avail))
    if len(avail) == 1:
        cons = C.constraints_for(ix, b, sym, avail[0])
        rights = any(c[3][0] == "call" and "eq" in c[3][1] and any(isinstance(x, tuple) and x[0] == "call" and x[1] == B_ + "castle_status" and x[2][1] == ("arg", "kind") for x in walk(c[3])) and c04.status_of(c[3]) == "Available" and True in c[1] for c in cons)
        # `x == Available` through the derived equality is also recorded as discr(x) in {Available}
        rights = rights or any(c[3][0] == "discr" and c[1] == frozenset(["Available"]) and mir.strip_copies(c[3][1])[0] == "call" and mir.strip_copies(c[3][1])[1] == B_ + "castle_status"
                               and mir.strip_copies(c[3][1])[2][1] == ("arg", "kind") for c in cons)
        both = None
        for c in cons:
            # `r.is_ok()` or `match r { Ok(()) => .. }`
            if c[3][0] == "call" and c[3][1] == "std::result::Result::is_ok" and True in c[1]:
                tested = c[3][2][0]
            elif c[3][0] == "discr" and c[1] == frozenset(["Ok"]):
                tested = c[3][1]
            else:
                tested = None
            if tested is not None:
                inner = mir.strip_copies(mir.strip_refs(tested))
                if inner[0] == "call" and inner[1] == "std::result::Result::and":
                    parts = [mir.strip_copies(x) for x in inner[2]]
                    names = sorted(p[1] for p in parts if p[0] == "call")
                    same_kind = all(p[2][1] == ("arg", "kind") for p in parts if p[0] == "call")
                    both = names == [B_ + "no_checks_castling", B_ + "no_pieces_between_castling"] and same_kind
                elif inner[0] == "call" and inner[1] == "std::result::Result::and_then" and len(inner[2]) == 2:
                    # first.and_then(|()| second(kind)): the second test in a closure that captured `kind`
                    first, clo = mir.strip_copies(inner[2][0]), inner[2][1]
                    names = [first[1]] if first[0] == "call" else []
                    same_kind = first[0] == "call" and first[2][1] == ("arg", "kind")
                    if clo[0] == "closure" and clo[1] in ix.bodies:
                        cb = ix.bodies[clo[1]]
                        r = mir.strip_copies(mir.Sym(cb, ix).local(0))
                        caps = [mir.strip_copies(x) for x in clo[2]]
                        if r[0] == "call" and len(r[2]) == 2 and len(cb.blocks) <= 3 and ("arg", "kind") in caps:
                            # the closure passes on the captured `kind` (capture number i is field i of its environment)
                            a = mir.strip_refs(r[2][1])
                            if a[0] == "field" and a[1] == ("arg", "_1") and a[2:] == (str(caps.index(("arg", "kind"))),):
                                names.append(r[1])
                                ctx.functions.add(clo[1])
                    both = sorted(names) == [B_ + "no_checks_castling", B_ + "no_pieces_between_castling"] and same_kind
        if not both:
            # the two path tests as separate conjuncts: `a(kind).is_ok() && b(kind).is_ok()`, `if let Ok(()) = a(kind)`,
            # or a combinator expanded into those
            okd = set()
            for c in cons:
                e = c[3]
                inner = None
                if e[0] == "call" and e[1] == "std::result::Result::is_ok" and c[1] == frozenset([True]):
                    inner = mir.strip_copies(mir.strip_refs(e[2][0]))
                elif e[0] == "discr" and c[1] == frozenset(["Ok"]):
                    inner = mir.strip_copies(mir.strip_refs(e[1]))
                if inner is not None and inner[0] == "call" and len(inner[2]) == 2 and inner[2][1] == ("arg", "kind"):
                    okd.add(inner[1])
            if {B_ + "no_checks_castling", B_ + "no_pieces_between_castling"} <= okd:
                both = True
        ctx.check(rights and both, "castling_ability:three-conjuncts", "Available requires castle_status(kind) == Available && no_pieces_between(kind).and(no_checks(kind)).is_ok()", b.where(avail[0]),
                  bad_what="the Available result is not guarded by all of: the right, the empty path and the unattacked path for the same kind (rights: %s, both path tests: %s)" % (rights, both))
    # which (kind, side to move) pairs are refused before anything else is looked at: per-case constant propagation
    from . import cases
    table = set()
    undecided = []
    for k in c04.KIND_FIELD:
        for tn in ("White", "Black"):
            c = cases.run(ix, b, {"kind": cases.enum_val(ix, "board::ply::castling::CastlingKind", k),
                                  "*self.current_turn": cases.enum_val(ix, "board::piece::Color", tn)})
            if c.overflow or not c.paths:
                undecided.append((k, tn))
                continue
            refused = [p for p in c.paths if p.end == "return" and p.ret[0] == "agg" and p.ret[2] == "Err" and not p.calls("castle_status", "no_pieces_between_castling", "no_checks_castling")]
            if len(refused) == len(c.paths):
                table.add((k, tn))
            elif refused:
                undecided.append((k, tn))
    ctx.check(not undecided, "castling_ability:wrong-turn-decided", "the refusal depends on (kind, side to move) only", b.where(0), bad_what="for %s the wrong-turn refusal depends on something else (cannot decide)" % undecided)
    want = {("WhiteKingside", "Black"), ("WhiteQueenside", "Black"), ("BlackKingside", "White"), ("BlackQueenside", "White")}
    ctx.check(table == want, "castling_ability:wrong-turn-table", "castling for a side is refused exactly when it is the other side's turn", b.where(0), bad_what="wrong-turn table is %s" % sorted(table))


def mask_table(ix, key):
    """{CastlingKind: mask constant} for no_pieces_between_castling / no_checks_castling, and what the mask is applied to."""
    b = ix.body(key)
    sym = mir.Sym(b, ix)
    out = {}
    src = set()
    for bi, t in b.calls():
        if callee_is(t, "*BitAnd<u64>>::bitand", "*ops::BitAnd>::bitand"):
            # the mask is a constant in the arm of `match kind`, or a variable looked up by `match kind` beforehand
            for vb, mv in C.operand_cases(b, sym, bi, t["args"][1]):
                m = ceval(mv)
                cons = C.constraints_for(ix, b, sym, vb)
                kinds = [next(iter(c[1])) for c in cons if len(c[1]) == 1 and next(iter(c[1])) in c04.KIND_FIELD]
                if kinds and m is not None:
                    out[kinds[-1]] = m
                    src.add(expr_str(mir.strip_copies(sym.operand(t["args"][0])))[:80])
    return out, src, b


def rule_castle_masks(ctx):
    ix = ctx.ix
    for key, oracle, what in ((B_ + "no_pieces_between_castling", G.CASTLE_BETWEEN, "squares between king and rook (must be empty)"),
                              (B_ + "no_checks_castling", G.CASTLE_SAFE, "king's start, transit and destination squares (must not be attacked)")):
        t, src, b = mask_table(ix, key)
        ctx.functions.add(key)
        for k in sorted(oracle):
            ctx.check(t.get(k) == oracle[k], "%s:%s" % (key.split("::")[-1], k), "%s: %s = 0x%016x" % (k, what, oracle[k]), b.where(0),
                      bad_what="%s for %s uses mask %s, FIDE requires 0x%016x (%s)" % (C.short(key), k, hex(t[k]) if k in t else None, oracle[k], what))
        for side in ("Kingside", "Queenside"):
            w, bl = t.get("White" + side), t.get("Black" + side)
            ctx.check(w is not None and bl == (w << 56) & ((1 << 64) - 1), "%s:%s:black-is-white<<56" % (key.split("::")[-1], side), "Black's %s mask is White's shifted to rank 8" % side.lower(), b.where(0),
                      bad_what="Black's %s mask %s is not White's %s shifted by 56" % (side, hex(bl) if bl else None, hex(w) if w else None))
    t, src, b = mask_table(ix, B_ + "no_pieces_between_castling")
    ctx.check(all("all_pieces" in s for s in src) and src, "no_pieces_between:on-all_pieces", "the emptiness test uses bitboards.all_pieces", b.where(0), bad_what="emptiness is tested on %s" % sorted(src))
    t, src, b = mask_table(ix, B_ + "no_checks_castling")
    sym = mir.Sym(b, ix)
    att = [sym.operand(tt["args"][1]) for _b, tt in b.calls() if callee_is(tt, B_ + "get_attacked_squares")]
    ctx.check(len(att) == 1 and "current_turn" in expr_str(att[0]) and all("get_attacked_squares" in s for s in src), "no_checks:attacked-from-movers-perspective", "the attack test uses get_attacked_squares(current_turn)", b.where(0), bad_what="the attack test uses %s / %s" % ([expr_str(a) for a in att], sorted(src)))


def castle_moves_by_cases(ix, b):
    """{kind: (from, colour, to, flag)} of the castling moves King::get_moveset builds, by per-case propagation with the king's
    colour and square fixed; None when a case cannot be walked or a castling move is built for a king that is not at home."""
    from . import cases
    sqp = [b.local_name(l) for l in range(1, b.arg_count + 1) if b.locals[l]["ty"].lstrip("&") == "board::square::Square"]
    cop = [b.local_name(l) for l in range(1, b.arg_count + 1) if b.locals[l]["ty"].lstrip("&") == "board::piece::Color"]
    if len(sqp) != 1 or len(cop) != 1:
        return None
    names = {(0, 4): "e1", (7, 4): "e8"}
    rows = {}

    def sq_name(e):
        e = mir.strip_copies(e)
        if e[0] == "agg" and str(e[1]).endswith("square::Square") and len(e[3]) == 2 and all(x[0] == "const" for x in e[3]):
            f = dict(zip(e[4] if len(e) > 4 and e[4] else ("rank", "file"), [x[1] for x in e[3]]))
            return "%s%d" % ("abcdefgh"[f["file"]], f["rank"] + 1) if 0 <= f.get("file", 9) < 8 and 0 <= f.get("rank", 9) < 8 else None
        if e[0] == "call" and e[1].endswith("From<&str>>::from") and e[2] and e[2][0][0] == "const":
            return e[2][0][1]
        return None
    for col in ("White", "Black"):
        for pos in ((0, 4), (7, 4), (0, 3)):
            sqv = ("agg", "board::square::Square", "Square", (("const", pos[0], "u8"), ("const", pos[1], "u8")), ("rank", "file"))
            run = cases.run(ix, b, {sqp[0]: sqv, cop[0]: cases.enum_val(ix, "board::piece::Color", col)})
            if run.overflow:
                return None
            for p in run.paths:
                kind = None
                pending = None
                # the wings whose right this path has found Available
                avail = set()
                for cnd in p.conds:
                    d, t = cases.cond_truth(cnd)
                    ck = [y for y in walk(d) if isinstance(y, tuple) and y[0] == "call" and y[1] == B_ + "castling_ability" and len(y[2]) > 1]
                    if len(ck) != 1:
                        continue
                    k = mir.strip_copies(ck[0][2][1])
                    k = k[2] if k[0] == "agg" else None
                    if d[0] == "call" and d[1].endswith("CastlingStatus as std::cmp::PartialEq>::eq") and t is True and c04.status_of(d) == "Available":
                        avail.add(k)
                    elif d[0] == "call" and d[1].endswith("CastlingStatus as std::cmp::PartialEq>::ne") and t is False and c04.status_of(d) == "Available":
                        avail.add(k)
                    elif d[0] == "discr" and isinstance(cnd[1], int):
                        a = ix.adts.get("board::ply::castling::CastlingStatus")
                        if a is not None and cnd[1] < len(a["variants"]) and a["variants"][cnd[1]]["name"] == "Available":
                            avail.add(k)
                for e in p.events:
                    if e[0] != "call":
                        continue
                    if e[2] == B_ + "castling_ability":
                        k = mir.strip_copies(e[3][1]) if len(e[3]) > 1 else None
                        kind = k[2] if k is not None and k[0] == "agg" and str(k[1]).endswith("CastlingKind") else "?"
                        pending = None
                    elif e[2] == "board::ply::Ply::builder" and kind is not None and len(e[3]) == 3:
                        pc = mir.strip_copies(e[3][2])
                        pending = (sq_name(e[3][0]), pc[3][0][2] if pc[0] == "agg" and pc[2] == "King" and pc[3] and pc[3][0][0] == "agg" else None, sq_name(e[3][1]))
                    elif e[2].endswith("Builder::castles") and pending is not None and kind is not None:
                        flag = len(e[3]) > 1 and e[3][1] == ("const", 1, "bool")
                        home = names.get(pos)
                        if home is None or pending[0] != home or kind not in avail:
                            return None     # a castling move for a king that is not on its home square, or without the right
                        if kind in rows and rows[kind] != pending + (flag,):
                            return None
                        rows[kind] = pending + (flag,)
                        pending = None
    return rows


GENERATORS = {"Knight": ("knight", 1), "King": ("king", 1), "Rook": ("rook", 2), "Bishop": ("bishop", 2), "Queen": ("queen", 2)}


def _own_field(e):
    """`!board.bitboards.<side>_pieces` -> '<side>_pieces'."""
    e = mir.strip_copies(e)
    if e[0] == "call" and e[1].endswith("std::ops::Not>::not") and len(e[2]) == 1:
        e = mir.strip_copies(e[2][0])
    elif e[0] == "un" and e[1] == "Not":
        e = mir.strip_copies(e[2])
    else:
        return None
    return e[-1] if e[0] == "field" and e[-1] in ("white_pieces", "black_pieces") and "bitboards" in e else None


def rule_generators(ctx):
    """Knight, bishop, rook, queen and king (castling aside): the pseudo-legal moves are exactly
    { Ply::new(square, s, Kind::P(color)) : s a set bit of P::get_attacks(square[, all pieces]) & !own pieces }."""
    from . import cases
    ix = ctx.ix
    for P, (mod, nargs) in sorted(GENERATORS.items()):
        key = "<board::piece::%s::%s as board::piece::Piece>::get_moveset" % (mod, P)
        b = ctx.body(key)
        sym = ctx.sym(b)
        sqp = [b.local_name(l) for l in range(1, b.arg_count + 1) if b.locals[l]["ty"].lstrip("&") == "board::square::Square"]
        cop = [b.local_name(l) for l in range(1, b.arg_count + 1) if b.locals[l]["ty"].lstrip("&") == "board::piece::Color"]
        if len(sqp) != 1 or len(cop) != 1:
            ctx.check(False, "generators:%s:signature" % P, "get_moveset(square, board, color)", b.where(0), bad_what="%s::get_moveset does not take one square and one colour" % P)
            continue
        for col, own in (("White", "white_pieces"), ("Black", "black_pieces")):
            run = cases.run(ix, b, {cop[0]: cases.enum_val(ix, "board::piece::Color", col)})
            tag = "generators:%s:%s" % (P, col)
            if run.overflow or not [p for p in run.paths if p.end == "return"]:
                ctx.check(False, tag + ":readable", "the generator can be walked with the colour fixed", b.where(0), bad_what="%s::get_moveset cannot be walked for %s: cannot decide" % (P, col))
                continue
            masks = {}
            plain = []          # (start, dest, piece) of every Ply::new met on any path
            mapped = []         # (source of the mapped squares, closure)
            rets = set()
            for p in run.paths:
                if p.end in ("panic", "unreachable"):
                    continue
                if p.end == "return":
                    rets.add(p.ret)
                for e in p.events:
                    if e[0] != "call":
                        continue
                    if e[2].endswith("std::ops::BitAnd>::bitand") and len(e[3]) == 2:
                        for a, o in ((e[3][0], e[3][1]), (e[3][1], e[3][0])):
                            a = mir.strip_copies(a)
                            if a[0] == "call" and a[1].rsplit("::", 1)[-1].startswith("get_attacks") and _own_field(o) is not None:
                                masks[("call", e[2], tuple(e[3]))] = (a, _own_field(o))
                    elif e[2] == "board::ply::Ply::new" and len(e[3]) == 3:
                        plain.append(tuple(e[3]))
                    elif e[2] == "std::iter::Iterator::map" and len(e[3]) == 2:
                        mapped.append(tuple(e[3]))
            mapped = sorted(set(mapped), key=repr)
            plain = sorted(set(plain), key=repr)
            ok = len(masks) == 1
            why = "%d target masks of the form get_attacks(..) & !<side>_pieces" % len(masks)
            mask = None
            if ok:
                mask, (atk, ownf) = next(iter(masks.items()))
                args = [mir.strip_copies(x) for x in atk[2]]
                right_piece = ("::%s::%s" % (mod, P)) in atk[1] or atk[1].startswith("<board::piece::%s::%s as " % (mod, P))
                sq_ok = len(args) == nargs and args[0] == ("arg", sqp[0])
                occ_ok = nargs == 1 or (args[1][0] == "field" and args[1][-1] == "all_pieces" and "bitboards" in args[1])
                ok = right_piece and sq_ok and occ_ok and ownf == own
                why = "the target mask is `%s` with own pieces `%s`" % (expr_str(atk)[:100], ownf)
            ctx.check(ok, tag + ":target-mask", "targets = %s::get_attacks(square%s) & !board.bitboards.%s" % (P, ", all_pieces" if nargs == 2 else "", own), b.where(0),
                      bad_what="%s of %s: %s; expected %s::get_attacks(square%s) & !%s" % (P, col, why, P, ", board.bitboards.all_pieces" if nargs == 2 else "", own))
            if not ok:
                continue
            want_piece = ("agg", "board::piece::Kind", P)

            def move_ok(start, dest_is, piece):
                start, piece = mir.strip_copies(mir.strip_refs(start)), mir.strip_copies(mir.strip_refs(piece))
                return start == ("arg", sqp[0]) and dest_is and piece[:3] == want_piece and len(piece[3]) == 1 and mir.strip_copies(mir.strip_refs(piece[3][0]))[:3] == ("agg", "board::piece::Color", col)

            n_sources = 0
            good = True
            detail = ""
            # (a) squares.into_iter().map(|s| Ply::new(square, s, Kind::P(color))).collect() over Vec::from(mask)
            for src, clo in mapped:
                n_sources += 1
                it = src[2][0] if src[0] == "call" and src[1].endswith("IntoIterator>::into_iter") and len(src[2]) == 1 else None
                conv = it is not None and it[0] == "call" and (it[1].endswith("Into<U>>::into") or it[1] == c06_bitvec()) and len(it[2]) == 1 and mir.strip_copies(it[2][0]) == mask
                conv = conv and _into_is_square_list(b)
                if not conv:
                    # `mask.squares().map(..)`: the source is an iterator type whose `next` C06.bit-iteration has read as
                    # "the square of every set bit, lowest first"
                    from . import c06
                    over = c06.bit_iterator_over(ix, src)
                    conv = over is not None and mir.strip_copies(over) == mask
                clo = mir.strip_copies(clo)
                cb = ix.bodies.get(clo[1]) if clo[0] == "closure" else None
                res = None
                if cb is not None and cb.arg_count == 2:
                    env = ("agg", "closure", None, tuple(("ref", c[1]) if c[0] == "ref" and len(c) == 3 else c for c in clo[2]))   # captured values, not the caller's places
                    sub = cases.run(ix, cb, {cb.local_name(1): ("ref", env) if cb.locals[1]["ty"].startswith("&") else env})
                    rr = [p for p in sub.paths if p.end == "return"]
                    if not sub.overflow and len(rr) == 1 and len(sub.paths) == 1 and not [e for e in rr[0].events if e[0] == "store"]:
                        res = mir.strip_copies(rr[0].ret)
                        ctx.functions.add(cb.key)
                m_ok = res is not None and res[0] == "call" and res[1] == "board::ply::Ply::new" and len(res[2]) == 3 and move_ok(res[2][0], mir.strip_copies(res[2][1]) == ("arg", cb.local_name(2)), res[2][2])
                whole = any(mir.strip_copies(r) == ("call", "std::iter::Iterator::collect", (("call", "std::iter::Iterator::map", (src, clo)),)) for r in rets) and len(rets) == 1
                if not (conv and m_ok and whole):
                    good = False
                    detail = "squares come from `%s`, each mapped to `%s`%s" % (expr_str(src)[:90], expr_str(res)[:90] if res is not None else "?", "" if whole else "; the collected list is not what is returned")
            # (b) a loop that pops the mask's bits and pushes Ply::new(square, Square::from(bit), Kind::P(color))
            if plain:
                n_sources += 1
                site = [(bi, t) for bi, t in b.calls() if callee_is(t, "board::ply::Ply::new")]
                pushes = [(bi, t) for bi, t in b.calls() if callee_is(t, "std::vec::Vec::push", "std::vec::Vec::<T, A>::push") and mir.strip_copies(sym.operand(t["args"][1]))[:2] == ("call", "board::ply::Ply::new")]
                why, info = (C.pop_loop(b, sym, pushes[0][0]) if len(pushes) == 1 and len(site) == 1 else ("%d Ply::new sites, %d of them pushed" % (len(site), len(pushes)), None))
                if why is None:
                    for st, d, pc in plain:
                        d = mir.strip_copies(d)
                        while d[0] == "call" and d[1].endswith("Square as std::convert::From<u8>>::from") and len(d[2]) == 1 or d[0] == "cast":
                            d = mir.strip_copies(d[2][0] if d[0] == "call" else d[1])
                        from_mask = d[0] == "call" and d[1] == info["index"][1] and len(d[2]) == 1 and mir.strip_copies(mir.strip_refs(d[2][0])) == mask
                        if not move_ok(st, from_mask, pc):
                            why = "a move is built as Ply::new(%s, %s, %s)" % (expr_str(st)[:40], expr_str(d)[:80], expr_str(pc)[:40])
                    vec = mir.strip_refs(sym.operand(pushes[0][1]["args"][0]))
                    if why is None and not (info["once"](pushes[0][0]) and _returned_list(b, sym, vec)):
                        why = "the move is not pushed exactly once per bit onto the list that is returned"
                if why is not None:
                    good = False
                    detail = why
            ctx.check(good and n_sources == 1, tag + ":one-move-per-target", "every set bit s of the target mask yields exactly Ply::new(square, s, Kind::%s(%s)), and nothing else does" % (P, col), b.where(0),
                      bad_what="%s of %s: %s" % (P, col, detail or "%d sources of plain moves" % n_sources))


def _returned_list(b, sym, vec):
    """Is the local list `vec` what the function returns, directly or moved through other locals on every return?"""
    if vec[0] != "var":
        return False
    same = {vec}
    for _round in range(4):
        for l in range(len(b.locals)):
            ds = b.defs().get(l, [])
            if ds and all(d[2].get("k") not in ("call", "partial") and mir.strip_copies(sym.rvalue(d[2])) in same for d in ds):
                same.add(("var", b.local_name(l)))
    return mir.strip_copies(sym.local(0)) in same


def c06_bitvec():
    from . import c06
    return c06.BITVEC


def _into_is_square_list(b):
    """Every `.into()` in the generator is Bitboard -> Vec<Square> (the conversion C06.bit-iteration decides)."""
    ok = True
    n = 0
    for bi, t in b.calls():
        if (t.get("callee") or "") == c06_bitvec():
            n += 1      # `.into()` already read as the crate's From<Bitboard> for Vec<Square>
        elif (t.get("callee") or "").endswith("Into<U>>::into"):
            n += 1
            ok = ok and t["dest"]["ty"] == "std::vec::Vec<board::square::Square>" and t["args"] and (t["args"][0].get("move") or t["args"][0].get("copy") or {}).get("ty") == "board::bitboard::Bitboard"
    return ok and n >= 1


def rule_castle_moves(ctx):
    ix = ctx.ix
    b = ctx.body(KING_MS)
    sym = ctx.sym(b)
    rows = {}
    for bi, t in b.calls():
        if not callee_is(t, "board::ply::builder::Builder::build"):
            continue
        chain = sym.operand(t["args"][0])
        pb = [x for x in walk(chain) if isinstance(x, tuple) and x[0] == "call" and x[1] == "board::ply::Ply::builder"]
        cs = [x for x in walk(chain) if isinstance(x, tuple) and x[0] == "call" and x[1].endswith("Builder::castles")]
        if not pb:
            continue
        dest = [x[2][0][1] for x in walk(pb[0][2][1]) if isinstance(x, tuple) and x[0] == "call" and x[1].endswith("From<&str>>::from") and x[2] and x[2][0][0] == "const"]
        cons = C.constraints_for(ix, b, sym, bi)
        kind = None
        origin = None
        colour = None
        for c in cons:
            e = c[3]
            if e[0] == "call" and "eq" in e[1] and True in c[1]:
                ck = [y for y in walk(e) if isinstance(y, tuple) and y[0] == "call" and y[1] == B_ + "castling_ability"]
                if ck and c04.status_of(e) == "Available":
                    kind = c04.kind_of(ck[0])
                sq = [y[2][0][1] for y in walk(e) if isinstance(y, tuple) and y[0] == "call" and y[1].endswith("From<&str>>::from") and y[2] and y[2][0][0] == "const"]
                if sq and "square" in expr_str(e):
                    origin = sq[0]
                cl = [y[2] for y in walk(e) if isinstance(y, tuple) and y[0] == "agg" and isinstance(y[1], str) and y[1].endswith("piece::Color")]
                if cl and "color" in expr_str(e):
                    colour = cl[0]
        flag = bool(cs) and cs[0][2][1] == ("const", 1, "bool")
        rows[kind] = (origin, colour, dest[0] if dest else None, flag)
    want = {"WhiteKingside": ("e1", "White", "g1", True), "WhiteQueenside": ("e1", "White", "c1", True), "BlackKingside": ("e8", "Black", "g8", True), "BlackQueenside": ("e8", "Black", "c8", True)}
    if rows != want:
        # the same table read by walking the generator for a king of each colour on e1, e8 and d1 (a loop over the two wings,
        # destinations computed from the king's square, ...)
        by_cases = castle_moves_by_cases(ix, b)
        if by_cases is not None:
            rows = by_cases
    for k in sorted(want):
        ctx.check(rows.get(k) == want[k], "king:castle-move:%s" % k, "%s: king on %s of %s, castling_ability(%s) Available -> move to %s flagged castles(true)" % ((k,) + want[k][:2] + (k, want[k][2])), b.where(0),
                  bad_what="castling move for %s is generated as (from, colour, to, castles flag) = %s, expected %s" % (k, rows.get(k), want[k]))
    ctx.check(set(rows) == set(want), "king:castle-moves:four", "exactly four castling moves are generated", b.where(0), bad_what="castling moves generated for %s" % sorted(map(str, rows)))
    c01tables.check_rook_tables(ctx)


_PAWN_TUPLE = {}


def _component(e):
    """Which of (direction, start rank, en-passant rank, back rank) a field path into the per-colour tuple denotes, whether
    the tuple is flat or `(direction, RANKS)` with a named triple: the index of the leaf in order."""
    sizes = _PAWN_TUPLE.get("sizes")
    if not (isinstance(e, tuple) and e[0] == "field") or not sizes:
        return None
    path = [n for n in e[2:]]
    if not path or not all(n.isdigit() for n in path):
        return None
    top = int(path[0])
    if top >= len(sizes):
        return None
    base = sum(sizes[:top])
    if len(path) == 1:
        return base if sizes[top] == 1 else None
    if len(path) == 2 and int(path[1]) < sizes[top]:
        return base + int(path[1])
    return None


def rule_pawn_table(ctx):
    ix = ctx.ix
    b = ctx.body(PAWN_MS)
    sym = ctx.sym(b)
    # (direction, start rank, en-passant rank, back rank) per colour
    tup = {}
    for bi, i, s in b.stmts():
        rv = s["rv"]
        if rv.get("k") == "agg" and rv.get("agg") == "tuple" and 2 <= len(rv["ops"]) <= 4:
            v = sym.rvalue(rv)
            # (direction, start, ep, back) or (direction, RANKS) with a named triple: the leaves in order
            leaves = []
            sizes = []
            for x in v[3]:
                x = mir.strip_copies(x)
                if x[0] == "agg" and x[1] == "tuple":
                    leaves.extend(mir.strip_copies(y) for y in x[3])
                    sizes.append(len(x[3]))
                else:
                    leaves.append(x)
                    sizes.append(1)
            _PAWN_TUPLE["sizes"] = sizes
            if len(leaves) != 4 or not (leaves[0][0] == "agg" and str(leaves[0][1]).endswith("square::Direction")):
                continue
            cons = C.constraints_for(ix, b, sym, bi)
            col = [next(iter(c[1])) for c in cons if len(c[1]) == 1 and next(iter(c[1])) in ("White", "Black")]
            d = leaves[0]
            tup[col[-1] if col else None] = (d[2] if d[0] == "agg" else expr_str(d), ceval(leaves[1]), ceval(leaves[2]), ceval(leaves[3]))
    want = {"White": ("North", 1, 4, 7), "Black": ("South", 6, 3, 0)}
    ctx.check(tup == want, "pawn:direction-and-ranks", "White: North, start rank 1, en-passant rank 4, back rank 7; Black: South, 6, 3, 0", b.where(0), bad_what="pawn table is %s" % tup)
    if tup == want:
        w, bl = tup["White"], tup["Black"]
        ctx.check(all(w[i] == 7 - bl[i] for i in (1, 2, 3)), "pawn:ranks-mirror", "Black's ranks are White's mirrored (r <-> 7 - r)", b.where(0), bad_what="the rank constants do not mirror")
    # enemy pieces table
    en = {}
    for bi, i, s in b.stmts():
        for o in mir.rv_operands(s["rv"]):
            p = op_place(o)
            if p is not None and fields_of(p)[-1:] in (("white_pieces",), ("black_pieces",)):
                for c in C.constraints_for(ix, b, sym, bi):
                    for v in c[1]:
                        if v in ("White", "Black"):
                            en[v] = fields_of(p)[-1]
    ctx.check(en == {"White": "black_pieces", "Black": "white_pieces"}, "pawn:captures-enemy-pieces", "diagonal captures target the other colour's pieces", b.where(0), bad_what="enemy table: %s" % en)
    # double push: flag, two steps, from the start rank with both squares empty; the only setter besides FEN
    dpp = [(bi, t) for bi, t in b.calls() if callee_is(t, "board::ply::builder::Builder::double_pawn_push")]
    ok = len(dpp) == 1 and const_int(dpp[0][1]["args"][1]) == 1
    if ok:
        chain = sym.operand(dpp[0][1]["args"][0])
        pbs = [x for x in walk(chain) if isinstance(x, tuple) and x[0] == "call" and x[1] == "board::ply::Ply::builder"]
        d = pbs[0][2][1] if pbs else None
        # square + direction + direction, where `direction` is component 0 of the per-colour tuple
        ok = bool(d) and d[0] == "call" and d[1].endswith("Direction>>::add") and d[2][0][0] == "call" and d[2][0][1].endswith("Direction>>::add") and d[2][0][2][0] == ("arg", "square") \
            and d[2][1] == d[2][0][2][1] and _component(d[2][1]) == 0
        cons = C.constraints_for(ix, b, sym, dpp[0][0])
        on_start = any(c[3][0] == "bin" and c[3][1] == "Eq" and "square.rank" in expr_str(c[3][2]) and _component(c[3][3]) == 1 and True in c[1] for c in cons)
        empties = sum(1 for c in cons if c[3][0] == "call" and c[3][1].endswith("Bitboard::is_empty") and True in c[1])
        ok = ok and on_start and empties >= 2
    ctx.check(ok, "pawn:double-push", "the two-square push is flagged double_pawn_push(true), goes two steps in `direction`, from the start rank with both squares empty", b.where(dpp[0][0] if dpp else 0),
              bad_what="the double push is not (flag true, square + direction + direction, start rank, both squares empty)")
    # en passant: two sites, en_passant(true), captured = Pawn(opposite colour), guarded by en_passant_file == dest.file on the e.p. rank
    eps = [(bi, t) for bi, t in b.calls() if callee_is(t, "board::ply::builder::Builder::en_passant")]
    ok = len(eps) == 2
    sides = set()
    n_file_tests = 0
    for bi, t in eps:
        chain = None
        for bj, tj in b.calls():
            if callee_is(tj, "board::ply::builder::Builder::build") and b.dominates(bi, bj):
                c0 = sym.operand(tj["args"][0])
                if any(isinstance(x, tuple) and x[0] == "call" and x[1].endswith("Builder::en_passant") for x in walk(c0)):
                    if chain is None or len(expr_str(c0)) < len(expr_str(chain)):
                        chain = c0
        txt = expr_str(chain) if chain else ""
        cap = [x for x in walk(chain) if isinstance(x, tuple) and x[0] == "call" and x[1].endswith("Builder::captured")] if chain else []
        capok = bool(cap) and cap[0][2][1][0] == "agg" and cap[0][2][1][2] == "Pawn" and "Color::opposite(color)" in expr_str(cap[0][2][1])
        flagok = const_int(t["args"][1]) == 1
        cons = C.constraints_for(ix, b, sym, bi)
        rank_ok = any(c[3][0] == "bin" and c[3][1] == "Eq" and "square.rank" in expr_str(c[3][2]) and _component(c[3][3]) == 2 and True in c[1] for c in cons)
        side = "East" if "Direction::East" in txt else "West" if "Direction::West" in txt else None
        sides.add(side)
        file_ok = any(ep_file_test(ix, c, side) for c in cons)
        n_file_tests += 1 if file_ok else 0
        ok = ok and capok and flagok and rank_ok and file_ok
        # "iff": any further condition must be one we can decide; the only accepted one is "an enemy pawn stands beside this pawn"
        for c in cons:
            e = c[3]
            if e[0] == "bin" and e[1] == "Eq" and "square.rank" in expr_str(e[2]):
                continue
            if ep_file_test(ix, c, side):
                continue
            verdict = victim_guard(ix, b, sym, c, side)
            ctx.check(verdict is True, c04.c15_dedup(ctx.__dict__.setdefault("_seen01", {}), "pawn:en-passant:%s:extra-condition" % side),
                      "the additional condition on the %s en-passant capture is `an enemy pawn stands on the adjacent %s square` with the correct edge mask" % (side, (side or "").lower()), b.where(bi),
                      bad_what="the %s en-passant capture is additionally conditioned on `%s` (%s): %s" % (side, c[0][:90], sorted(map(str, c[1])),
                               verdict if isinstance(verdict, str) else "not a condition this rule can decide; legal en-passant captures may be dropped"))
    ctx.check(ok and sides == {"East", "West"}, "pawn:en-passant", "two en-passant captures (east and west), each en_passant(true), capturing Pawn(color.opposite()), on the e.p. rank when en_passant_file equals the destination file", b.where(0),
              bad_what="the en-passant moves are not two guarded captures of the opposite pawn with the en_passant flag (sides %s)" % sorted(map(str, sides)))
    ctx.check(n_file_tests == 2, "pawn:en-passant-file-test", "both e.p. guards compare en_passant_file with the file of their own destination square", b.where(0),
              bad_what="%d of the en-passant guards compare the e.p. file with their destination's file" % n_file_tests)
    # promotions
    eb = ctx.body("board::piece::pawn::Pawn::explode_promotion")
    esym = ctx.sym(eb)
    kinds = []
    for bi, t in eb.calls():
        if callee_is(t, "board::ply::builder::Builder::promoted_to"):
            e = esym.operand(t["args"][1])
            if e[0] == "agg":
                kinds.append((e[2], expr_str(e[3][0])))
    ctx.check(sorted(kinds) == sorted([("Queen", "color"), ("Rook", "color"), ("Knight", "color"), ("Bishop", "color")]), "pawn:four-promotions", "a move to the back rank explodes into exactly Q, R, N, B of the pawn's colour", eb.where(0),
              bad_what="promotion pieces are %s" % sorted(kinds))
    grd = [c for bi, t in eb.calls() if callee_is(t, "board::ply::builder::Builder::promoted_to") for c in C.constraints_for(ix, eb, esym, bi)]
    ctx.check(any(c[3][0] == "bin" and "dest.rank" in expr_str(c[3][2]) and c[3][3] == ("arg", "back_rank") and
                  ((c[3][1] == "Eq" and set(c[1]) == {True}) or (c[3][1] == "Ne" and set(c[1]) == {False})) for c in grd), "pawn:promotion-on-back-rank", "promotion happens exactly when dest.rank == back_rank", eb.where(0), bad_what="the promotion guard is not dest.rank == back_rank")
    # every pawn move goes through explode_promotion with this colour's back rank
    used = [t for cb in ix.closures_of(PAWN_MS) + [b] for _b, t in cb.calls() if callee_is(t, "board::piece::pawn::Pawn::explode_promotion")]
    ctx.check(len(used) == 1, "pawn:all-moves-exploded", "the final flat_map sends every generated pawn move through explode_promotion", b.where(0), bad_what="explode_promotion is applied at %d places" % len(used))


def ep_file_test(ix, c, side):
    """Is the path constraint `c` the test `board.en_passant_file == Some(<this side's destination>.file)`, spelt either as
    `.is_some_and(|file| file == dest.file)` or as `== Some(dest.file)`?"""
    e = c[3]
    if not (e[0] == "call" and "en_passant_file" in c[0] and set(c[1]) == {True} and side):
        return False
    if e[1].endswith("Option::is_some_and") and len(e[2]) == 2 and e[2][1][0] == "closure" and e[2][1][1] in ix.bodies:
        cb = ix.bodies[e[2][1][1]]
        r = mir.Sym(cb, ix).local(0)
        caps = " ".join(expr_str(x) for x in e[2][1][2])
        return r[0] == "bin" and r[1] == "Eq" and "file" in expr_str(r) and ("Direction::%s" % side) in caps
    if e[1].endswith("PartialEq>::eq") and len(e[2]) == 2:
        a, b2 = mir.strip_refs(e[2][0]), mir.strip_refs(e[2][1])
        for x, y in ((a, b2), (b2, a)):
            if x[0] == "field" and x[-1] == "en_passant_file" and y[0] == "agg" and y[2] == "Some" and y[3]:
                inner = y[3][0]
                return inner[0] == "field" and inner[-1] == "file" and ("Direction::%s" % side) in expr_str(inner)
    return False


def victim_guard(ix, b, sym, c, side):
    """Decide an extra en-passant guard of the form !((origin << 1 | >> 1) & !FILE & enemy_pawns).is_empty().
    Returns True if it is exactly `enemy pawn on the adjacent square on that side`, else a string saying what is wrong."""
    from . import c06
    e = c[3]
    if not (e[0] == "call" and e[1].endswith("Bitboard::is_empty") and set(c[1]) == {False}):
        return None
    x = mir.strip_copies(e[2][0])
    if not (x[0] == "call" and (x[1].endswith("ops::BitAnd>::bitand") or x[1].endswith("BitAnd<u64>>::bitand"))):
        return None
    y, enemy = x[2][0], x[2][1]
    # enemy: a variable whose definitions are the opposite colour's pawns
    table = {}
    if enemy[0] == "var":
        for l in range(len(b.locals)):
            if b.local_name(l) == enemy[1]:
                for (db, di, rv) in b.defs().get(l, []):
                    v = sym.rvalue(rv)
                    if v[0] == "field":
                        for cc in C.constraints_for(ix, b, sym, db):
                            for val in cc[1]:
                                if val in ("White", "Black"):
                                    table[val] = v[-1]
    if table != {"White": "black_pawns", "Black": "white_pawns"}:
        return "the bitboard it intersects with is not the opposite colour's pawns (%s)" % (table or expr_str(enemy))

    def origin_test(o):
        return (o[0] == "call" and ("From<board::square::Square>>::from" in o[1] or o[1].endswith("Bitboard::new")) and "square" in expr_str(o))
    terms = c06.shift_terms(y, origin_test)
    if not terms or len(terms) != 1:
        return None
    sh, keep = terms[0]
    want_shift = 1 if side == "East" else -1
    if sh != want_shift:
        return "it looks %+d squares away, but the captured pawn of the %s capture stands at %+d" % (sh, side, want_shift)
    need = c06.required_keep(want_shift)
    if keep != need:
        return "the shifted bit is masked with 0x%016x, but a step of %+d file(s) must exclude exactly 0x%016x (the wrap-around file): pawns standing on that edge file are discarded, so a legal en-passant capture is not generated" % (keep, want_shift, (~need) & ((1 << 64) - 1))
    return True


def rule_dispatch(ctx):
    ix = ctx.ix
    for fn, suffix in (("get_moveset", "Piece>::get_moveset"), ("get_piece_symbol", "get_piece_symbol")):
        kb = ctx.body("board::piece::Kind::" + fn)
        ksym = ctx.sym(kb)
        table = {}
        for bi, t in kb.calls():
            c = strip_generics(t.get("callee") or "")
            if not c.endswith(suffix) and not (suffix == "get_piece_symbol" and c.endswith("Piece::get_piece_symbol")):
                continue
            cons = C.constraints_for(ix, kb, ksym, bi)
            for cc in cons:
                if cc[0].startswith("discr(") and len(cc[1]) == 1:
                    who = c.split(" as ")[0].lstrip("<").split("::")[-1] if " as " in c else (t.get("substs") or ["?"])[0].split("::")[-1]
                    table[next(iter(cc[1]))] = who
        for k in tables.KINDS:
            ctx.check(table.get(k) == k, "Kind::%s:%s" % (fn, k), "Kind::%s dispatches to %s::%s" % (k, k, fn), kb.where(0), bad_what="Kind::%s.%s() dispatches to %s" % (k, fn, table.get(k)))
        if fn == "get_moveset":
            # colour passed through
            for bi, t in kb.calls():
                if strip_generics(t.get("callee") or "").endswith(suffix):
                    a = ksym.operand(t["args"][2])
                    ctx.check(a[0] == "field" and a[1][0] == "as", c04.c15_dedup(ctx.__dict__.setdefault("_seen01", {}), "Kind::get_moveset:colour-passed"), "the piece's own colour is passed on", kb.where(bi), bad_what="get_moveset passes colour `%s`" % expr_str(a))
    from . import c06
    sub = engine.Ctx(ctx.prop, ix, ctx.config)
    sub.cur_rule = ctx.cur_rule
    c06.rule_queen(sub)
    ctx.insts.extend(i for i in sub.insts if "Kind::get_attacks" in i.key)


def rule_capture_src(ctx):
    ix = ctx.ix
    b = ctx.body(B_ + "get_all_moves")
    sym = ctx.sym(b)
    # generator guard: only pieces of the side to move
    gm = [(bi, t) for bi, t in b.calls() if callee_is(t, "board::piece::Kind::get_moveset")]
    ok = len(gm) == 1
    if ok:
        cons = C.constraints_for(ix, b, sym, gm[0][0])
        ok = any(c[3][0] == "call" and ("PartialEq>::ne" in c[3][1] or "PartialEq::ne" in c[3][1]) and "current_turn" in c[0] and "get_color" in c[0] and False in c[1] for c in cons) or \
            any(c[3][0] == "call" and "PartialEq" in c[3][1] and c[3][1].endswith("eq") and "current_turn" in c[0] and "get_color" in c[0] and True in c[1] for c in cons)
        pe = sym.operand(gm[0][1]["args"][0])
        sq = sym.operand(gm[0][1]["args"][1])
        ok = ok and "get_piece" in expr_str(pe) and "From<u8>>::from" in expr_str(sq)
    ctx.check(ok, "get_all_moves:own-pieces-only", "moves are generated for the piece on each square only if its colour is current_turn", b.where(0), bad_what="the generator guard is not `piece colour == current_turn`")
    n = 0
    # the annotation sits in the closure mapped over the generated moves, or in a loop over them in the function itself
    for cb in ix.closures_of(B_ + "get_all_moves") + [b]:
        csym = mir.Sym(cb, ix)
        rows = {}
        mv = None
        for bi, i, s in cb.stmts():
            if fields_of(s["lhs"])[-1:] == ("captured_piece",):
                mv = cb.local_name(s["lhs"]["l"])
                for vb, v in C.value_cases(cb, csym, bi, s["rv"]):
                    cons = C.constraints_for(ix, cb, csym, vb)
                    ep = [next(iter(c[1])) for c in cons if "en_passant" in c[0] and len(c[1]) == 1]
                    rows[ep[-1] if ep else None] = expr_str(v[2][1]) if v[0] == "call" and v[1] == B_ + "get_piece" else expr_str(v)
                    # `let on = if mv.en_passant { .. } else { mv.dest }; get_piece(on)`: the square is chosen in arms
                    sqv = mir.strip_copies(v[2][1]) if v[0] == "call" and v[1] == B_ + "get_piece" and len(v[2]) == 2 else None
                    if not ep and sqv is not None and sqv[0] == "var":
                        ls = [l for l in range(len(cb.locals)) if cb.local_name(l) == sqv[1]]
                        ds = cb.defs().get(ls[0], []) if len(ls) == 1 else []
                        if len(ds) >= 2 and not any(cb.in_loop(d[0]) and False for d in ds) and all(d[2].get("k") not in ("call", "partial") for d in ds):
                            for (db, di, drv) in ds:
                                dcons = C.constraints_for(ix, cb, csym, db)
                                dep = [next(iter(c[1])) for c in dcons if "en_passant" in c[0] and len(c[1]) == 1]
                                if dep:
                                    rows.pop(None, None)
                                    rows[dep[-1]] = expr_str(csym.rvalue(drv))
        if rows:
            n += 1
            ctx.functions.add(cb.key)
            ok = rows.get(True) == "square::Square::Square{%s.start.rank, %s.dest.file}" % (mv, mv) and rows.get(False) == "%s.dest" % mv
            ctx.check(ok, "get_all_moves:captured-piece-source", "captured_piece = get_piece((start.rank, dest.file)) for en passant, get_piece(dest) otherwise", cb.where(0),
                      bad_what="captured_piece is looked up at %s (en passant must look at (start.rank, dest.file), everything else at dest)" % rows)
    ctx.check(n == 1, "get_all_moves:one-annotation-closure", "one closure annotates captures", b.where(0), bad_what="%d closures set captured_piece" % n)
    # ... and the annotation is all that happens to a generated move on its way out: every other field (the flags make_move
    # reads, start, dest, piece) leaves get_all_moves as the generator built it
    touched = []
    for cb in ix.closures_of(B_ + "get_all_moves") + [b]:
        for bi, i, s in cb.stmts():
            fp = fields_of(s["lhs"])
            root_ty = cb.locals[s["lhs"]["l"]]["ty"].lstrip("&").replace("mut ", "")
            if fp and root_ty == "board::ply::Ply" and fp[0] != "captured_piece":
                touched.append((fp[0], s.get("line")))
    ctx.check(not touched, "get_all_moves:annotates-only-captured-piece", "get_all_moves changes no field of a generated move except captured_piece", b.where(0),
              bad_what="get_all_moves rewrites %s of the generated moves: what make_move records (en-passant file, castling, clocks) no longer follows the generator's flags" % touched[:4])
    # range filter in Kind::get_moveset
    kb = ctx.body("board::piece::Kind::get_moveset")
    flt = ix.closures_of("board::piece::Kind::get_moveset")
    okf = False
    decided = False
    from . import cases
    for cb in flt:
        if cb.arg_count != 2:
            continue
        # the predicate folded over start / dest coordinates on the board, on its edge and beyond it
        good = True
        pts = (0, 7, 8, 255)
        n_cases = 0
        for sr in pts:
            for sf in pts:
                for dr in pts:
                    for df in (0, 7, 8):
                        mvv = ("agg", "board::ply::Ply", "Ply", (("agg", "board::square::Square", "Square", (("const", sr, "u8"), ("const", sf, "u8")), ("rank", "file")),
                                                                  ("agg", "board::square::Square", "Square", (("const", dr, "u8"), ("const", df, "u8")), ("rank", "file"))), ("start", "dest"))
                        arg = mvv
                        for _ in range(cb.locals[2]["ty"].count("&")):
                            arg = ("ref", arg)
                        run = cases.run(ix, cb, {cb.local_name(2): arg})
                        rets = {p.ret for p in run.paths if p.end == "return"}
                        want = max(sr, sf, dr, df) < 8 and (sr, sf) != (dr, df)
                        n_cases += 1
                        if run.overflow or rets != {("const", int(want), "bool")}:
                            good = False
                            break
                    if not good:
                        break
                if not good:
                    break
            if not good:
                break
        decided = decided or not run.overflow
        if good and n_cases == 192:
            okf = True
            ctx.functions.add(cb.key)
    # (the textual reading is only a fall-back for a predicate the walk could not evaluate at all; a predicate that was
    # evaluated and gave a wrong answer for some coordinates is wrong)
    for cb in flt if not okf and not decided else ():
        txt = mir.dump_body(cb)
        okf = okf or (txt.count("8_u8") >= 4 and "start" in txt and "dest" in txt)
    ctx.check(okf, "Kind::get_moveset:on-board-filter", "generated moves are filtered to ranks/files < 8 and start != dest", kb.where(0), bad_what="the on-board filter of Kind::get_moveset changed")


def rule_square_loops(ctx):
    ix = ctx.ix
    from .c05 import loop_range
    n = 0
    for key in (B_ + "get_all_moves", B_ + "get_attacked_squares", c04.ZFROM):
        b = ctx.body(key)
        sym = ctx.sym(b)
        rngs = set()
        for bi, i, s in b.stmts():
            rv = s["rv"]
            if rv.get("k") == "agg" and rv.get("adt", "").endswith("ops::Range") and len(rv["ops"]) == 2:
                lo, hi = const_int(rv["ops"][0]), const_int(rv["ops"][1])
                rngs.add((lo, hi))
        n += 1
        if not rngs and key != c04.ZFROM:
            # no counting loop at all: the squares are the set bits of a board of pieces (`for square in own_pieces`)
            main = [(bi, t) for bi, t in b.calls() if callee_is(t, "board::piece::Kind::get_moveset", "board::piece::Kind::get_attacks") and b.in_loop(bi)]
            why, pl = C.pop_loop(b, sym, main[0][0]) if len(main) == 1 else ("%d generator calls in loops" % len(main), None)
            src = {}
            if pl is not None:
                init = mir.strip_copies(pl["init"])
                if init[0] == "field" and init[-1] == "0" and len(init) == 3:
                    init = mir.strip_copies(init[1])
                if init[0] == "var":
                    ls = [l for l in range(len(b.locals)) if b.local_name(l) == init[1]]
                    for (db, di, rv) in (b.defs().get(ls[0], []) if len(ls) == 1 else []):
                        v = mir.strip_copies(sym.rvalue(rv)) if rv.get("k") not in ("call", "partial") else ("?",)
                        cols = [x for c in C.constraints_for(ix, b, sym, db) for x in c[1] if x in ("White", "Black")]
                        src[cols[-1] if cols else None] = v[-1] if v[0] == "field" and "bitboards" in v else expr_str(v)[:40]
                elif init[0] == "field" and "bitboards" in init:
                    src[None] = init[-1]
            turn_ok = key.endswith("get_all_moves") and src in ({"White": "white_pieces", "Black": "black_pieces"}, {None: "all_pieces"})
            att_ok = key.endswith("get_attacked_squares") and src in ({"White": "black_pieces", "Black": "white_pieces"},)
            ctx.check(pl is not None and (turn_ok or att_ok), "%s:square-loop" % key, "%s visits the square of every set bit of %s, once" % (C.short(key), src), b.where(0),
                      bad_what="%s has no 0..64 loop and is not a loop over the set bits of the relevant pieces' board (%s; board %s)" % (C.short(key), why, src))
            continue
        ctx.check(rngs == {(0, 64)}, "%s:square-loop" % key, "%s loops over squares 0..64" % C.short(key), b.where(0), bad_what="%s loops over %s: a literal bound other than the board size skips squares" % (C.short(key), sorted(rngs)))
    ctx.floor("square loops", n, 3)


PLYB = "board::ply::builder::Builder::"


def rule_ply_builder(ctx):
    """A generated move says what the generator said: Ply::builder / Builder::new take (start, dest, piece) as given and
    leave every flag clear; each flag setter stores its argument in its own field; build copies each field to the Ply's
    field of the same meaning, unconditionally."""
    ix = ctx.ix
    nb = ctx.body(PLYB + "new")
    r = ctx.sym(nb).local(0)
    ok = r[0] == "agg" and len(r) > 4
    if ok:
        f = dict(zip(r[4], r[3]))
        ok = (f.get("start") == ("arg", "start") and f.get("dest") == ("arg", "dest") and f.get("piece") == ("arg", "piece")
              and f.get("captured_piece", ("x",))[0] == "agg" and f["captured_piece"][2] == "None" and f.get("promoted_to", ("x",))[0] == "agg" and f["promoted_to"][2] == "None"
              and all(f.get(k) == ("const", 0, "bool") for k in ("castles", "en_passant", "double_pawn_push")))
    ctx.check(ok, "Builder::new:fields", "Builder::new(start, dest, piece) keeps its arguments and starts with no capture, no promotion and all flags clear", nb.where(0),
              bad_what="Builder::new builds `%s`" % expr_str(r)[:160])
    pn = ctx.body("board::ply::Ply::new")
    r = ctx.sym(pn).local(0)
    ok = r[0] == "agg" and len(r) > 4
    if ok:
        f = dict(zip(r[4], r[3]))
        ok = (f.get("start") == ("arg", "start") and f.get("dest") == ("arg", "dest") and f.get("piece") == ("arg", "piece")
              and f.get("captured_piece", ("x",))[0] == "agg" and f["captured_piece"][2] == "None" and f.get("promoted_to", ("x",))[0] == "agg" and f["promoted_to"][2] == "None"
              and all(f.get(k) == ("const", 0, "bool") for k in ("is_castles", "en_passant", "is_double_pawn_push")))
    ctx.check(ok, "Ply::new:fields", "Ply::new(start, dest, piece) is a plain move: no capture, no promotion, no flag", pn.where(0), bad_what="Ply::new builds `%s`" % expr_str(r)[:160])
    pb = ctx.body("board::ply::Ply::builder")
    r = ctx.sym(pb).local(0)
    ctx.check(r == ("call", PLYB + "new", (("arg", "start"), ("arg", "dest"), ("arg", "piece"))), "Ply::builder:forwards", "Ply::builder forwards to Builder::new", pb.where(0), bad_what="Ply::builder is `%s`" % expr_str(r)[:100])
    for name, field, wrap in (("captured", "captured_piece", "Some"), ("promoted_to", "promoted_to", "Some"), ("castles", "castles", None),
                              ("en_passant", "en_passant", None), ("double_pawn_push", "double_pawn_push", None)):
        b = ctx.body(PLYB + name)
        sym = ctx.sym(b)
        asg = [(bi, st) for bi, i, st in b.stmts() if st["lhs"]["l"] == 1 and st["lhs"]["p"] and st["lhs"]["p"][0] == "*"]
        ok = len(asg) == 1 and fields_of(asg[0][1]["lhs"]) == (field,) and len(b.blocks) <= 2
        if ok:
            v = sym.rvalue(asg[0][1]["rv"])
            arg = ("arg", b.local_name(2))
            ok = (v == arg) if wrap is None else (v[0] == "agg" and v[2] == wrap and v[3] == (arg,))
        ctx.check(ok, "Builder::%s:plain" % name, "Builder::%s stores %s in self.%s" % (name, "Some(argument)" if wrap else "its argument", field), b.where(0),
                  bad_what="Builder::%s is not the plain store into self.%s" % (name, field))
    bb = ctx.body(PLYB + "build")
    r = ctx.sym(bb).local(0)
    pairs = {"start": "start", "dest": "dest", "piece": "piece", "captured_piece": "captured_piece", "promoted_to": "promoted_to",
             "is_castles": "castles", "en_passant": "en_passant", "is_double_pawn_push": "double_pawn_push", "halfmove_clock": "halfmove_clock", "castling_rights": "castling_rights"}
    ok = r[0] == "agg" and len(r) > 4 and len(bb.blocks) <= 2
    wrong = {}
    if ok:
        f = dict(zip(r[4], r[3]))
        for pf, bf in pairs.items():
            e = mir.strip_copies(f.get(pf, ("missing",)))
            if not (e[0] == "field" and e[2:] == (bf,) and mir.strip_refs(e[1]) == ("arg", "self")):
                wrong[pf] = expr_str(e)[:40]
    ctx.check(ok and not wrong, "Builder::build:copies", "build() copies every builder field to the Ply field of the same meaning", bb.where(0),
              bad_what="build() does not copy field for field: %s" % (wrong or expr_str(r)[:100]))


SQ_ADD_DELTA = "<board::square::Square as std::ops::Add<board::square::Delta>>::add"
SQ_ADD_DIR = "<board::square::Square as std::ops::Add<board::square::Direction>>::add"


def rule_square_arith(ctx):
    """`square + delta` is coordinate-wise addition that leaves the board when the sum does: every generator steps with it
    and relies on the on-board filter to drop what fell off (a sum reduced mod 8 comes back in on the other side).
    `square + direction` adds the direction's own unit step."""
    from . import c06, cases
    ix = ctx.ix
    b = ctx.body(SQ_ADD_DELTA)
    r = mir.strip_copies(ctx.sym(b).local(0))
    bad = []
    und = None
    if r[0] == "agg" and r[1] == "board::square::Square" and len(r[3]) == 2:
        names = r[4] if len(r) > 4 and r[4] else ("rank", "file")
        comp = dict(zip(names, r[3]))
        a1, a2 = b.local_name(1), b.local_name(2)
        for rk in range(8):
            for fl in range(8):
                for dr in range(-2, 3):
                    for df in range(-2, 3):
                        env = {"%s.rank" % a1: rk, "%s.file" % a1: fl, "%s.rank_delta" % a2: dr, "%s.file_delta" % a2: df, "__signed__": True}
                        try:
                            got = (c06.fold_tree(ix, comp["rank"], env), c06.fold_tree(ix, comp["file"], env))
                        except c06.Undef as e:
                            und = str(e)
                            break
                        except KeyError:
                            und = "fields of the result are not (rank, file)"
                            break
                        for g, want in zip(got, (rk + dr, fl + df)):
                            okc = (g == want) if 0 <= want < 8 else not (isinstance(g, int) and 0 <= g < 8)
                            if not okc and len(bad) < 4:
                                bad.append(((rk, fl), (dr, df), got))
                    if und:
                        break
                if und:
                    break
            if und:
                break
    else:
        und = "the result is not a Square built from two coordinate expressions"
    ctx.check(und is None and not bad, "Square+Delta:coordinate-wise-and-off-board-stays-off", "Square + Delta adds coordinate-wise on 8x8 and yields an off-board square exactly when a coordinate leaves 0..8 (1600 cases folded)", b.where(0),
              bad_what=("Square + Delta cannot be folded (%s): cannot decide" % und) if und else
              "Square + Delta is wrong for ((rank, file), (d rank, d file)) -> (rank, file): %s -- a step off the board must not land on the board (it would pass the on-board filter as a move to the other edge)" % bad)
    d = ctx.body(SQ_ADD_DIR)
    dparam = [d.local_name(l) for l in range(1, d.arg_count + 1) if d.locals[l]["ty"].endswith("square::Direction")]
    table = {}
    for name in G.DIRS:
        run = cases.run(ix, d, {dparam[0]: cases.enum_val(ix, "board::square::Direction", name)}) if dparam else None
        rets = [p for p in run.paths if p.end == "return"] if run else []
        got = None
        if run is not None and not run.overflow and len(rets) == 1:
            calls = [e for e in rets[0].events if e[0] == "call"]
            if len(calls) == 1 and calls[0][2] == SQ_ADD_DELTA and len(calls[0][3]) == 2:
                dl = mir.strip_copies(calls[0][3][1])
                if dl[0] == "agg" and len(dl[3]) == 2 and all(x[0] == "const" for x in dl[3]) and mir.strip_copies(calls[0][3][0]) == ("arg", d.local_name(1)):
                    nm = dl[4] if len(dl) > 4 and dl[4] else ("rank_delta", "file_delta")
                    vals = dict(zip(nm, [x[1] for x in dl[3]]))
                    got = (vals.get("rank_delta"), vals.get("file_delta"))
        table[name] = got
    ctx.check(table == G.DIRS, "Square+Direction:unit-steps", "Square + Direction adds the unit step of that direction (8 directions)", d.where(0),
              bad_what="Square + Direction steps by %s (expected %s)" % ({k: v for k, v in table.items() if v != G.DIRS[k]}, {k: G.DIRS[k] for k, v in table.items() if v != G.DIRS[k]}))


def rule_leaf_accessors(ctx):
    """The small accessors every table rule names instead of reading: `Kind::get_color` returns the colour the kind carries,
    `Square::get_mask` is the one bit of that square, `Bitboard::count_ones` is the population count of the board."""
    from . import c06, cases
    ix = ctx.ix
    g = ctx.body("board::piece::Kind::get_color")
    bad = []
    for k in tables.KINDS:
        for c in tables.COLOURS:
            run = cases.run(ix, g, {g.local_name(1): cases.enum_val(ix, "board::piece::Kind", k, [cases.enum_val(ix, "board::piece::Color", c)])})
            rets = [p for p in run.paths if p.end == "return"]
            r = mir.strip_copies(rets[0].ret) if len(rets) == 1 and not run.overflow else None
            if not (r is not None and r[0] == "agg" and str(r[1]).endswith("piece::Color") and r[2] == c):
                bad.append((k, c, expr_str(r)[:30] if r else None))
    ctx.check(not bad, "Kind::get_color:payload", "Kind::get_color(K(c)) = c for the 12 pieces", g.where(0), bad_what="Kind::get_color is wrong for %s" % bad[:4])
    m = ctx.body("board::square::Square::get_mask")
    r = ctx.sym(m).local(0)
    a1 = m.local_name(1)
    wrong = []
    und = None
    for rk in range(8):
        for fl in range(8):
            try:
                v = c06.fold_tree(ix, r, {"%s.rank" % a1: rk, "%s.file" % a1: fl, a1: {"rank": rk, "file": fl}})
            except c06.Undef as e:
                und = str(e)
                break
            if v != 1 << (8 * rk + fl) and len(wrong) < 3:
                wrong.append(((rk, fl), hex(v) if isinstance(v, int) else v))
        if und:
            break
    ctx.check(und is None and not wrong, "Square::get_mask:one-bit", "Square::get_mask() = 1 << (8 * rank + file) for the 64 squares", m.where(0),
              bad_what=("Square::get_mask cannot be folded (%s): cannot decide" % und) if und else "Square::get_mask is wrong for %s" % wrong)
    cb = ctx.body("board::bitboard::Bitboard::count_ones")
    e = mir.strip_copies(ctx.sym(cb).local(0))
    hops = 0
    while e[0] == "call" and e[1] in ix.bodies and hops < 3:
        hb = ix.bodies[e[1]]
        ctx.functions.add(e[1])
        inner = mir.strip_copies(mir.Sym(hb, ix).local(0))
        if len(hb.blocks) > 3:
            break
        e = inner
        hops += 1
    ok = e[0] == "call" and e[1].endswith("<impl u64>::count_ones") and len(e[2]) == 1 and mir.strip_copies(e[2][0])[0] == "field" and mir.strip_copies(e[2][0])[-1] == "0"
    ctx.check(ok, "Bitboard::count_ones:popcount", "Bitboard::count_ones() is u64::count_ones of the board's word", cb.where(0), bad_what="Bitboard::count_ones returns `%s`" % expr_str(e)[:80])


RULES = [("leaf-accessors", rule_leaf_accessors), ("square-arith", rule_square_arith), ("ply-builder", rule_ply_builder), ("filter", rule_filter), ("probe", rule_probe), ("check-mirror", rule_check_mirror), ("castle-pre", rule_castle_pre), ("castle-masks", rule_castle_masks),
         ("castle-moves", rule_castle_moves), ("generators", rule_generators), ("pawn-table", rule_pawn_table), ("dispatch", rule_dispatch), ("capture-src", rule_capture_src), ("square-loops", rule_square_loops)]
# what the clauses above take for granted, decided here as well: the attack tables the generators read (C06), make/unmake
# leaving the position intact around the legality probe (C02), and the bookkeeping that later move generation depends on
# (castling rights, en-passant file, piece placement: C03)
RULES += engine.premise_rules("c06", ["bitboard-ops", "rays", "magic", "scheme", "mask-edges", "ray-walk", "leapers", "subset-enum", "bit-iteration"])
RULES += engine.premise_rules("c02", ["writeset", "stack", "counter", "ep-restore", "inverse-seq", "probe-pair"])
RULES += engine.premise_rules("c03", ["revocation-table", "rights-monotone", "ep", "placement"])


def run(tier):
    return engine.main(
        PROP, "legal move generation: structural clauses", RULES, "other",
        explanation=("FIDE-exactness of the generated move set for all positions (pseudo-legal sets of each piece, pins, evasions, no duplicates, mate/stalemate recognition) is a statement about run-time bitboards "
                     "and is NOT decided by any static argument in reach; C06 covers the attack tables separately. Decided are the structural clauses whose violation produces exactly the rare-combination "
                     "failures the property names: the legality filter (retain by is_legal_move().is_ok()); the probe testing the MOVER's king between make and unmake; the check/attacker mirror tables; castling "
                     "= rights && empty path && unattacked path for the same kind, refused on the wrong turn; the eight castling masks equal the FIDE squares (b1/b8 may be attacked, d1/d8 and c1/c8 may not) and "
                     "Black = White << 56; the four castling moves and both rook tables; the pawn direction/rank table and its mirror, double push, the two guarded en-passant captures, four promotions on the "
                     "back rank; the plain generators of knight, bishop, rook, queen and king (target mask = the piece's own attack function & !own pieces per colour, every set bit of it yields exactly Ply::new(square, s, Kind::P(colour)), nothing else does); Kind dispatch; the capture annotation (en passant looks at (start.rank, dest.file)) and nothing else rewritten on a generated move; full 0..64 square loops; `Square + Delta` folded over "
                     "8x8 squares x 25 deltas (off the board stays off the board) and the eight direction steps; Kind::get_color, Square::get_mask, Bitboard::count_ones over their whole domain; "
                     "get_attacked_squares = union over exactly the attackers' squares."),
        assumptions=["attack tables are exact (C06)", "make/unmake are exact inverses (C02)"],
        tier=tier)
